"""C09  Character matrices survive a round trip through NEXUS, PHYLIP, FASTA and NeXML.

Method: the REAL writers/readers are run on generated matrices; a DendroPy-free matrix model
[(label, [canonical symbol | ["amb"|"poly", members] | float | None, ...]), ...] is extracted from
the raw structures before writing and after reading and the two are compared
(vf/props/_c09_util.py: symbol tables, generators, independent document emitters, comparison).

Oracle clauses (each evaluation is one ctx.ev):
 (R) roundtrip   M --write(fmt, w)--> text --read(fmt, r)--> M' : same number of rows, same taxon labels in the same
                 order, same sequence lengths, same cell in every position (symbols compared upper-cased: every alphabet
                 used is case-insensitive; continuous by ==).  Any exception while writing a supported (type, format)
                 pair or while reading the library's own output is a violation.  Orthogonal to (fmt, variant):
                   * I/O route: as_string/get(data=), write(path=)/get(path=), write(file=)/get(file=), the legacy
                     write_to_*/get_from_*, DataSet.get(.., data_type=) and the additive DataSet.read() (twice);
                   * reader namespace: none / the source's own / a larger re-ordered one / an empty one given with
                     taxon_namespace=: the matrix is attached to it, its rows come in its order, no taxon is added for a
                     label it already has;
                   * (S) the object written is unchanged by writing (model and namespace before == after);
                   * (F) fan-out: the SAME object is written again (same or other format), every read-back is judged
                     against the model taken before the first write.
 (H) chain       M0 -A-> M1 -B-> M2 [-C-> M3]: every Mi equals M0 (format conversion keeps content); hostile labels
                 where no PHYLIP is involved, rows of unequal length where only FASTA / NeXML are.
 (D) data set    1-3 namespaces (disjoint, overlapping or with identical label lists; titles unique, repeated or differing
                 only in letter case) with matrices and tree lists, NEXUS (suppress_block_titles unset/None/False;
                 preserve_spaces, unquoted_underscores, simple) and NeXML, string/path/file/read() routes, optionally
                 read into a given namespace and converted on (NEXUS <-> NeXML): same number of matrices / tree lists,
                 every matrix equal, every matrix and tree list attached to a namespace with exactly its own labels,
                 every row / tree node on a Taxon OF that namespace, blocks of one source namespace on ONE namespace
                 object and blocks of different ones on different objects; each LINK resolution seen by the hook on
                 NexusReader._get_taxon_namespace returns the namespace with the linked title when there is one.
                 (Order of the blocks and of the labels inside a namespace: recorded, a mere re-ordering is not judged.)
 (L) CLI         dendropy-format (main() in process with patched argv/stdout; a few real subprocesses) on
                 temp files: reading its output gives the source model.
 (P) authored    harness-written NEXUS (DATA / CHARACTERS, interleaved, wrapped, MATCHCHAR, {..}/(..) tokens, several
                 blocks, MISSING/GAP declared or left to the defaults per block), PHYLIP (strict/relaxed x sequential/
                 wrapped/interleaved), FASTA (wrapped, rows of unequal length) and NeXML (cells/seqs, explicit <char>
                 columns, <cell>s in any order, arbitrary <char> ids, two <states> sets, rows in another order than the
                 otus, 1-2 otus) documents, and library-written NEXUS/PHYLIP re-flowed into interleaved / wrapped layout:
                 the parsed matrix equals the intended model ("interleaving does not matter"; a token {AG} may come back
                 as the named code or as an equivalent state without symbol), and is then round-tripped (R).
 (C) construct   from_dict / item assignment build the matrix the symbols denote (symbol <-> state lookup); the same
                 for the edits of an object history (below).
 Object histories ("however the matrix was built"): any base route, then optionally
                 * composed: concatenate / export / clone / copy of a matrix that was PARSED from a document (parts of a
                   concatenation parsed into one shared namespace);
                 * edited through the public API: row added (new_sequence / item assignment over a new taxon), cell or
                   row replaced through the matrix's own alphabet, row deleted, taxon relabelled - the model is edited
                   in parallel;
                 * decorated: annotations / comments on matrix, namespace, taxa, sequences (what parsing <meta> / [&..]
                   leaves); they are not compared, the rows must survive whatever they hold.

Mechanism keys (K_* below) give one key per root cause, whatever operation exposed it; every other
difference is keyed  <operation>:<format>|<failed clause>|<discriminator>  where the discriminator is the kind
of the first differing cell (gap->missing, fundamental->None, value->value ...), "fewer/more", "permuted" etc.
A K_* key is only used when the SIGNATURE of that defect is seen (e.g. K_SEMI: exactly the rows before the ';' row came
back, or a reader's parse error; the concatenated-standard key: NeXML only), never merely because the input class is present.

Soundness limits actually implemented:
 * (type, format) pairs: NeXML nucleotide/infinite must be *rejected* by the writer (checked, not judged as
   failure); FASTA continuous is not generated; NEXUS has no restriction/infinite DATATYPE in this library
   (written as STANDARD, the typed reader refuses 'standard' explicitly) -> read back as standard, content
   compared, type change recorded-not-judged.
 * suppress_block_titles=True is never generated (documented to drop needed titles).
 * labels: non-empty, no leading/trailing whitespace, distinct up to case, 1-9 characters and now and then 11/12/30/100;
   full punctuation grammar only for NEXUS / NeXML / FASTA(one line); PHYLIP strict <= 10 chars, relaxed no blanks,
   multispace no double blanks, spaces_to_underscores<->underscores_to_spaces blanks but no underscores.
 * rows of unequal length (>= 1) only where the format has no alignment requirement (FASTA, NeXML); zero-length rows and
   non-finite numbers are not generated (the statement does not speak of them); Python ints and -0.0 are.
 * matrices containing a multistate without symbol are not sent to PHYLIP / FASTA (no notation for them).
 * concatenate / export / clone results are taken as given (their correctness is C19 / C12): a mismatch with
   the harness' expectation is recorded-not-judged; the extracted model is the baseline either way.
 * a namespace handed to a reader holds every taxon of the source namespace (what a namespace lacking some of the
   file's taxa does to a NEXUS TAXA block is not part of the statement).
 * a matrix with several state alphabets and (documented) no default one gets no whole untyped rows added.
 * NEXUS 'simple' for data sets (documented: one DATA block, no TAXA block) only with a single matrix; taxa that no row /
   tree mentions need not come back.
 * state objects added to the library's *global* fixed alphabets by a parse ({..} / (..) without a named
   code) are removed again at the end of every case so that cases stay independent (recorded-not-judged); their
   cross-case effect is judged in one directed history per data type (dna, rna, protein).
"""
import collections
import copy
import io
import os
import random
import shutil
import subprocess
import sys
import tempfile

from .. import core, gen, ref, bridge
from ..mon.hooks import Hooks
from . import _c09_util as U

PROP = "C09"
LEVEL = "exploration"
TECHNIQUE = ("reference matrix model compared around the real writers/readers (every I/O route, reader-namespace mode, "
             "object history), source-unchanged and namespace-identity checks, hooks on FORMAT / <format> / LINK")
LEVEL_TEXT = "held on the generated matrices, object histories, documents, data sets and CLI conversions listed in 'rule'"
LEVEL_NOTE = "exploration: workloads are generated (exhaustive only over the small grid type x format x variant x dims)"
RULE = ("cases = directed witnesses + grid(type x format x variant x {1x1,1xN,Nx1,RxC}) + random roundtrip "
        "(type, construction route [from_dict / setitem / parsed_* / concat-export-clone over dictionary or parsed sources], "
        "post-edits, decorations, format variant, I/O route, reader namespace, labels incl. 11-100 chars, dims incl. "
        "unequal row lengths for FASTA/NeXML, symbol style) with fan-out of the same object to further formats + "
        "conversion chains of 2-3 formats + data sets (1-3 namespaces incl. identical label lists and titles differing in "
        "case, matrices, tree lists, block-title option, writer options, I/O route, NEXUS<->NeXML conversion) + "
        "dendropy-format conversions + harness-authored / re-flowed documents (NeXML cell order / ids / states sets, "
        "NEXUS MISSING/GAP declarations); non-trivial = matrix with >= 2 cells; distinct = distinct "
        "(kind, type, format, variant, route, model)")
REACH = [
    "nexuswriter:NexusWriter._write_char_block", "nexuswriter:NexusWriter._compose_format_terms",
    "nexuswriter:NexusWriter._write_block_title", "nexuswriter:NexusWriter._write_link_to_taxa_block",
    "nexuswriter:NexusWriter._link_blocks",
    "nexusreader:NexusReader._parse_format_statement", "nexusreader:NexusReader._read_character_states",
    "nexusreader:NexusReader._read_continuous_character_values", "nexusreader:NexusReader._parse_link_statement",
    "nexusreader:NexusReader._get_taxon_namespace", "nexusreader:NexusReader._get_state_for_multistate_tokens",
    "nexmlwriter:NexmlWriter._write_format_section", "nexmlwriter:NexmlWriter._compose_char_type_xml_for_state_alphabet",
    "nexmlreader:_NexmlCharBlockParser.parse_char_matrix", "nexmlreader:_NexmlCharBlockParser.parse_characters_format",
    "phylipwriter:PhylipWriter._write_char_matrix", "phylipreader:PhylipReader._parse_taxon_from_line",
    "phylipreader:PhylipReader._parse_sequential", "phylipreader:PhylipReader._parse_interleaved",
    "fastawriter:FastaWriter._write_char_matrix", "fastareader:FastaReader._read",
    "charstatemodel:StateAlphabet.match_state", "charstatemodel:StateAlphabet.__getitem__",
    "charmatrixmodel:CharacterMatrix.from_dict", "charmatrixmodel:CharacterMatrix.concatenate",
    "charmatrixmodel:CharacterMatrix.export_character_indices",
    "datasetmodel:DataSet._parse_and_create_from_stream", "dendropy_format:convert",
    "datasetmodel:DataSet._parse_and_add_from_stream", "charmatrixmodel:CharacterMatrix.new_sequence",
    "charmatrixmodel:CharacterMatrix.__delitem__", "charmatrixmodel:CharacterDataSequence.set_at",
    "nexuswriter:NexusWriter._write_item_annotations", "nexuswriter:NexusWriter._get_block_title",
    "nexmlwriter:NexmlWriter._write_annotations_and_comments",
]
MIN_EVENTS = {
    "roundtrip-checked": (3000, 30000), "chain-step-checked": (600, 7000), "dataset-block-checked": (700, 7000),
    "link-resolution-checked": (250, 2500), "cli-checked": (120, 500), "authored-parse-checked": (1000, 10000),
    "construct-checked": (1400, 9000), "documented-rejection-checked": (50, 500),
    "hook:CharacterMatrix.as_string:return": (3000, 30000), "hook:CharacterMatrix.get:return": (3500, 35000),
    "hook:DataSet.as_string:return": (250, 2500), "hook:DataSet.get:return": (400, 3500),
    "hook:NexusWriter._compose_format_terms:return": (1200, 10000),
    "hook:NexmlWriter._write_format_section:return": (800, 8000),
    "hook:NexusReader._parse_format_statement:return": (1500, 14000),
    "hook:NexusReader._get_taxon_namespace:return": (1500, 14000),
    "source-unchanged-checked": (8000, 32000), "reader-namespace-checked": (3500, 15000), "fanout-checked": (1500, 7500),
    "post-edit-checked": (1300, 6000), "composed-route-over-parsed-source": (700, 3500),
    "decorated-matrix-written": (500, 2200), "namespace-sharing-checked": (1000, 3200),
    "dataset-chain-step-checked": (220, 800),
}
ASSUMPTIONS = [
    "the model is read from the raw structures (_taxon_sequence_map, _character_values, StateIdentity._symbol) in "
    "taxon-namespace order, which is the documented iteration order of a CharacterMatrix (rows held for taxa outside the "
    "namespace are appended so that they cannot go unnoticed)",
    "a reader given taxon_namespace= lists the rows in that namespace's order (documented iteration order)",
    "annotations / comments are metadata: attached, written, not compared",
    "state symbols are compared upper-cased (all generated alphabets are case-insensitive)",
    "reader options are the documented counterparts of the writer options (strict<->strict, "
    "unquoted_underscores+preserve_spaces<->preserve_underscores, default_state_alphabet for PHYLIP/FASTA standard data)",
]
CASE_TIMEOUT = 180

TYPES = U.ALL_TYPES
FORMATS = ("nexus", "phylip", "fasta", "nexml")
VARIANTS = {
    "nexus": ("default", "simple", "preserve_spaces", "uu", "reflow", "sbtF", "sbtN", "same_ns", "path"),
    "phylip": ("strict", "relaxed", "multispace", "strict_il", "relaxed_il", "reflow_il", "reflow_il_strict",
               "reflow_wrap", "same_ns", "s2u", "s2u_il"),
    "fasta": ("default", "nowrap", "same_ns", "width"),
    "nexml": ("cells", "seqs", "same_ns"),
}
ROUTES = ("from_dict", "from_dict_ns", "setitem", "concat", "export_idx", "export_subset", "clone_ctor",
          "clone2", "deepcopy", "ns_scoped_copy", "parsed_nexus", "parsed_phylip", "parsed_fasta", "parsed_nexml")


# ------------------------------------------------------------------------------------------------
# cases
DIRECTED = (
    "nexml-char-id-per-cell", "sbt-false-two-namespaces", "standard-unnamed-ambiguity-nexus", "standard-equate",
    "nexus-semicolon-label", "nexml-label-escapes", "interleave-leak", "dna-unnamed-polymorphic",
    "phylip-strict-10-char-labels", "nexml-unnamed-multistate", "nexml-rejects-nucleotide-infinite",
    "gap-missing-every-type", "two-otus-nexml", "standard-custom-alphabet-export", "cli-subprocess-nexus-phylip", "cli-subprocess-fasta-nexus",
    "cli-subprocess-phylip-nexml", "special-chars-each-position", "digit-labels", "fasta-wrap-boundary",
    "standard-concatenated-nexml", "history-unnamed-multistate-pollutes-global-alphabet",
    "phylip-interleaved-into-namespace", "parsed-then-row-added", "nexml-cells-out-of-column-order",
    "block-titles-differing-in-case", "annotated-objects",
)


def cases(tier, seed):
    for name in DIRECTED:
        yield {"kind": "directed", "name": name, "seed": seed}
    for dtype in TYPES:
        for fmt in FORMATS:
            if not U.SUPPORT[fmt].get(dtype):
                continue
            for variant in VARIANTS[fmt]:
                for dims in ((1, 1), (1, 6), (4, 1), (3, 5)):
                    yield {"kind": "grid", "type": dtype, "fmt": fmt, "variant": variant, "dims": list(dims),
                           "seed": seed}
    n = {"quick": (9000, 1800, 1500, 600, 3000), "thorough": (45000, 7000, 5000, 1200, 7000)}[tier]
    for i in range(n[0]):
        yield {"kind": "rt", "i": i, "seed": seed}
    for i in range(n[1]):
        yield {"kind": "chain", "i": i, "seed": seed}
    for i in range(n[2]):
        yield {"kind": "dataset", "i": i, "seed": seed}
    for i in range(n[3]):
        yield {"kind": "cli", "i": i, "seed": seed}
    for i in range(n[4]):
        yield {"kind": "authored", "i": i, "seed": seed}


# ------------------------------------------------------------------------------------------------
# library access, model extraction, global-alphabet hygiene
def dp():
    import dendropy
    return dendropy


def matrix_class(dtype):
    return getattr(dp(), U.TYPES[dtype]["cls"])


def make_alphabet(name):
    """StateAlphabet for a standard matrix, or None for the library default (0-9)."""
    if name in (None, "digits"):
        return None
    fund, amb, poly = U.STD_ALPHABETS[name]
    return dp().StateAlphabet(fundamental_states=fund, ambiguous_states=list(amb) or None,
                              polymorphic_states=list(poly) or None, no_data_symbol="?", gap_symbol="-",
                              case_sensitive=False)


def cell_of(v, continuous):
    if v is None:
        return None
    if continuous:
        return float(v)
    sym = v._symbol
    if sym:
        return str(sym).upper()
    den = v._state_denomination
    members = sorted(set(str(s._symbol).upper() for s in v.fundamental_states))
    return ["amb" if den == 1 else "poly", "".join(members)]


def extract(m):
    """rows in namespace order (the documented iteration order); a row held for a Taxon that is not in the matrix's
    namespace - invisible to that iteration - is listed at the end so that it cannot go unnoticed"""
    cont = m.data_type == "continuous"
    out = []
    seen = 0
    for t in m.taxon_namespace:
        seq = m._taxon_sequence_map.get(t)
        if seq is None:
            continue
        seen += 1
        out.append([t.label, [cell_of(v, cont) for v in seq._character_values]])
    if seen != len(m._taxon_sequence_map):
        inside = set(id(t) for t in m.taxon_namespace)
        for t, seq in m._taxon_sequence_map.items():
            if id(t) not in inside:
                out.append(["<row-of-a-taxon-outside-the-namespace>%s" % (t.label,),
                            [cell_of(v, cont) for v in seq._character_values]])
    return out


def has_unnamed(model):
    return any(isinstance(c, list) for _, row in model for c in row)


_GLOBAL_ALPHABETS = None


def _globals():
    global _GLOBAL_ALPHABETS
    if _GLOBAL_ALPHABETS is None:
        d = dp()
        _GLOBAL_ALPHABETS = [(a, len(a._ambiguous_states), len(a._polymorphic_states)) for a in (
            d.DNA_STATE_ALPHABET, d.RNA_STATE_ALPHABET, d.NUCLEOTIDE_STATE_ALPHABET, d.PROTEIN_STATE_ALPHABET,
            d.RESTRICTION_SITES_STATE_ALPHABET, d.INFINITE_SITES_STATE_ALPHABET, d.BINARY_STATE_ALPHABET)]
    return _GLOBAL_ALPHABETS


def restore_global_alphabets(ctx):
    for a, na, np_ in _globals():
        if len(a._ambiguous_states) != na or len(a._polymorphic_states) != np_:
            del a._ambiguous_states[na:]
            del a._polymorphic_states[np_:]
            a.compile_lookup_mappings()
            ctx.note("parse-added-unnamed-state-to-global-alphabet(undone-by-harness)")


# ------------------------------------------------------------------------------------------------
# hooks
class State(object):
    def __init__(self):
        self.reset()

    def reset(self):
        self.nexml_cols = None        # (declared <char> columns, max sequence length, rows) of the last NeXML write
        self.nexus_format = []        # FORMAT terms composed by the writer
        self.read_format = []         # reader state after each FORMAT statement
        self.links = []               # (title asked, label of namespace returned)


def install_hooks(ctx, hooks, S):
    d = dp()
    from dendropy.dataio import nexuswriter, nexusreader, nexmlwriter
    hooks.install(d.CharacterMatrix, "as_string")
    hooks.install(d.CharacterMatrix, "get")
    hooks.install(d.DataSet, "as_string", tag="DataSet.as_string")
    hooks.install(d.DataSet, "get", tag="DataSet.get")

    def post_fmt(snap, obj, args, kw, result, exc):
        if exc is None:
            S.nexus_format.append(result)
    hooks.install(nexuswriter.NexusWriter, "_compose_format_terms", post=post_fmt, outermost_only=False)

    def post_nexml(snap, obj, args, kw, result, exc):
        if exc is None:
            cm = args[0] if args else kw.get("char_matrix")
            lens = [len(s) for s in cm._taxon_sequence_map.values()]
            S.nexml_cols = (len(set(result.values())), max(lens) if lens else 0, len(lens))
            if S.nexml_cols[0] > S.nexml_cols[1]:
                ctx.note("nexml-writer-declared-more-<char>-columns-than-sequence-length")
    hooks.install(nexmlwriter.NexmlWriter, "_write_format_section", post=post_nexml, outermost_only=False)

    def post_rfmt(snap, obj, args, kw, result, exc):
        if exc is None:
            S.read_format.append({"data_type": obj._data_type, "interleave": bool(obj._interleave),
                                  "gap": obj._gap_char, "missing": obj._missing_char})
    hooks.install(nexusreader.NexusReader, "_parse_format_statement", post=post_rfmt, outermost_only=False)

    def post_link(snap, obj, args, kw, result, exc):
        title = args[0] if args else kw.get("title")
        if exc is None and title is not None and obj.attached_taxon_namespace is None:
            ctx.ev("link-resolution-checked")
            S.links.append((title, result.label))
            # (the reader documents that a TAXA block's TITLE becomes the label of its namespace; judged only when the
            # reader does hold a namespace labelled with the title asked for, and returned another one)
            others = [t for t in getattr(obj, "_taxon_namespaces", ()) if t is not result and t.label is not None
                      and t.label.upper() == title.upper()]
            if (result.label is None or result.label.upper() != title.upper()) and others:
                ctx.violation("dataset-readback:nexus|link-resolution|namespace-with-other-title",
                              "LINK TAXA=%r resolved to the namespace titled %r" % (title, result.label))
            elif result.label is None or result.label.upper() != title.upper():
                ctx.note("link-resolved-to-namespace-labelled-otherwise(no-namespace-with-that-title-known)")
    hooks.install(nexusreader.NexusReader, "_get_taxon_namespace", post=post_link, outermost_only=False)


# ------------------------------------------------------------------------------------------------
# building source matrices
def raw_value(dtype, row):
    """what a user passes to from_dict for one row"""
    if dtype == "continuous":
        return list(row)
    return "".join(row)


def new_matrix(dtype, alphabet=None, **kw):
    cls = matrix_class(dtype)
    sa = make_alphabet(alphabet) if dtype == "standard" else None
    if sa is not None:
        kw["default_state_alphabet"] = sa
    return cls(**kw), sa


def from_dict(dtype, labels, rows, alphabet=None, **kw):
    cls = matrix_class(dtype)
    sa = make_alphabet(alphabet) if dtype == "standard" else None
    if sa is not None:
        kw["default_state_alphabet"] = sa
    d = collections.OrderedDict((l, raw_value(dtype, r)) for l, r in zip(labels, rows))
    return cls.from_dict(d, **kw), sa


def authored_text(rng, fmt, dtype, labels, rows, alphabet, opts=None):
    """(text, reader kwargs, description) of a harness-written document holding the matrix"""
    opts = opts or {}
    if fmt == "nexus":
        o = {"simple": rng.random() < 0.4, "interleave": 0, "wrap": 0, "matchchar": rng.random() < 0.3,
             "comments": rng.random() < 0.3}
        if dtype != "continuous" and rng.random() < 0.15 and not any(
                (not isinstance(c, list)) and c == "-" for r in rows for c in r):
            o["declare"] = False      # no MISSING= / GAP= terms: '?' is the default missing symbol (rows without gaps only)
        ncols = len(rows[0])
        r = rng.random()
        if r < 0.4 and ncols > 1:
            o["interleave"] = rng.randint(1, max(1, ncols - 1))
        elif r < 0.6 and ncols > 1:
            o["wrap"] = rng.randint(1, max(1, ncols - 1))
        o.update(opts)
        body = U.emit_nexus_char_block(rng, dtype, labels, rows, alphabet, **o)
        taxa = "" if o["simple"] else U.emit_nexus_taxa_block(rng, labels)
        return "#NEXUS\n" + taxa + body, {}, dict(o)
    if fmt == "phylip":
        strict = opts.get("strict", False)
        o = {"strict": strict, "interleaved": 0, "wrap": 0, "multispace": opts.get("multispace", False)}
        ncols = len(rows[0])
        r = rng.random()
        if r < 0.4 and ncols > 1:
            o["interleaved"] = rng.randint(1, max(1, ncols - 1))
        elif r < 0.7 and ncols > 1:
            o["wrap"] = rng.randint(1, max(1, ncols - 1))
        text = U.emit_phylip(rng, dtype, labels, rows, **o)
        rkw = {"strict": strict, "interleaved": bool(o["interleaved"])}
        if o["multispace"]:
            rkw["multispace_delimiter"] = True
        return text, rkw, o
    if fmt == "fasta":
        w = rng.choice([0, 1, 3, 10, 60, 70])
        return U.emit_fasta(rng, dtype, labels, rows, w), {}, {"width": w}
    if fmt == "nexml":
        seqs = rng.random() < 0.5
        layout = U.gen_nexml_layout(rng, seqs)
        text = U.emit_nexml(rng, dtype, [("ns0", opts.get("nslabel"), labels)], [("ns0", "m", alphabet, labels, rows)],
                            seqs=seqs, layout=layout)
        return text, {}, {"seqs": seqs, "layout": layout}
    raise ValueError(fmt)


def label_style_for(fmt, variant, rng):
    if fmt == "phylip":
        if variant in ("strict", "strict_il", "reflow_il_strict"):
            return "strict10"
        if variant == "multispace":
            return "singlespace"
        if variant in ("s2u", "s2u_il"):
            return "blanks-no-underscore"
        return "nospace" if rng.random() < 0.6 else "simple"
    if variant == "reflow":
        return "simple"
    r = rng.random()
    if r < 0.5:
        return "simple"
    if fmt == "fasta":
        return "singlespace" if r < 0.8 else "hostile"
    if fmt == "nexml":
        return "hostile-xmlsafe" if r < 0.92 else "hostile"
    return "hostile"


COMPOSED_ROUTES = ("concat", "export_idx", "export_subset", "clone_ctor", "clone2", "deepcopy", "ns_scoped_copy")
STRICT_VARIANTS = ("strict", "strict_il", "reflow_il_strict")


def base_admissible(base, dtype, labels, opts):
    """can the source of a composed route be parsed from a harness-written document of that format?"""
    fmt = base[len("parsed_"):]
    if U.SUPPORT[fmt].get(dtype) != 1:
        return False
    if fmt == "nexml" and dtype == "standard":
        return False          # (the NeXML emitter writes canonical symbols only)
    if fmt == "phylip":
        if (opts or {}).get("strict"):
            return all(len(l) <= 10 and "\t" not in l for l in labels)
        if (opts or {}).get("multispace"):
            return all("  " not in l and "\t" not in l for l in labels)
        return all(" " not in l and "\t" not in l for l in labels)
    if fmt == "fasta":
        return all("\n" not in l for l in labels)
    return True


def make_source(ctx, rng, dtype, labels, rows, alphabet, base, opts, ns=None, label=None):
    """source matrix of a composed route (concatenate / export / clone ...): built from a dictionary or - object history -
    parsed from a harness-written document (``base`` = parsed_<format>), into ``ns`` when given.  -> (matrix, sa) or None"""
    if base and base != "from_dict" and base_admissible(base, dtype, labels, opts) \
            and all(len(r) == len(rows[0]) for r in rows):
        built = build_matrix(ctx, rng, dtype, labels, rows, alphabet, base, opts if base == "parsed_phylip" else None,
                             reader_ns=ns)
        if built is None:
            return None
        ctx.ev("composed-route-over-parsed-source")
        if label:
            built[0].label = label
        return built[0], built[1]
    kw = {}
    if ns is not None:
        kw["taxon_namespace"] = ns
    if label:
        kw["label"] = label
    return from_dict(dtype, labels, rows, alphabet, **kw)


def build_matrix(ctx, rng, dtype, labels, rows, alphabet, route, opts=None, base=None, reader_ns=None):
    """-> (matrix, state alphabet or None, expected model or None when the route's result is taken as given, judged).
    Returns None when the route does not apply.  base: how the source of a composed route is made (make_source);
    reader_ns: namespace a parsed_* route reads into."""
    d = dp()
    cls = matrix_class(dtype)
    exp = U.expected_model(dtype, labels, rows, alphabet)
    ncols = max(len(r) for r in rows)
    if route == "from_dict":
        m, sa = from_dict(dtype, labels, rows, alphabet)
        return m, sa, exp, True
    if route == "from_dict_ns":
        extra = ["zz_extra_%d" % k for k in range(rng.randint(0, 2))]
        order = list(labels) + extra
        rng.shuffle(order)
        ns = d.TaxonNamespace(order, label=rng.choice([None, "tns"]))
        m, sa = from_dict(dtype, labels, rows, alphabet, taxon_namespace=ns)
        byl = dict((e[0], e) for e in exp)
        return m, sa, [byl[l] for l in order if l in byl], True
    if route == "setitem":
        ns = d.TaxonNamespace(labels)
        m, sa = new_matrix(dtype, alphabet, taxon_namespace=ns)
        for k, (l, r) in enumerate(zip(labels, rows)):
            vals = list(r) if dtype == "continuous" else m.coerce_values("".join(r))
            if k % 2:
                m.new_sequence(ns.get_taxon(l), vals)
            else:
                m[l] = vals
        return m, sa, exp, True
    if route == "concat":
        if ncols < 2 or (dtype == "standard" and alphabet not in (None, "digits")):
            return None     # concatenate() builds its result over the class default alphabet
        cut = sorted(rng.sample(range(1, ncols), min(ncols - 1, rng.randint(1, 2))))
        ns = d.TaxonNamespace(labels)
        sa = make_alphabet(alphabet) if dtype == "standard" else None
        parts = []
        for k, (a, b) in enumerate(zip([0] + cut, cut + [ncols])):
            if base and base != "from_dict":
                src = make_source(ctx, rng, dtype, labels, [r[a:b] for r in rows], alphabet, base, opts, ns=ns,
                                  label="part%d" % k)
                if src is None:
                    return None
                parts.append(src[0])
                continue
            kw = {"taxon_namespace": ns, "label": "part%d" % k}
            if sa is not None:
                kw["default_state_alphabet"] = sa
            parts.append(cls.from_dict(collections.OrderedDict(
                (l, raw_value(dtype, r[a:b])) for l, r in zip(labels, rows)), **kw))
        m = cls.concatenate(parts)
        return m, sa, exp, False
    if route in ("export_idx", "export_subset"):
        total = ncols + rng.randint(1, 4)
        keep = sorted(rng.sample(range(total), ncols))
        filler = U.gen_rows(rng, dtype, len(labels), total, "fund", alphabet)
        big = []
        for i, r in enumerate(rows):
            row = list(filler[i])
            for j, k in enumerate(keep):
                row[k] = r[j]
            big.append(row)
        src = make_source(ctx, rng, dtype, labels, big, alphabet, base, opts)
        if src is None:
            return None
        src, sa = src
        if route == "export_idx":
            m = src.export_character_indices(keep)
        else:
            src.new_character_subset(label="keep", character_indices=keep)
            m = src.export_character_subset("keep")
        return m, sa, exp, False
    if route in ("clone_ctor", "clone2", "deepcopy", "ns_scoped_copy"):
        src = make_source(ctx, rng, dtype, labels, rows, alphabet, base, opts)
        if src is None:
            return None
        src, sa = src
        if route == "clone_ctor":
            m = cls(src)
        elif route == "clone2":
            m = src.clone(2)
        elif route == "deepcopy":
            m = copy.deepcopy(src)
        else:
            m = src.taxon_namespace_scoped_copy()
        return m, sa, exp, False
    if route.startswith("parsed_"):
        fmt = route[len("parsed_"):]
        if not U.SUPPORT[fmt].get(dtype) or U.SUPPORT[fmt][dtype] != 1:
            return None
        if fmt == "nexus" and dtype == "standard" and (U.STD_ALPHABETS[alphabet or "digits"][1]
                                                       or U.STD_ALPHABETS[alphabet or "digits"][2]):
            return None     # the harness emitter writes no EQUATE
        text, rkw, desc = authored_text(rng, fmt, dtype, labels, rows, alphabet, opts)
        sa = make_alphabet(alphabet) if dtype == "standard" else None
        if sa is not None and fmt in ("phylip", "fasta"):
            rkw = dict(rkw, default_state_alphabet=sa)
        ns_size = 0
        if reader_ns is not None:
            rkw = dict(rkw, taxon_namespace=reader_ns)
            ns_size = len(reader_ns)
        il_into_ns = fmt == "phylip" and rkw.get("interleaved") and ns_size > 0
        try:
            m = cls.get(data=text, schema=fmt, **rkw)
        except core.CaseTimeout:
            raise
        except Exception as e:
            ctx.ev("authored-parse-checked")
            detail = {"text": text[:1500], "reader": repr(rkw), "layout": desc, "error": core.exc_brief(e)}
            if il_into_ns and is_parse_error(e):
                ctx.violation(K_PHY_IL_NS, "interleaved PHYLIP read into a namespace that already has %d taxa raised %s" % (
                    ns_size, core.exc_brief(e)), detail)
                return None
            if fmt == "nexus" and ";" in labels and is_parse_error(e):
                ctx.violation(K_SEMI, "quoted label ';' taken for the end of the "
                              "statement (%s)" % core.exc_brief(e), {"text": text[:800]})
                return None
            ctx.violation("parse-authored:%s|unexpected-exception|%s" % (fmt, core.exc_key(e)),
                          "reading a harness-written %s document raised %s" % (fmt, core.exc_brief(e)), detail)
            return None
        ctx.ev("authored-parse-checked")
        got = extract(m)
        want = exp
        if reader_ns is not None:
            pos = dict((t.label, k) for k, t in enumerate(reader_ns))
            want = sorted(exp, key=lambda r: pos.get(r[0], len(pos)))
        diff = U.compare_models(want, got, dtype, alphabet)
        if diff is not None and il_into_ns:
            ctx.violation(K_PHY_IL_NS, "interleaved PHYLIP read into a namespace that already has %d taxa: the lines of the "
                          "later pages are assigned by position in the namespace (%s)" % (ns_size, diff[0]),
                          {"diff": diff[2], "text": text[:800]})
            return None
        if diff is not None and fmt == "nexus" and diff[0] == "row-count" and semi_signature(labels, [r[0] for r in got]):
            ctx.violation(K_SEMI, "quoted label ';' taken for the end of the statement",
                          {"diff": diff[2], "text": text[:800]})
            return None
        if diff is not None and fmt == "nexml" and dtype == "continuous" and not desc.get("seqs") \
                and desc.get("layout", {}).get("shuffle_cells") and U.compare_models(
                    U.rows_in_document_order(want, desc["layout"].get("_cell_orders"), 0), got, dtype, alphabet) is None:
            ctx.violation(K_NEXML_CONT_ORDER, "continuous <cell> elements are stored in the order in which the row lists "
                          "them; the column named by char= is ignored", {"diff": diff[2], "text": text[:1500]})
            return None
        if diff is not None:
            ctx.violation("parse-authored:%s|%s|%s" % (fmt, diff[0], diff[1]),
                          "matrix parsed from a harness-written %s document differs from the document" % fmt,
                          {"diff": diff[2], "text": text[:1500], "reader": repr(rkw), "layout": desc})
            return None
        if fmt in ("nexus", "nexml") and dtype == "standard":
            sa = None     # alphabet comes from the document
        return m, sa, want, False
    raise ValueError(route)


def check_construct(ctx, m, exp, dtype, alphabet, route, judged):
    """(C): the built matrix holds what the symbols denote.  Returns the extracted model."""
    model = extract(m)
    if exp is None:
        return model
    diff = U.compare_models(exp, model, dtype, alphabet)
    if judged:
        ctx.ev("construct-checked")
        if diff is not None:
            ctx.violation("construct:%s|%s|%s" % (route, diff[0], diff[1]),
                          "matrix built by %s does not hold the given symbols" % route, diff[2])
    elif diff is not None:
        ctx.note("route-result-differs-from-harness-expectation:%s(taken-as-given)" % route)
    return model


# ------------------------------------------------------------------------------------------------
# writing, reading back, judging
FASTA_WIDTHS = [7]      # wrap_width of the "width" variant: re-drawn per case (run_case)


def variant_options(fmt, variant):
    """(writer kwargs, reader kwargs) of a format variant"""
    if fmt == "nexus":
        return {"default": ({}, {}), "simple": ({"simple": True}, {}),
                "preserve_spaces": ({"preserve_spaces": True}, {}),
                "uu": ({"unquoted_underscores": True, "preserve_spaces": True}, {"preserve_underscores": True}),
                "reflow": ({}, {}), "sbtF": ({"suppress_block_titles": False}, {}),
                "sbtN": ({"suppress_block_titles": None}, {}), "same_ns": ({}, {}), "path": ({}, {})}[variant]
    if fmt == "phylip":
        return {"strict": ({"strict": True}, {"strict": True}), "relaxed": ({}, {}),
                "multispace": ({}, {"multispace_delimiter": True}),
                "strict_il": ({"strict": True}, {"strict": True, "interleaved": True}),
                "relaxed_il": ({}, {"interleaved": True}),
                "reflow_il": ({}, {"interleaved": True}),
                "reflow_il_strict": ({"strict": True}, {"strict": True, "interleaved": True}),
                "reflow_wrap": ({}, {}), "same_ns": ({}, {}),
                # the documented counterpart pair that carries labels with blanks through relaxed PHYLIP
                "s2u": ({"spaces_to_underscores": True}, {"underscores_to_spaces": True}),
                "s2u_il": ({"spaces_to_underscores": True}, {"underscores_to_spaces": True, "interleaved": True})}[variant]
    if fmt == "fasta":
        return {"default": ({}, {}), "nowrap": ({"wrap": False}, {}), "same_ns": ({}, {}),
                "width": ({"wrap_width": FASTA_WIDTHS[0]}, {})}[variant]
    if fmt == "nexml":
        return {"cells": ({}, {}), "seqs": ({"markup_as_sequences": True}, {}),
                "same_ns": ({"markup_as_sequences": True}, {})}[variant]
    raise ValueError(fmt)


def labels_ok_for(fmt, variant, labels):
    """labels admissible for the format variant (the property quantifies over these only)"""
    if fmt == "phylip":
        if variant in ("strict", "strict_il", "reflow_il_strict"):
            return all(len(l) <= 10 and "\t" not in l for l in labels)
        if variant == "multispace":
            return all("  " not in l and "\t" not in l for l in labels)
        if variant in ("s2u", "s2u_il"):
            return all("_" not in l and "\t" not in l for l in labels)
        return all(" " not in l and "\t" not in l for l in labels)
    if variant == "reflow":
        return all(U.SIMPLE_LABEL_RE.match(l) for l in labels)
    return True


# mechanism keys (one per root cause, whatever operation exposed it)
K_SHIFT = "roundtrip:nexml|rows-shifted-by-None-padding|fresh-char-id-per-cell"
K_SHIFT_MIXED = "roundtrip:nexml|rows-shifted-by-None-padding|row-without-character-types-in-matrix-with-explicit-columns"
K_JSON = "roundtrip:nexml|taxon-label|label-attribute-escaped-as-json-not-xml"
K_NEXML_UNNAMED = "roundtrip:nexml|unnamed-multistate|no-notation(symbol-None-or-member-list)"
K_SEMI = "roundtrip:nexus|row-count|quoted-semicolon-label-ends-the-statement"
K_COMMAS = "roundtrip:nexus|unnamed-multistate|member-symbols-written-with-commas"
K_EQUATE = "roundtrip:nexus|standard-named-multistate|EQUATE-is-repr-of-a-set-and-is-never-parsed"
K_LOST = "roundtrip:copied-standard-matrix|state_alphabets-reset-by-constructor|cells-keep-old-states"
K_LOST_CONCAT = "roundtrip:concatenated-standard-matrix|cells-refer-to-state-objects-of-the-source-alphabets"
K_PHY_IL_NS = "readback:phylip|interleaved-into-non-empty-namespace|pages-indexed-by-namespace-position"
K_CASE_TITLES = "dataset-readback:nexus|MultipleBlockWithSameTitleError|titles-differ-only-in-letter-case"
K_BRACKET = "roundtrip:nexus|annotation-or-comment-with-unbalanced-bracket|written-inside-a-comment-unescaped"
K_NEXML_CONT_ORDER = "parse-authored:nexml|continuous-cells-stored-in-document-order|char-attribute-ignored"


def k_lost(info, fmt=None):
    """which of the two 'cells reference states outside the matrix's own alphabets' mechanisms applies, or None:
    the (repaired) constructor reset - any format -, or concatenate(), whose result keeps a fresh default alphabet
    while its cells are the sources' state objects; that recorded defect is about NeXML (the writer looks every cell
    up in the <states> it defined), the other formats write symbols and are judged with the generic keys"""
    if not (isinstance(info, dict) and info.get("alphabets_lost")):
        return None
    if info.get("route") == "concat":
        return K_LOST_CONCAT if fmt == "nexml" else None
    return K_LOST


K_SBT = "dataset-readback:nexus|LinkRequiredError|suppress_block_titles=False-writes-no-titles"
K_LEAK = "parse-authored:nexus|interleave-flag-not-reset-between-blocks"


def nexus_involved(fmt, info):
    return (fmt == "nexus" or info.get("from") == "nexus" or "nexus" in (info.get("chain") or ())
            or info.get("first") == "nexus")


def is_parse_error(exc):
    from dendropy.utility import error
    return isinstance(exc, error.DataParseError)


def semi_signature(src_labels, got_labels):
    """signature of the recorded ';' defect: the statement (TAXLABELS / MATRIX) ended where the quoted ';' stood -
    exactly the rows written before it are there (in any order when the reader was given a namespace)"""
    if ";" not in src_labels or ";" in got_labels:
        return False
    k = list(src_labels).index(";")
    return sorted(got_labels) == sorted(src_labels[:k])


def semi_signature_ns(want, nsl):
    """same for a namespace: the labels declared before ';' come first (labels met later in MATRIX / TREE statements may follow)"""
    if ";" not in want or ";" in nsl:
        return False
    k = list(want).index(";")
    return list(nsl[:k]) == list(want[:k])


def unbalanced_brackets(s):
    depth = 0
    for c in str(s):
        if c == "[":
            depth += 1
        elif c == "]":
            depth -= 1
            if depth < 0:
                return True
    return depth != 0


def phylip_il_ns_signature(fmt, info):
    return fmt == "phylip" and info.get("reader_interleaved") and info.get("reader_ns_size_before", 0) > 0


def classify_read_error(fmt, exc, src_model, text, info):
    """mechanism key suffix for a read-back exception, or None for the generic key"""
    name = type(exc).__name__
    msg = str(exc)
    labels = [r[0] for r in src_model] + list(info.get("other_labels", ()))
    k = k_lost(info, fmt)
    if k is not None:
        return k
    if phylip_il_ns_signature(fmt, info) and is_parse_error(exc):
        return K_PHY_IL_NS
    if nexus_involved(fmt, info) and info.get("decor_unbalanced"):
        return K_BRACKET
    if ";" in labels and nexus_involved(fmt, info) and is_parse_error(exc):
        return K_SEMI
    if fmt == "nexml" and name == "ParseError" and any(c in l for l in labels for c in '"<&'):
        return K_JSON
    if fmt == "nexus" and "Unrecognized state symbols encountered in multistate sequence" in msg \
            and has_unnamed(src_model):
        return K_COMMAS
    if fmt == "nexus" and name == "InvalidCharacterStateSymbolError" and info.get("named_multistate") \
            and 'EQUATE="{' in text:
        return K_EQUATE
    if fmt == "nexml" and has_unnamed(src_model) and "'None'" in msg:
        return K_NEXML_UNNAMED
    if fmt == "nexml" and has_unnamed(src_model) and ("State with symbol '{'" in msg or "State with symbol '('" in msg):
        return K_NEXML_UNNAMED
    return None


def judge_models(ctx, op, fmt, dtype, alphabet, src_model, got, S, info, text):
    """compare source and read-back model; report with mechanism keys.  True when equal."""
    diff = U.compare_models(src_model, got, dtype, alphabet)
    if diff is None:
        return True
    detail = {"diff": diff[2], "info": info, "text": text[:1200] if text else None}
    k = k_lost(info, fmt)
    if k is not None:
        ctx.violation(k, "matrix read back from %s differs (%s)" % (fmt, diff[0]), detail)
        return False
    if nexus_involved(fmt, info) and info.get("decor_unbalanced"):
        ctx.violation(K_BRACKET, "an annotation / comment value with unbalanced square brackets is written inside a NEXUS "
                      "comment as it is (%s)" % diff[0], detail)
        return False
    if phylip_il_ns_signature(fmt, info):
        ctx.violation(K_PHY_IL_NS, "interleaved PHYLIP read into a namespace that already has taxa: the lines of the later "
                      "pages are assigned by position in the namespace, not in the first page (%s)" % diff[0], detail)
        return False
    # -- NeXML: taxon labels that came back in their JSON-escaped spelling
    if fmt == "nexml" and diff[0] in ("taxon-label", "taxon-order"):
        fixed, hit = [], False
        for (sl, _), (gl, cells) in zip(src_model, got):
            if gl != sl and gl == U.json_escaped(sl):
                fixed.append([sl, cells])
                hit = True
            else:
                fixed.append([gl, cells])
        if hit:
            ctx.violation(K_JSON,
                          "taxon label read back in its JSON-escaped spelling", detail)
            return judge_models(ctx, op, fmt, dtype, alphabet, src_model, fixed, S, info, text) and False
    # -- NeXML: one fresh <char> id per cell -> later rows padded with None
    if fmt == "nexml" and diff[0] == "sequence-length" and S.nexml_cols is not None \
            and S.nexml_cols[0] > S.nexml_cols[1] and len(got) >= 2:
        if info.get("mixed_character_types"):
            # rows parsed with explicit columns + rows added later without character types: the writer declares a second
            # set of <char> columns for the latter
            stripped, padded = U.strip_leading_none(got, src_model)
            if padded:
                ctx.violation(K_SHIFT_MIXED,
                              "writer declared %d <char> columns for sequences of length %d: the rows whose cells carry no "
                              "character type got columns of their own and read back behind %d None cells" % (
                                  S.nexml_cols[0], S.nexml_cols[1], padded[0][1]), detail)
                judge_models(ctx, op, fmt, dtype, alphabet, src_model, stripped, S, dict(info, mixed_character_types=False),
                             text)
                return False
        stripped, sig = U.strip_none_padding(got)
        if sig:
            ctx.violation(K_SHIFT,
                          "writer declared %d <char> columns for sequences of length %d; row i reads back with "
                          "i*ncols leading None cells" % (S.nexml_cols[0], S.nexml_cols[1]), detail)
            judge_models(ctx, op, fmt, dtype, alphabet, src_model, stripped, S, info, text)
            return False
    if nexus_involved(fmt, info) and diff[0] == "row-count" and semi_signature(
            info.get("document_order") or [r[0] for r in src_model], [r[0] for r in got]):
        ctx.violation(K_SEMI,
                      "taxon label ';' is written quoted but the reader takes it for the end of the statement", detail)
        return False
    if fmt == "nexml" and diff[0] == "cell" and isinstance(diff[2]["expected"], list) and diff[2]["got"] == "NONE":
        ctx.violation(K_NEXML_UNNAMED,
                      "multistate without symbol reads back as a state with the symbol 'None'", detail)
        return False
    ctx.violation("%s:%s|%s|%s" % (op, fmt, diff[0], diff[1]),
                  "matrix read back from %s differs from the matrix written (%s)" % (fmt, diff[0]), detail)
    return False


def alphabets_cover_cells(m):
    """every state held in a cell belongs to one of the matrix's own state alphabets"""
    known = set()
    for a in m.state_alphabets:
        known.update(id(s) for s in a.state_iter())
    for seq in m._taxon_sequence_map.values():
        for v in seq._character_values:
            if v is not None and id(v) not in known:
                return False
    return True


def mixed_character_types(m):
    """some cells carry a character type (column definition), others of the same matrix do not (recorded for the key only)"""
    some = none = False
    for seq in m._taxon_sequence_map.values():
        for t in seq._character_types:
            if t is None:
                none = True
            else:
                some = True
        if some and none:
            return True
    return False


# I/O routes: how the text leaves and enters the library (every route for every format)
IO_ROUTES = ("string", "path", "file", "legacy", "dataset-get", "dataset-read")


def pick_io(rng):
    return "string" if rng.random() < 0.6 else rng.choice(IO_ROUTES[1:])


def write_obj(ctx, obj, fmt, wkw, op, detail, tmpdir=None, src_model=None, io="string"):
    """text written by the library, or None (exception reported)"""
    try:
        if tmpdir is not None and io in ("path", "file", "legacy", "legacy-stream"):
            p = os.path.join(tmpdir, "w.%s" % fmt)
            if io == "path":
                obj.write(path=p, schema=fmt, **wkw)
            elif io == "file":
                with open(p, "w", encoding="utf-8") as f:
                    obj.write(file=f, schema=fmt, **wkw)
            elif io == "legacy":
                obj.write_to_path(p, fmt, **wkw)
            else:
                with open(p, "w", encoding="utf-8") as f:
                    obj.write_to_stream(f, fmt, **wkw)
            with open(p, encoding="utf-8") as f:
                return f.read()
        return obj.as_string(fmt, **wkw)
    except core.CaseTimeout:
        raise
    except Exception as e:
        k = k_lost(detail, fmt) if isinstance(detail, dict) else None
        if k is not None:
            ctx.violation(k, "writing raised %s" % core.exc_brief(e), detail)
        else:
            ctx.unexpected("write:%s:%s" % (op, fmt), e, detail)
        return None


def read_matrices(ctx, cls, text, fmt, rkw, dtype, io="string", tmpdir=None):
    """the matrices the library makes of ``text`` through the I/O route (exceptions propagate)"""
    d = dp()
    if io in ("dataset-get", "dataset-read"):
        kw = dict(rkw)
        if fmt in ("phylip", "fasta"):
            kw["data_type"] = cls.data_type       # these formats do not name their data type
        if io == "dataset-get":
            ds = d.DataSet.get(data=text, schema=fmt, **kw)
            return list(ds.char_matrices), ds
        ds = d.DataSet()
        if "taxon_namespace" in kw:
            ds.attach_taxon_namespace(kw.pop("taxon_namespace"))
        ds.read(data=text, schema=fmt, **kw)
        ds.read(data=text, schema=fmt, **kw)          # read() adds to what the data set holds
        return list(ds.char_matrices), ds
    if tmpdir is not None and io in ("path", "file", "legacy", "legacy-stream"):
        p = os.path.join(tmpdir, "r.%s" % fmt)
        with open(p, "w", encoding="utf-8") as f:
            f.write(text)
        if io == "path":
            return [cls.get(path=p, schema=fmt, **rkw)], None
        if io == "legacy":
            return [cls.get_from_path(p, fmt, **rkw)], None
        with open(p, encoding="utf-8") as f:
            if io == "file":
                return [cls.get(file=f, schema=fmt, **rkw)], None
            return [cls.get_from_stream(f, fmt, **rkw)], None
    if io == "legacy":
        return [cls.get_from_string(text, fmt, **rkw)], None
    return [cls.get(data=text, schema=fmt, **rkw)], None


def read_matrix(ctx, dtype, text, fmt, rkw, op, src_model, info, read_as=None, tmpdir=None, io="string"):
    cls = matrix_class(read_as or dtype)
    try:
        ms, ds = read_matrices(ctx, cls, text, fmt, rkw, dtype, io, tmpdir)
    except core.CaseTimeout:
        raise
    except Exception as e:
        k = classify_read_error(fmt, e, src_model, text, info)
        detail = {"error": core.exc_brief(e), "info": info, "text": text[:1500]}
        if k is not None:
            ctx.violation(k, "[%s] reading the library's own %s output raised %s" % (op, fmt, core.exc_brief(e)), detail)
        else:
            ctx.unexpected("readback:%s:%s" % (op, fmt), e, detail)
        return None
    if io == "dataset-read" and len(ms) == 2:
        a, b = extract(ms[0]), extract(ms[1])
        if a != b:
            diff = U.compare_models(a, b, dtype, info.get("alphabet")) or ("content", "differs", None)
            ctx.violation("%s:%s|additive-read|second-read-of-the-same-document-gives-another-matrix|%s" % (op, fmt, diff[0]),
                          "DataSet.read() of the same document twice gave two different matrices", {"info": info, "diff": diff[2]})
            return None
        ms = ms[:1]
    if len(ms) != 1 and nexus_involved(fmt, info) and info.get("decor_unbalanced"):
        ctx.violation(K_BRACKET, "an annotation / comment value with unbalanced square brackets is written inside a NEXUS "
                      "comment as it is: %d matrices read" % len(ms), {"info": info, "text": text[:1200]})
        return None
    if len(ms) != 1:
        ctx.violation("%s:%s|matrix-count|%s" % (op, fmt, io), "a document holding one matrix gave %d matrices through %s" % (
            len(ms), io), {"info": info, "text": text[:1200]})
        return None
    m2 = ms[0]
    if io.startswith("dataset") and not isinstance(m2, cls):
        # the data-set reader chooses the matrix class from the document (or data_type=)
        if not (read_as == "standard" or (info.get("type") in ("restriction", "infinite") and fmt == "nexus")):
            ctx.violation("%s:%s|data-type|%s->%s" % (op, fmt, dtype, m2.data_type), "DataSet reader built a %s for %s data" % (
                type(m2).__name__, dtype), {"info": info})
            return None
    return m2


READER_NS_MODES = (None, None, None, None, None, None, "same", "same", "superset", "empty")


def reader_namespace(rng, m, src_model, mode):
    """-> (namespace handed to the reader, its labels now, the model the read-back matrix must have).
    The rows of a matrix come in the order of its namespace (documented), so a namespace that lists the taxa in another
    order re-orders the rows accordingly."""
    d = dp()
    if mode == "same":
        ns = m.taxon_namespace
        return ns, [t.label for t in ns], src_model
    if mode == "empty":
        return d.TaxonNamespace(), [], src_model
    # every taxon of the source namespace (a taxa section lists them all) + unrelated ones, in another order
    order = [t.label for t in m.taxon_namespace] + ["zq_extra_%d" % k for k in range(rng.randint(0, 2))]
    rng.shuffle(order)
    byl = dict((r[0], r) for r in src_model)
    return d.TaxonNamespace(order), list(order), [byl[l] for l in order if l in byl]


def check_source_unchanged(ctx, m, before, ns_before, fmt, op, info):
    """writing must not change the object written (it may be written again)"""
    ctx.ev("source-unchanged-checked")
    after = extract(m)
    ns_after = [t.label for t in m.taxon_namespace]
    if after != before:
        diff = U.compare_models(before, after, info.get("type"), info.get("alphabet")) or ("content", "changed", None)
        ctx.violation("write:%s|source-matrix-changed-by-writing|%s|%s" % (fmt, diff[0], diff[1]),
                      "[%s] the matrix is not the same after as_string/write(%s) as before" % (op, fmt),
                      {"diff": diff[2], "info": info})
        return False
    if ns_after != ns_before:
        ctx.violation("write:%s|source-namespace-changed-by-writing" % fmt,
                      "[%s] the taxon namespace is not the same after as_string/write(%s) as before" % (op, fmt),
                      {"before": ns_before[:20], "after": ns_after[:20], "info": info})
        return False
    return True


def roundtrip(ctx, rng, S, m, sa, src_model, dtype, alphabet, fmt, variant, op="roundtrip", info=None, tmp=None,
              rns="draw", io="draw", keep_order=False):
    """(R) one write + read-back + comparison.  Returns the read-back matrix (or None).
    rns: reader namespace mode (None / same / superset / empty; "draw" = chosen here); io: I/O route;
    keep_order: the caller compares further steps with the same model (no re-ordering namespace)."""
    info = dict(info or {})
    info.update({"type": dtype, "fmt": fmt, "variant": variant, "alphabet": alphabet})
    support = U.SUPPORT[fmt].get(dtype)
    if not support:
        return None
    if has_unnamed(src_model) and fmt in ("phylip", "fasta"):
        ctx.note("unnamed-multistate-not-sent-to-%s" % fmt)
        return None
    if not labels_ok_for(fmt, variant, [r[0] for r in src_model]):
        ctx.note("labels-not-admissible-for-%s-%s(skipped)" % (fmt, variant))
        return None
    lens = set(len(r[1]) for r in src_model)
    if fmt in ("nexus", "phylip") and (len(lens) > 1 or 0 in lens):
        ctx.note("rows-of-unequal-or-zero-length-not-sent-to-%s(aligned-format)" % fmt)
        return None
    wkw, rkw = variant_options(fmt, variant)
    wkw, rkw = dict(wkw), dict(rkw)
    if dtype == "standard":
        names = U.STD_ALPHABETS[alphabet or "digits"]
        info["named_multistate"] = bool(names[1] or names[2])
        if fmt in ("phylip", "fasta") and (sa is not None or alphabet not in (None, "digits")):
            # PHYLIP / FASTA carry no symbol list: the reader is given the matrix's own alphabet
            rkw["default_state_alphabet"] = sa if sa is not None else matrix_alphabet(m)
    if variant == "same_ns":
        rns = "same"
    elif rns == "draw":
        rns = rng.choice(READER_NS_MODES)
        if keep_order and rns == "superset":
            rns = "same"
    if variant == "path":
        io = "path"
    elif io == "draw":
        io = pick_io(rng)
    if io == "legacy" and rng.random() < 0.5:
        io = "legacy-stream"
    info["reader_namespace"], info["io"] = rns, io
    S.reset()
    tmpdir = tmp
    if support == "reject":
        ctx.ev("documented-rejection-checked")
        try:
            m.as_string(fmt, **wkw)
            ctx.note("nexml-writer-accepted-%s" % dtype)
        except core.CaseTimeout:
            raise
        except Exception as e:
            if "Unrecognized character block data type" not in str(e):
                ctx.unexpected("write:%s:%s" % (op, fmt), e, info)
        return None
    if fmt == "phylip" and len(m._taxon_sequence_map) < len(m.taxon_namespace):
        # taxa without sequences: the writer documents suppress_missing_taxa for exactly this
        wkw["suppress_missing_taxa"] = True
        ctx.note("phylip-namespace-has-taxa-without-sequences(written-with-suppress_missing_taxa)")
    if dtype == "standard" and not alphabets_cover_cells(m):
        info["alphabets_lost"] = True
    if fmt == "nexml" and mixed_character_types(m):
        info["mixed_character_types"] = True
    before = extract(m)
    ns_before = [t.label for t in m.taxon_namespace]
    text = write_obj(ctx, m, fmt, wkw, op, info, tmpdir, src_model, io=io)
    if text is None:
        ctx.ev("roundtrip-checked")
        return None
    if not check_source_unchanged(ctx, m, before, ns_before, fmt, op, info):
        ctx.ev("roundtrip-checked")
        return None
    labels = [r[0] for r in src_model]
    if variant == "reflow":
        ncols = max(len(r[1]) for r in src_model)
        t2 = U.reflow_nexus_interleaved(text, dtype, rng.randint(1, max(1, ncols)), rng)
        if t2 is None:
            ctx.note("reflow-not-applicable")
        else:
            text = t2
    elif variant in ("reflow_il", "reflow_il_strict", "reflow_wrap"):
        ncols = max(len(r[1]) for r in src_model)
        k = rng.randint(1, max(1, ncols - 1))
        t2 = U.reflow_phylip(text, dtype, labels, variant == "reflow_il_strict",
                             page=k if variant != "reflow_wrap" else 0, wrap=k if variant == "reflow_wrap" else 0)
        if t2 is None:
            ctx.note("reflow-not-applicable")
        else:
            text = t2
    read_as = "standard" if support == "as-standard" else None
    if read_as:
        ctx.note("nexus-%s-read-back-as-standard(type-not-carried-by-format)" % dtype)
    want_model = src_model
    given_ns = ns_given_before = None
    if rns is not None:
        given_ns, ns_given_before, want_model = reader_namespace(rng, m, src_model, rns)
        rkw["taxon_namespace"] = given_ns
        info["document_order"] = [r[0] for r in src_model]
        # (the additive read reads a second time into the namespace that the first read filled)
        info["reader_ns_size_before"] = max(len(ns_given_before), 1 if io == "dataset-read" else 0)
        info["reader_interleaved"] = bool(rkw.get("interleaved"))
    m2 = read_matrix(ctx, dtype, text, fmt, rkw, op, src_model, info, read_as, tmpdir, io=io)
    ctx.ev("roundtrip-checked")
    if m2 is None:
        return None
    got = extract(m2)
    ok = judge_models(ctx, op, fmt, dtype, alphabet, want_model, got, S, info, text)
    if ok and read_as is None and m2.data_type != dtype:
        ctx.violation("%s:%s|data-type|%s->%s" % (op, fmt, dtype, m2.data_type), "data type changed")
    if ok and given_ns is not None:
        # the reader was told which namespace to use: the matrix is attached to it and no taxon is added for a label it has
        ctx.ev("reader-namespace-checked")
        ns_after = [t.label for t in given_ns]
        want_ns = ns_given_before
        if rns == "empty":
            # filled by the reader: the labels of the rows, possibly the other taxa of the source namespace (formats
            # with a taxa section), nothing else and nothing twice
            rowl = set(r[0] for r in src_model)
            if rowl <= set(ns_after) <= set(ns_before) and len(set(ns_after)) == len(ns_after):
                want_ns = ns_after
            else:
                want_ns = [r[0] for r in src_model]
        if m2.taxon_namespace is not given_ns:
            ctx.violation("%s:%s|reader-namespace|matrix-not-attached-to-the-given-namespace" % (op, fmt),
                          "get(..., taxon_namespace=ns) returned a matrix over another namespace", {"info": info})
            ok = False
        elif ns_after != want_ns and nexus_involved(fmt, info) and info.get("decor_unbalanced"):
            ctx.violation(K_BRACKET, "an annotation / comment value with unbalanced square brackets is written inside a NEXUS "
                          "comment as it is: the rest of it is read as taxon labels", {"info": info, "text": text[:800]})
            ok = False
        elif ns_after != want_ns:
            ctx.violation("%s:%s|reader-namespace|%s" % (op, fmt, "taxa-added" if len(ns_after) > len(want_ns)
                                                         else "labels-changed"),
                          "reading into the namespace %r left it as %r" % (want_ns[:12], ns_after[:12]),
                          {"info": info, "text": text[:800]})
            ok = False
    return m2 if ok else None


# ------------------------------------------------------------------------------------------------
# object histories: edits after construction, decorations (annotations / comments)
def matrix_alphabet(m):
    """the alphabet a user looks symbols up in: the default one, else the first (a parsed matrix may have several and,
    documented, no default then)"""
    try:
        sa = getattr(m, "default_state_alphabet", None)
    except TypeError:
        sa = None
    if sa is None and getattr(m, "state_alphabets", None):
        sa = m.state_alphabets[0]
    return sa


def values_for(m, dtype, row):
    """what a user hands to new_sequence / item assignment for a row of raw symbols: state objects looked up in the
    matrix's own alphabet (or the numbers)"""
    if dtype == "continuous":
        return list(row)
    sa = matrix_alphabet(m)
    return [sa[c] for c in row]


EDIT_KINDS = ("add-row-new_sequence", "add-row-setitem", "replace-cell", "delete-row", "relabel-taxon", "replace-row")


def post_edit(ctx, rng, m, model, dtype, alphabet, lstyle, nedits=None):
    """(history) edit a built matrix through the public API and edit the model in parallel.
    -> (new model, list of edit kinds applied).  The edited matrix must hold the edited model (construct clause)."""
    model = [[l, list(c)] for l, c in model]
    applied = []
    if any(isinstance(c, list) or c is None for _, r in model for c in r):
        return model, applied          # symbol-less multistates: no symbol to look a replacement up with
    ncols = max([len(r[1]) for r in model] or [0])
    if dtype != "continuous" and matrix_alphabet(m) is None:
        return model, applied
    fund, gap, missing, amb, syn = U.type_symbols(dtype, alphabet) if dtype != "continuous" else ("", "", "", {}, {})
    pool = fund + gap + missing + "".join(sorted(amb))

    def new_row(n):
        if dtype == "continuous":
            return [U.gen_value(rng) for _ in range(n)]
        return [rng.choice(pool) for _ in range(n)]

    def as_model(row):
        return U.expected_model(dtype, ["x"], [row], alphabet)[0][1]

    ns = m.taxon_namespace
    kinds = EDIT_KINDS
    if dtype != "continuous" and len(m.state_alphabets) > 1:
        # several alphabets and (documented) no default: a whole row without character types has no defined alphabet;
        # single cells can still be replaced (the cell keeps its character type)
        kinds = ("replace-cell", "delete-row", "relabel-taxon")
    for _ in range(nedits or rng.choice([1, 1, 2, 3])):
        kind = rng.choice(kinds)
        rows_by_label = dict((r[0], r) for r in model)
        if kind in ("add-row-new_sequence", "add-row-setitem"):
            taken = [t.label for t in ns]
            lab = U.gen_labels(rng, 1, lstyle, taken=taken, long_p=0)[0]
            t = ns.new_taxon(label=lab)
            row = new_row(ncols)
            vals = values_for(m, dtype, row)
            if kind == "add-row-new_sequence":
                m.new_sequence(t, vals)
            else:
                m[t] = vals
            model.append([lab, as_model(row)])
        elif kind == "replace-cell" and model and ncols:
            r = rng.choice([r for r in model if r[1]] or [None])
            if r is None:
                continue
            j = rng.randrange(len(r[1]))
            c = new_row(1)
            seq = m[ns.get_taxon(r[0])]
            ctype = seq.character_type_at(j)
            if dtype != "continuous" and ctype is not None and getattr(ctype, "state_alphabet", None) is not None:
                seq[j] = ctype.state_alphabet[c[0]]          # the column's own alphabet (a parsed matrix may have several)
            else:
                seq[j] = values_for(m, dtype, c)[0]
            r[1][j] = as_model(c)[0]
        elif kind == "replace-row" and model:
            r = rng.choice(model)
            row = new_row(len(r[1]))
            m[ns.get_taxon(r[0])] = values_for(m, dtype, row)
            r[1][:] = as_model(row)
        elif kind == "delete-row" and len(model) >= 2:
            r = rng.choice(model)
            del m[ns.get_taxon(r[0])]
            model.remove(r)
        elif kind == "relabel-taxon" and model:
            r = rng.choice(model)
            taken = [t.label for t in ns]
            lab = U.gen_labels(rng, 1, lstyle, taken=taken, long_p=0)[0]
            ns.get_taxon(r[0]).label = lab
            r[0] = lab
        else:
            continue
        applied.append(kind)
    # rows come in namespace order
    pos = dict((t.label, k) for k, t in enumerate(ns))
    model.sort(key=lambda r: pos[r[0]])
    return model, applied


ANNOTATION_VALUES = ("plain", "two words", 3.5, 7, None, ["u", "v"], "q'r", 'd"e', "<&>", "a;b", "k=v,w", "x[y]z", "{curly}",
                     "x] y", "[open", "tab\there")


def decorate(ctx, rng, m, fmt):
    """(history) metadata as a parsed NeXML <meta> / NEXUS [&..] leaves it: annotations and comments on the matrix, its
    namespace, taxa and sequences.  They are not part of what is compared; the rows must survive whatever they hold.
    -> True when a value with unbalanced square brackets was attached to something NEXUS writes a comment for"""
    unbalanced = False
    targets = [("matrix", m), ("namespace", m.taxon_namespace)]
    taxa = list(m.taxon_namespace)
    for t in rng.sample(taxa, min(len(taxa), rng.randint(1, 3))):
        targets.append(("taxon", t))
        if t in m._taxon_sequence_map and rng.random() < 0.5:
            targets.append(("sequence", m._taxon_sequence_map[t]))
    for kind, obj in targets:
        if rng.random() < 0.35:
            continue
        for k in range(rng.randint(1, 2)):
            v = rng.choice(ANNOTATION_VALUES)
            if rng.random() < 0.75 or not hasattr(obj, "comments"):
                obj.annotations.add_new("key%d" % k, v)
            else:
                if v is None or isinstance(v, list):
                    v = "a comment"
                obj.comments.append(str(v))
            if kind in ("matrix", "namespace", "taxon") and any(unbalanced_brackets(x) for x in (v if isinstance(v, list) else [v])):
                unbalanced = True
    return unbalanced


# ------------------------------------------------------------------------------------------------
# case kinds
def pick_alphabet(rng, dtype, hostile=True):
    if dtype != "standard":
        return None
    r = rng.random()
    if r < 0.45:
        return "digits"
    if r < 0.9 or not hostile:
        return rng.choice(["binary", "ternary", "letters", "mixed"])
    return rng.choice(["named-amb", "named-poly"])


def pick_style(rng, dtype):
    return rng.choice(["full", "full", "fund", "gappy", "amb"])


def sig_of(kind, dtype, fmt, variant, route, model):
    return (kind, dtype, fmt, variant, route, core.short_hash(model))


def pick_target(rng, dtype, ragged=False):
    fmts = [f for f in FORMATS if U.SUPPORT[f].get(dtype) and (not ragged or f in ("fasta", "nexml"))]
    fmt = rng.choice(fmts)
    return fmt, rng.choice(VARIANTS[fmt])


def do_roundtrip_case(ctx, rng, S, dtype, fmt, variant, dims, route, tmp, kind, alphabet=None, lstyle=None,
                      style=None, history=True):
    if alphabet is None:
        alphabet = pick_alphabet(rng, dtype)
    lstyle = lstyle or label_style_for(fmt, variant, rng)
    opts = None
    if route == "parsed_phylip" or (history and route in COMPOSED_ROUTES):
        # (the source of a composed route may be a parsed PHYLIP document: labels must fit one)
        if lstyle == "strict10":
            opts = {"strict": True}
        elif lstyle == "singlespace":
            opts = {"multispace": True}
        elif route == "parsed_phylip" and lstyle not in ("simple", "nospace"):
            lstyle = "nospace"
    style = style or pick_style(rng, dtype)
    if route == "parsed_nexml" and dtype == "standard" and style in ("full", "amb"):
        style = "gappy"
    labels = U.gen_labels(rng, dims[0], lstyle, long_p=0.05 if variant not in STRICT_VARIANTS else 0)
    rows = U.gen_rows(rng, dtype, dims[0], dims[1], style, alphabet)
    ragged = False
    if history and fmt in ("fasta", "nexml") and dims[1] >= 2 and rng.random() < 0.15 \
            and route in ("from_dict", "from_dict_ns", "setitem", "parsed_fasta", "parsed_nexml", "clone2", "deepcopy"):
        rows = U.make_ragged(rng, rows)
        ragged = True
    base = None
    if history and route in COMPOSED_ROUTES and rng.random() < 0.45:
        base = rng.choice(["parsed_nexus", "parsed_phylip", "parsed_fasta", "parsed_nexml"])
    built = build_matrix(ctx, rng, dtype, labels, rows, alphabet, route, opts, base=base)
    if built is None:
        ctx.note("route-not-applicable:%s%s" % (route, "<-" + base if base else ""))
        return None
    m, sa, exp, judged = built
    model = check_construct(ctx, m, exp, dtype, alphabet, route, judged)
    info = {"route": route, "labels": lstyle, "dims": list(dims)}
    if base:
        info["base"] = base
    if ragged:
        info["ragged"] = True
    if history and rng.random() < 0.3 and not ragged:
        elstyle = lstyle if not route.startswith("parsed_") or lstyle in ("simple", "nospace", "strict10") else "simple"
        want, applied = post_edit(ctx, rng, m, model, dtype, alphabet, elstyle)
        if applied:
            info["edits"] = applied
            ctx.ev("post-edit-checked")
            model = check_construct(ctx, m, want, dtype, alphabet, "post-edit:" + applied[0], True)
    if history and rng.random() < 0.12:
        info["decorated"] = True
        if decorate(ctx, rng, m, fmt):
            info["decor_unbalanced"] = True
        ctx.ev("decorated-matrix-written")
    if dims[0] * dims[1] >= 2:
        ctx.nontrivial(sig_of(kind, dtype, fmt, variant, route, model))
    m2 = roundtrip(ctx, rng, S, m, sa, model, dtype, alphabet, fmt, variant, info=info, tmp=tmp)
    if history and rng.random() < 0.3:
        # fan-out: the SAME object is written again (same or other format); every read-back is judged against the model
        # taken before the first write
        for _ in range(rng.choice([1, 1, 2])):
            f2, v2 = (fmt, variant) if rng.random() < 0.3 else pick_target(rng, dtype, ragged)
            ctx.ev("fanout-checked")
            roundtrip(ctx, rng, S, m, sa, model, dtype, alphabet, f2, v2, op="fanout", info=dict(info, first=fmt), tmp=tmp)
    return m, sa, model, alphabet, m2


def run_grid(case, ctx, rng, S, tmp):
    dims = tuple(case["dims"])
    route = rng.choice(["from_dict", "from_dict", "setitem", "from_dict_ns"])
    do_roundtrip_case(ctx, rng, S, case["type"], case["fmt"], case["variant"], dims, route, tmp, "grid")


def run_rt(case, ctx, rng, S, tmp):
    dtype = rng.choice(TYPES)
    fmts = [f for f in FORMATS if U.SUPPORT[f].get(dtype)]
    fmt = rng.choice(fmts)
    variant = rng.choice(VARIANTS[fmt])
    heavy = fmt == "nexml"
    dims = U.gen_dims(rng, ctx.tier, heavy)
    if heavy and dims[0] * dims[1] > 4000:
        dims = (min(dims[0], 20), min(dims[1], 200))
    route = rng.choice(ROUTES)
    r = do_roundtrip_case(ctx, rng, S, dtype, fmt, variant, dims, route, tmp, "rt")
    if r is not None and case["i"] < 4:
        ctx.sample({"kind": "rt", "type": dtype, "fmt": fmt, "variant": variant, "route": route,
                    "model": [[l, c[:12]] for l, c in r[2][:4]], "held": r[4] is not None})


def run_chain(case, ctx, rng, S, tmp):
    """(H) M0 -A-> M1 -B-> M2 [-C-> M3]; every step is compared with M0."""
    dtype = rng.choice(TYPES)
    fmts = [f for f in FORMATS if U.SUPPORT[f].get(dtype) == 1]
    k = rng.choice([2, 2, 3])
    seq = [rng.choice(fmts) for _ in range(k)]
    alphabet = pick_alphabet(rng, dtype, hostile=False)
    # labels must be admissible for every format of the chain
    variants = []
    for f in seq:
        if f == "phylip":
            variants.append(rng.choice(["relaxed", "strict", "relaxed_il"]))
        elif f == "nexml":
            variants.append(rng.choice(["seqs", "cells"]))
        else:
            variants.append(rng.choice(["default", "default", "simple"] if f == "nexus" else ["default", "nowrap"]))
    if any(v == "strict" for v in variants):
        lstyle = "strict10" if all(f != "phylip" or v == "strict" for f, v in zip(seq, variants)) else "simple"
        if lstyle == "strict10" and rng.random() < 0.5:
            lstyle = "simple"
    elif "phylip" in seq:
        lstyle = rng.choice(["simple", "nospace"])
    elif "fasta" in seq:
        lstyle = rng.choice(["simple", "singlespace", "hostile"])       # (FASTA: anything on one line)
    else:
        lstyle = rng.choice(["simple", "hostile-xmlsafe", "hostile"])
    if lstyle == "strict10" and any(f == "phylip" and v != "strict" for f, v in zip(seq, variants)):
        lstyle = "simple"
    dims = U.gen_dims(rng, ctx.tier, "nexml" in seq)
    if "nexml" in seq and dims[0] * dims[1] > 3000:
        dims = (min(dims[0], 15), min(dims[1], 150))
    labels = U.gen_labels(rng, dims[0], lstyle, long_p=0 if any(v == "strict" for v in variants) else 0.05)
    rows = U.gen_rows(rng, dtype, dims[0], dims[1], pick_style(rng, dtype), alphabet)
    if all(f in ("fasta", "nexml") for f in seq) and dims[1] >= 2 and rng.random() < 0.3:
        rows = U.make_ragged(rng, rows)        # formats without an alignment requirement
    m, sa = from_dict(dtype, labels, rows, alphabet)
    model0 = check_construct(ctx, m, U.expected_model(dtype, labels, rows, alphabet), dtype, alphabet, "from_dict", True)
    if rng.random() < 0.2 and len(set(len(r) for r in rows)) == 1:
        want, applied = post_edit(ctx, rng, m, model0, dtype, alphabet, lstyle if lstyle != "hostile" else "simple")
        if applied:
            ctx.ev("post-edit-checked")
            model0 = check_construct(ctx, m, want, dtype, alphabet, "post-edit:" + applied[0], True)
            labels = [r[0] for r in model0]
    ctx.nontrivial(sig_of("chain", dtype, "-".join(seq), "-".join(variants), "from_dict", model0))
    cur = m
    for step, (f, v) in enumerate(zip(seq, variants)):
        if not labels_ok_for(f, v, labels):
            ctx.note("chain-labels-not-admissible(skipped)")
            return
        cur_sa = sa
        if f in ("phylip", "fasta") and dtype == "standard" and sa is None and alphabet not in (None, "digits"):
            cur_sa = None
        ctx.ev("chain-step-checked")
        nxt = roundtrip(ctx, rng, S, cur, cur_sa, model0, dtype, alphabet, f, v, op="chain",
                        info={"chain": seq, "variants": variants, "step": step}, tmp=tmp, keep_order=True)
        if nxt is None:
            return
        # the model written in the next step must be what was read here
        cur = nxt
    if case["i"] < 2:
        ctx.sample({"kind": "chain", "type": dtype, "formats": seq, "variants": variants,
                    "model": [[l, c[:12]] for l, c in model0[:3]]})


# ------------------------------------------------------------------------------------------------
# (D) data sets with several namespaces
def random_tree_spec(rng, labels):
    names = list(labels)
    if len(names) == 1:
        return ref.S(None, [ref.S(names[0])])
    return gen.random_spec(rng, len(names), p_poly=0.2, names=names)


def case_variant(rng, t):
    for v in rng.sample([t.upper(), t.lower(), t.swapcase(), t.capitalize()], 4):
        if v != t:
            return v
    return None


def titles_differ_only_in_case(desc):
    """two blocks of one kind whose titles are different strings that are equal up to letter case"""
    for titles in desc.get("titles", {}).values():
        seen = {}
        for t in titles:
            if t is None:
                continue
            if t.upper() in seen and seen[t.upper()] != t:
                return True
            seen.setdefault(t.upper(), t)
    return False


def build_dataset(ctx, rng, nns, fmt, lstyle, attached=False, overlap=False, identical=False):
    """-> (DataSet, description) ; description = {"ns": [[labels]...], "matrices": [(ns idx, type, alphabet, model)],
    "trees": [(ns idx, ntrees, [leaf label sets])], "titles": {kind: [labels of the blocks]}}"""
    d = dp()
    ds = d.DataSet()
    desc = {"ns": [], "nslabels": [], "matrices": [], "trees": [], "titles": {"ns": [], "m": [], "t": []}}
    types = [t for t in TYPES if U.SUPPORT[fmt].get(t) in (1, "as-standard")]
    used_titles = set()

    def title(prefix):
        t = _title(prefix)
        desc["titles"][prefix].append(t)
        return t

    def _title(prefix):
        # block titles may legitimately repeat (the writer documents that it makes them unique with a numeric
        # suffix): with some probability an earlier title - including ones that need NEXUS quoting - is used again,
        # as it is or in another letter case (the statement puts no restriction on the labels of namespaces / blocks)
        earlier = [t for t in desc["titles"][prefix] if t]
        if earlier and rng.random() < (0.35 if prefix == "ns" else 0.1):
            t = rng.choice(earlier)
            if rng.random() < 0.3:
                t = case_variant(rng, t) or t
            return t
        while True:
            t = rng.choice([None, None, prefix + str(rng.randint(0, 99)), prefix + " block_" + str(rng.randint(0, 9))] + (
                U.gen_labels(rng, 1, "hostile-xmlsafe" if fmt == "nexml" else "hostile", long_p=0)
                if rng.random() < 0.3 else []))
            if t is None or t.upper() not in used_titles:
                if t is not None:
                    used_titles.add(t.upper())
                return t
    # '=' and '\\' are left unquoted in tree statements (finding of C02): not used where tree lists are written
    # a label that is exactly one Newick punctuation character is quoted by the writer but still read as
    # punctuation inside tree statements (tree reading: C02); ';' stays in (it also ends MATRIX statements)
    forbid = ("(", ")", ",", ":", "[", "]")
    base = U.gen_labels(rng, rng.randint(1, 6), lstyle, exclude="=\\", forbid=forbid)
    nss = []
    for k in range(nns):
        if identical and k:
            labels = list(base)           # another namespace with exactly the same labels: still a namespace of its own
        elif overlap and k:
            labels = list(base) + U.gen_labels(rng, rng.randint(0, 2), "simple")
            labels = list(collections.OrderedDict((l.lower(), l) for l in labels).values())
            rng.shuffle(labels)
        elif k == 0:
            labels = list(base)
        else:
            labels = U.gen_labels(rng, rng.randint(1, 6), lstyle, exclude="=\\", forbid=forbid)
        ns = d.TaxonNamespace(labels, label=title("ns"))
        nss.append(ns)
        if attached and k == 0:
            ds.attach_taxon_namespace(ns)
        else:
            ds.add_taxon_namespace(ns)
        desc["ns"].append(list(labels))
        desc["nslabels"].append(ns.label)
    nmat = 0
    for k, ns in enumerate(nss):
        labels = desc["ns"][k]
        for _ in range(rng.choice([0, 1, 1, 2])):
            dtype = rng.choice(types)
            alphabet = pick_alphabet(rng, dtype, hostile=False)
            sub = [l for l in labels if rng.random() < 0.85] or labels[:1]
            ncols = rng.randint(1, 12)
            if fmt == "nexml" and dtype != "continuous" and rng.random() < 0.5:
                sub = sub[:1]          # single row: not affected by the per-cell column ids
            rows = U.gen_rows(rng, dtype, len(sub), ncols, pick_style(rng, dtype), alphabet)
            m, sa = from_dict(dtype, sub, rows, alphabet, taxon_namespace=ns, label=title("m"))
            if rng.random() < 0.4:
                # matrices with named character subsets (as produced by concatenate): the writers emit a SETS / CHARSET
                # section between this matrix and whatever follows it in the document
                for j in range(rng.randint(1, 2)):
                    idx = sorted(rng.sample(range(ncols), rng.randint(1, ncols)))
                    m.new_character_subset(label="cs%d_%d" % (nmat, j), character_indices=idx)
            ds.add_char_matrix(m)
            desc["matrices"].append((k, dtype, alphabet, extract(m)))
            nmat += 1
        if rng.random() < 0.6 and len(labels) >= 2:     # (single-leaf tree statements are C02's business)
            tl = d.TreeList(taxon_namespace=ns, label=title("t"))
            sets = []
            for _ in range(rng.randint(1, 3)):
                sub = [l for l in labels if rng.random() < 0.8]
                if len(sub) < 2:
                    sub = labels[:2]
                spec = random_tree_spec(rng, sub)
                tl.append(bridge.build_tree(spec, ns, rooted=rng.choice([True, False])))
                sets.append(sorted(sub))
            ds.add_tree_list(tl)
            desc["trees"].append((k, len(sets), sets))
    if nmat == 0:
        dtype = rng.choice(types)
        alphabet = pick_alphabet(rng, dtype, hostile=False)
        rows = U.gen_rows(rng, dtype, len(desc["ns"][0]), 3, "full", alphabet)
        m, sa = from_dict(dtype, desc["ns"][0], rows, alphabet, taxon_namespace=nss[0], label=title("m"))
        ds.add_char_matrix(m)
        desc["matrices"].append((0, dtype, alphabet, extract(m)))
    return ds, desc


def tree_leaf_labels(tree):
    spec = bridge.extract(tree)
    return sorted(x for x in ref.leaf_taxa(spec))


def _ns_labels_ok(want, nsl, fmt):
    return sorted(nsl) == sorted(want)


def _without_taxa_section(want, nsl, info):
    """NEXUS 'simple' (documented: no TAXA block) cannot carry taxa that no row and no tree mentions: the namespace read back
    may lack some of its labels, it must not have others"""
    return bool((info.get("writer") or {}).get("simple") or info.get("taxa_section_lost")) and set(nsl) <= set(want) \
        and len(set(nsl)) == len(nsl)


def _matrix_matches(m2, entry, desc, fmt):
    k, dtype, alphabet, model = entry
    if not set(t.label for t in m2.taxon_namespace) <= set(desc["ns"][k]):
        return False
    return U.compare_models(model, extract(m2), dtype, alphabet) is None


def _tree_list_matches(tl2, entry, desc, fmt):
    k, ntrees, sets = entry
    return set(t.label for t in tl2.taxon_namespace) <= set(desc["ns"][k]) and len(tl2) == ntrees


def _assignment(items, entries, pred):
    """a permutation p with pred(items[p[i]], entries[i]) for all i (small lists: backtracking), or None"""
    n = len(entries)
    ok = [[pred(items[j], entries[i]) for j in range(n)] for i in range(n)]
    used, out = [False] * n, []

    def rec(i):
        if i == n:
            return True
        for j in range(n):
            if ok[i][j] and not used[j]:
                used[j] = True
                out.append(j)
                if rec(i + 1):
                    return True
                used[j] = False
                out.pop()
        return False
    return list(out) if rec(0) else None


def check_dataset(ctx, S, ds2, desc, fmt, op, info, text, type_lost=False):
    """matrices / tree lists of the data set read back against the description of the source.  True when everything held.
    The statement asks that every block comes back attached to a namespace with exactly its own labels; the order of the
    blocks in the data set and of the labels in the namespaces is compared but a mere re-ordering is recorded-not-judged."""
    d = dp()
    n0 = len(ctx.violations) + sum(v["count"] for v in ctx.violations.values())
    if len(ds2.char_matrices) != len(desc["matrices"]) or len(ds2.tree_lists) != len(desc["trees"]):
        ctx.violation("%s:%s|block-count|matrices-or-tree-lists" % (op, fmt),
                      "data set read back with %d matrices / %d tree lists, written %d / %d" % (
                          len(ds2.char_matrices), len(ds2.tree_lists), len(desc["matrices"]), len(desc["trees"])),
                      {"info": info, "text": text[:1500]})
        return False
    mats, tls = list(ds2.char_matrices), list(ds2.tree_lists)
    if 1 < len(mats) <= 6 and not all(_matrix_matches(m2, e, desc, fmt) for m2, e in zip(mats, desc["matrices"])):
        p = _assignment(mats, desc["matrices"], lambda m2, e: _matrix_matches(m2, e, desc, fmt))
        if p is not None:
            ctx.note("dataset-matrices-read-back-in-another-order(not-judged)")
            mats = [mats[j] for j in p]
    if 1 < len(tls) <= 6 and not all(_tree_list_matches(t2, e, desc, fmt) for t2, e in zip(tls, desc["trees"])):
        p = _assignment(tls, desc["trees"], lambda t2, e: _tree_list_matches(t2, e, desc, fmt))
        if p is not None:
            ctx.note("dataset-tree-lists-read-back-in-another-order(not-judged)")
            tls = [tls[j] for j in p]
    ns_of = {}        # source namespace index -> namespace objects its blocks came back on
    for m2, (k, dtype, alphabet, model) in zip(mats, desc["matrices"]):
        ctx.ev("dataset-block-checked")
        nsl = [t.label for t in m2.taxon_namespace]
        want = desc["ns"][k]
        if fmt == "nexml" and nsl != want and nsl == [U.json_escaped(l) for l in want]:
            ctx.violation(K_JSON,
                          "namespace labels read back in their JSON-escaped spelling", {"info": info})
        elif nsl != want and fmt == "nexus" and semi_signature_ns(want, nsl):
            ctx.violation(K_SEMI,
                          "taxon label ';' is written quoted but the reader takes it for the end of the statement",
                          {"info": info, "text": text[:1500]})
            continue
        elif nsl != want and sorted(nsl) == sorted(want):
            ctx.note("namespace-labels-read-back-in-another-order(not-judged)")
        elif nsl != want and _without_taxa_section(want, nsl, info):
            ctx.note("nexus-simple-has-no-taxa-block(unreferenced-taxa-not-carried)")
        elif nsl != want:
            ctx.violation("%s:%s|matrix-attached-to-namespace-with-other-labels|other-set" % (op, fmt),
                          "matrix re-attached to a namespace with labels %r, its own namespace had %r" % (nsl[:8], want[:8]),
                          {"info": info, "text": text[:1500]})
            continue
        ns_of.setdefault(k, []).append(m2.taxon_namespace)
        members = set(id(t) for t in m2.taxon_namespace)
        if any(id(t) not in members for t in m2._taxon_sequence_map):
            ctx.violation("%s:%s|matrix-row-on-taxon-outside-its-namespace" % (op, fmt),
                          "a sequence of the matrix read back belongs to a Taxon object that is not in the matrix's namespace",
                          {"info": info, "text": text[:1500]})
            continue
        if U.SUPPORT[fmt].get(dtype) == "as-standard" or (type_lost and dtype in ("restriction", "infinite")):
            ctx.note("nexus-%s-read-back-as-standard(type-not-carried-by-format)" % dtype)
        elif m2.data_type != dtype:
            ctx.violation("%s:%s|data-type|%s->%s" % (op, fmt, dtype, m2.data_type), "data type changed", {"info": info})
        minfo = dict(info, type=dtype, alphabet=alphabet,
                     named_multistate=False)
        S2 = S
        if fmt == "nexml":
            # per-matrix column statistics are not kept per matrix by the hook: recompute the signature from the model
            S2 = State()
            lens = [len(r[1]) for r in model]
            got = extract(m2)
            glens = [len(r[1]) for r in got]
            if glens and lens and max(glens) > max(lens):
                S2.nexml_cols = (sum(lens), max(lens), len(lens))
        judge_models(ctx, op, fmt, dtype, alphabet, model, extract(m2), S2, minfo, text)
    for tl2, (k, ntrees, sets) in zip(tls, desc["trees"]):
        ctx.ev("dataset-block-checked")
        nsl = [t.label for t in tl2.taxon_namespace]
        want = desc["ns"][k]
        if fmt == "nexml" and nsl != want and nsl == [U.json_escaped(l) for l in want]:
            ctx.violation(K_JSON,
                          "namespace labels read back in their JSON-escaped spelling", {"info": info})
            continue
        if nsl != want and fmt == "nexus" and semi_signature_ns(want, nsl):
            ctx.violation(K_SEMI,
                          "taxon label ';' is written quoted but the reader takes it for the end of the statement",
                          {"info": info, "text": text[:1500]})
            continue
        if nsl != want and sorted(nsl) == sorted(want):
            ctx.note("namespace-labels-read-back-in-another-order(not-judged)")
        elif nsl != want and _without_taxa_section(want, nsl, info):
            ctx.note("nexus-simple-has-no-taxa-block(unreferenced-taxa-not-carried)")
        elif nsl != want:
            ctx.violation("%s:%s|tree-list-attached-to-namespace-with-other-labels|other-set" % (op, fmt),
                          "tree list re-attached to a namespace with labels %r, its own namespace had %r" % (nsl[:8], want[:8]),
                          {"info": info, "text": text[:1500]})
            continue
        ns_of.setdefault(k, []).append(tl2.taxon_namespace)
        if len(tl2) != ntrees:
            ctx.violation("%s:%s|tree-count" % (op, fmt), "tree list has %d trees, written %d" % (len(tl2), ntrees),
                          {"info": info})
            continue
        members = set(id(t) for t in tl2.taxon_namespace)
        for t2, want_leaves in zip(tl2, sets):
            # "attached to a namespace": the tree and every taxon its nodes refer to belong to the list's namespace
            if t2.taxon_namespace is not tl2.taxon_namespace or any(
                    nd.taxon is not None and id(nd.taxon) not in members for nd in t2.preorder_node_iter()):
                ctx.violation("%s:%s|tree-taxon-outside-the-namespace-of-its-tree-list" % (op, fmt),
                              "a node of a tree read back refers to a Taxon object that is not in the namespace of its "
                              "tree list", {"info": info, "text": text[:1500]})
                break
            try:
                got = tree_leaf_labels(t2)
            except bridge.ExtractError:
                ctx.note("tree-read-back-not-extractable(C02-domain)")
                continue
            if got != want_leaves:
                ctx.note("tree-leaf-labels-differ-after-dataset-roundtrip(C02-domain)")
    # blocks of one source namespace share one namespace object; blocks of different namespaces never do
    ctx.ev("namespace-sharing-checked")
    for k, objs in ns_of.items():
        if any(o is not objs[0] for o in objs):
            ctx.violation("%s:%s|namespace-sharing|blocks-of-one-namespace-came-back-on-different-namespaces" % (op, fmt),
                          "blocks that shared namespace %d are attached to %d different namespace objects" % (
                              k, len(set(id(o) for o in objs))), {"info": info, "text": text[:1500]})
    ks = sorted(ns_of)
    for a in range(len(ks)):
        for b in range(a + 1, len(ks)):
            if any(x is y for x in ns_of[ks[a]] for y in ns_of[ks[b]]):
                ctx.violation("%s:%s|namespace-sharing|blocks-of-different-namespaces-came-back-on-one-namespace" % (op, fmt),
                              "blocks of the namespaces %d and %d are attached to the same namespace object" % (ks[a], ks[b]),
                              {"info": info, "text": text[:1500]})
    return n0 == len(ctx.violations) + sum(v["count"] for v in ctx.violations.values())


def read_dataset(ctx, text, fmt, rkw, io, tmp):
    d = dp()
    if io in ("path", "file") and tmp is not None:
        p = os.path.join(tmp, "ds-r.%s" % fmt)
        with open(p, "w", encoding="utf-8") as f:
            f.write(text)
        if io == "path":
            return d.DataSet.get(path=p, schema=fmt, **rkw)
        with open(p, encoding="utf-8") as f:
            return d.DataSet.get(file=f, schema=fmt, **rkw)
    if io == "read":
        ds = d.DataSet()
        if "taxon_namespace" in rkw:
            rkw = dict(rkw)
            ds.attach_taxon_namespace(rkw.pop("taxon_namespace"))
        ds.read(data=text, schema=fmt, **rkw)
        return ds
    return d.DataSet.get(data=text, schema=fmt, **rkw)


def dataset_readback(ctx, S, ds, desc, fmt, wkw, rkw, info, tmp, io="string", type_lost=False):
    """write the data set, read it back, judge.  -> the data set read back when everything held, else None"""
    S.reset()
    wio = {"path": "path", "file": "file"}.get(io, "string")
    text = write_obj(ctx, ds, fmt, wkw, "dataset", info, tmp, io=wio)
    if text is None:
        return None
    nns = len(desc["ns"])
    try:
        ds2 = read_dataset(ctx, text, fmt, rkw, io, tmp)
    except core.CaseTimeout:
        raise
    except Exception as e:
        ctx.ev("dataset-block-checked")
        detail = {"error": core.exc_brief(e), "info": info, "text": text[:2000]}
        all_labels = [l for ls in desc["ns"] for l in ls] + [x for x in desc["nslabels"] if x]
        if fmt == "nexus" and type(e).__name__ == "LinkRequiredError" and info.get("suppress_block_titles") == "False" \
                and nns >= 2 and "TITLE" not in text.upper().replace("'", ""):
            ctx.violation(K_SBT,
                          "suppress_block_titles=False (documented: always write TITLE) wrote no TITLE/LINK for %d "
                          "namespaces; the reader cannot attach the blocks" % nns, detail)
        elif fmt == "nexus" and type(e).__name__ == "MultipleBlockWithSameTitleError" and titles_differ_only_in_case(desc):
            ctx.violation(K_CASE_TITLES,
                          "the writer keeps block titles apart that differ only in letter case, the reader (NEXUS is not "
                          "case-sensitive) takes them for the same title: %s" % core.exc_brief(e), detail)
        elif fmt == "nexml" and type(e).__name__ == "ParseError" and any(c in l for l in all_labels for c in '"<&'):
            ctx.violation(K_JSON,
                          "NeXML written by the library is not well-formed XML", detail)
        elif fmt == "nexus" and any(";" in ls for ls in desc["ns"]) and is_parse_error(e):
            ctx.violation(K_SEMI, "label ';' taken for the end of a statement (%s)"
                          % core.exc_brief(e), detail)
        else:
            ctx.unexpected("dataset-readback:%s" % fmt, e, detail)
        return None
    if "taxon_namespace" in rkw:
        ctx.ev("reader-namespace-checked")
        given = rkw["taxon_namespace"]
        if any(x.taxon_namespace is not given for x in list(ds2.char_matrices) + list(ds2.tree_lists)):
            ctx.violation("dataset-readback:%s|reader-namespace|block-not-attached-to-the-given-namespace" % fmt,
                          "DataSet read with taxon_namespace=ns has a block over another namespace", {"info": info})
            return None
    ok = check_dataset(ctx, S, ds2, desc, fmt, "dataset-readback", info, text, type_lost=type_lost)
    return ds2 if ok else None


def run_dataset(case, ctx, rng, S, tmp):
    fmt = rng.choice(["nexus", "nexus", "nexml"])
    nns = rng.choice([1, 2, 2, 3])
    sbt = rng.choice(["unset", "None", "False"]) if fmt == "nexus" else "unset"
    lstyle = rng.choice(["simple", "simple", "hostile-xmlsafe" if fmt == "nexml" else "hostile"])
    attached = nns == 1 and rng.random() < 0.3
    r = rng.random()
    overlap, identical = r < 0.4, 0.4 <= r < 0.5 and nns >= 2
    ds, desc = build_dataset(ctx, rng, nns, fmt, lstyle, attached, overlap, identical)
    wkw, rkw = {}, {}
    if sbt == "None":
        wkw["suppress_block_titles"] = None
    elif sbt == "False":
        wkw["suppress_block_titles"] = False
    if fmt == "nexml" and rng.random() < 0.5:
        wkw["markup_as_sequences"] = True
    if fmt == "nexus":
        r = rng.random()
        if r < 0.2:
            wkw["preserve_spaces"] = True
        elif r < 0.35:
            wkw.update({"unquoted_underscores": True, "preserve_spaces": True})
            rkw["preserve_underscores"] = True
        elif r < 0.5 and nns == 1 and sbt == "unset" and len(desc["matrices"]) == 1:
            wkw["simple"] = True          # (documented: "a single DATA block" - one matrix)
    io = rng.choice(["string", "string", "string", "path", "file", "read"])
    if nns == 1 and rng.random() < 0.2:
        rkw["taxon_namespace"] = dp().TaxonNamespace()
    info = {"namespaces": nns, "suppress_block_titles": sbt, "writer": dict(wkw), "nslabels": desc["nslabels"], "io": io,
            "blocks": [(k, t) for k, t, _, _ in desc["matrices"]], "treelists": [k for k, _, _ in desc["trees"]],
            "reader": sorted(rkw)}
    ctx.nontrivial(("dataset", fmt, nns, sbt, core.short_hash(desc)))
    ds2 = dataset_readback(ctx, S, ds, desc, fmt, wkw, rkw, info, tmp, io)
    if ds2 is not None and rng.random() < 0.35:
        # format conversion of the data set that was read: NEXUS -> NeXML (-> NEXUS) / NeXML -> NEXUS (-> NeXML)
        cur, f = ds2, fmt
        for step in range(rng.choice([1, 1, 2])):
            f = "nexml" if f == "nexus" else "nexus"
            if f == "nexml" and any(t == "nucleotide" for _, t, _, _ in desc["matrices"]):
                ctx.note("dataset-chain-not-applicable(nucleotide-matrix-has-no-NeXML-type)")
                break
            ctx.ev("dataset-chain-step-checked")
            w2 = {"markup_as_sequences": True} if (f == "nexml" and rng.random() < 0.5) else {}
            cur = dataset_readback(ctx, S, cur, desc, f, w2, {}, dict(info, chain_step=step + 1, chain_from=fmt, writer=w2,
                                                                      taxa_section_lost=bool(wkw.get("simple"))),
                                   tmp, "string", type_lost=True)
            if cur is None:
                break
    if case.get("i", 9) < 2:
        ctx.sample({"kind": "dataset", "fmt": fmt, "namespaces": desc["ns"], "suppress_block_titles": sbt,
                    "matrices": [(k, t) for k, t, _, _ in desc["matrices"]]})


# ------------------------------------------------------------------------------------------------
# (L) dendropy-format
class _Out(io.StringIO):
    def close(self):       # convert() closes sys.stdout
        pass


def run_cli(args, subproc=False):
    """-> (exit status or exception, stdout text, stderr text)"""
    if subproc:
        code = ("import sys; sys.path.insert(0, %r); from dendropy.application import dendropy_format; "
                "sys.argv = ['dendropy-format'] + sys.argv[1:]; dendropy_format.main()" % core.REPO_SRC)
        r = subprocess.run([sys.executable, "-B", "-W", "ignore", "-c", code] + list(args), stdout=subprocess.PIPE,
                           stderr=subprocess.PIPE, timeout=120)
        return r.returncode, r.stdout.decode("utf-8", "replace"), r.stderr.decode("utf-8", "replace")
    from dendropy.application import dendropy_format
    old = sys.argv, sys.stdout, sys.stderr
    out, err = _Out(), _Out()
    status = 0
    try:
        sys.argv = ["dendropy-format"] + list(args)
        sys.stdout, sys.stderr = out, err
        try:
            dendropy_format.main()
        except SystemExit as e:
            status = e.code if e.code is not None else 0
    finally:
        sys.argv, sys.stdout, sys.stderr = old
    return status, out.getvalue(), err.getvalue()


CLI_INPUTS = ("fasta", "nexml", "nexus", "phylip-strict", "phylip-relaxed-singlespace", "phylip-relaxed-multispace",
              "phylip-strict-interleaved", "phylip-relaxed-singlespace-interleaved",
              "phylip-relaxed-multispace-interleaved")
CLI_OUTPUTS = ("fasta", "nexml", "nexus", "phylip", "phylip-strict")


def do_cli(ctx, rng, S, tmp, dtype, infmt, outfmt, dims, subproc=False, lstyle=None):
    alphabet = "digits" if dtype == "standard" else None
    strict_in = infmt.startswith("phylip-strict")
    strict = strict_in or outfmt == "phylip-strict"
    phy = infmt.startswith("phylip") or outfmt.startswith("phylip")
    if lstyle is None:
        if strict:
            lstyle = "strict10" if ((not infmt.startswith("phylip") or strict_in)
                                    and (not outfmt.startswith("phylip") or outfmt == "phylip-strict")) else "simple"
        elif phy:
            lstyle = rng.choice(["simple", "nospace"])
            if "multispace" in infmt and outfmt != "phylip" and rng.random() < 0.4:
                lstyle = "singlespace"
        elif "nexml" in (infmt, outfmt):
            lstyle = rng.choice(["simple", "hostile-xmlsafe"])
        else:
            lstyle = rng.choice(["simple", "singlespace"])
    labels = U.gen_labels(rng, dims[0], lstyle, xmlsafe="nexml" in (infmt, outfmt), long_p=0 if strict else 0.05)
    rows = U.gen_rows(rng, dtype, dims[0], dims[1], pick_style(rng, dtype), alphabet)
    m, sa = from_dict(dtype, labels, rows, alphabet)
    model = check_construct(ctx, m, U.expected_model(dtype, labels, rows, alphabet), dtype, alphabet, "from_dict", True)
    ctx.nontrivial(sig_of("cli", dtype, infmt, outfmt, "from_dict", model))
    info = {"type": dtype, "from": infmt, "to": outfmt, "labels": lstyle, "subprocess": subproc}
    schema = infmt.split("-")[0]
    wkw = {"strict": True} if strict_in else {}
    if schema == "nexml":
        wkw = {"markup_as_sequences": True}     # cell markup of a from_dict matrix is the known column-id finding
    text = write_obj(ctx, m, schema, wkw, "cli-input", info)
    if text is None:
        return
    if infmt.endswith("interleaved") and rng.random() < 0.6 and dims[1] > 1:
        t2 = U.reflow_phylip(text, dtype, labels, strict_in, page=rng.randint(1, dims[1] - 1))
        if t2 is not None:
            text = t2
    src = os.path.join(tmp, "cli-in.txt")
    with open(src, "w") as f:
        f.write(text)
    args = ["-f", infmt, "-t", outfmt]
    if schema in ("fasta", "phylip"):
        args += ["-d", dtype]
    args.append(src)
    S.reset()
    ctx.ev("cli-checked")
    try:
        status, out, err = run_cli(args, subproc)
    except core.CaseTimeout:
        raise
    except Exception as e:
        ctx.unexpected("cli:%s->%s" % (schema, outfmt.split("-")[0]), e, {"info": info, "input": text[:800]})
        return
    if status not in (0, None):
        ctx.violation("cli:%s->%s|exit-status" % (schema, outfmt.split("-")[0]),
                      "dendropy-format exited with %r: %s" % (status, err[-300:]), {"info": info, "input": text[:800]})
        return
    oschema = outfmt.split("-")[0]
    rkw = {"strict": True} if outfmt == "phylip-strict" else {}
    read_as = None
    if oschema == "nexus" and U.SUPPORT["nexus"].get(dtype) == "as-standard":
        read_as = "standard"
    m2 = read_matrix(ctx, dtype, out, oschema, rkw, "cli", model, info, read_as)
    if m2 is None:
        return
    judge_models(ctx, "cli", oschema, dtype, alphabet, model, extract(m2), S, info, out)


def run_cli_case(case, ctx, rng, S, tmp):
    infmt = rng.choice(CLI_INPUTS)
    outfmt = rng.choice(CLI_OUTPUTS)
    schema = infmt.split("-")[0]
    if schema in ("fasta", "phylip"):
        dtype = rng.choice(["dna", "rna", "standard"])
    else:
        dtype = rng.choice([t for t in TYPES if U.SUPPORT[schema].get(t) == 1])
    oschema = outfmt.split("-")[0]
    if not U.SUPPORT[oschema].get(dtype) or U.SUPPORT[oschema].get(dtype) == "reject":
        ctx.note("cli-pair-not-supported")
        return
    dims = U.gen_dims(rng, "quick")
    if "nexml" in (schema, oschema):
        dims = (min(dims[0], 10), min(dims[1], 60))
    do_cli(ctx, rng, S, tmp, dtype, infmt, outfmt, dims)


# ------------------------------------------------------------------------------------------------
# (P) harness-authored documents
def sprinkle_multistates(rng, dtype, rows, alphabet, unnamed_ok):
    """replace some cells by {..} / (..) tokens; returns (rows for the document, expected rows)"""
    fund, gap, missing, amb, syn = U.type_symbols(dtype, alphabet)
    by_members = dict(("".join(sorted(v)), k) for k, v in amb.items())
    doc, exp = [], []
    for row in rows:
        d, e = [], []
        for c in row:
            if rng.random() < 0.15 and len(fund) >= 2:
                if amb and (not unnamed_ok or rng.random() < 0.7):
                    name = rng.choice(sorted(amb))
                    members = list(amb[name])
                    rng.shuffle(members)
                    d.append(["amb", "".join(members)])
                    e.append(name)
                    continue
                if unnamed_ok:
                    k = rng.randint(2, min(3, len(fund)))
                    members = sorted(rng.sample(list(fund), k))
                    if "".join(members) in by_members or len(members) == len(fund):
                        d.append(c)
                        e.append(c)
                        continue
                    kind = rng.choice(["amb", "poly"])
                    d.append([kind, "".join(members)])
                    e.append([kind, "".join(m.upper() for m in members)])
                    continue
            d.append(c)
            e.append(c)
        doc.append(d)
        exp.append(e)
    return doc, exp


def run_authored(case, ctx, rng, S, tmp):
    r = rng.random()
    if r < 0.22:
        return authored_multiblock_nexus(ctx, rng, S)
    if r < 0.34:
        return authored_multi_otus_nexml(ctx, rng, S)
    fmt = rng.choice(["nexus", "nexus", "phylip", "phylip", "fasta", "nexml"])
    dtype = rng.choice([t for t in TYPES if U.SUPPORT[fmt].get(t) == 1])
    alphabet = pick_alphabet(rng, dtype, hostile=False)
    opts = None
    if fmt == "phylip":
        lstyle = rng.choice(["strict10", "nospace", "simple", "singlespace"])
        opts = {"strict10": {"strict": True}, "singlespace": {"multispace": True}}.get(lstyle)
    elif fmt == "fasta":
        lstyle = rng.choice(["simple", "singlespace", "hostile"])
    else:
        lstyle = rng.choice(["simple", "hostile"])
    dims = U.gen_dims(rng, ctx.tier, True)
    if fmt == "nexml" and dims[0] * dims[1] > 3000:
        dims = (min(dims[0], 15), min(dims[1], 150))
    style = pick_style(rng, dtype)
    if fmt == "nexml" and dtype == "standard" and style in ("full", "amb"):
        style = "gappy"
    labels = U.gen_labels(rng, dims[0], lstyle)
    rows = U.gen_rows(rng, dtype, dims[0], dims[1], style, alphabet)
    target = rng.choice([f for f in FORMATS if U.SUPPORT[f].get(dtype)])
    tvar = rng.choice(VARIANTS[target])
    if fmt == "nexus" and dtype != "continuous" and rng.random() < 0.35:
        # multistate tokens; unnamed ones only for standard data and only sometimes
        unnamed = dtype == "standard" and rng.random() < 0.3
        docrows, exprows = sprinkle_multistates(rng, dtype, rows, alphabet, unnamed)
        o = {"matchchar": False}
        text, rkw, desc = authored_text(rng, "nexus", dtype, labels, docrows, alphabet, o)
        exp = U.expected_model(dtype, labels, exprows, alphabet)
        ctx.ev("authored-parse-checked")
        try:
            m = matrix_class(dtype).get(data=text, schema="nexus")
        except core.CaseTimeout:
            raise
        except Exception as e:
            if ";" in labels and is_parse_error(e):
                ctx.violation(K_SEMI, "quoted label ';' taken for the end of the statement (%s)" % core.exc_brief(e),
                              {"text": text[:800]})
                return
            ctx.violation("parse-authored:nexus|unexpected-exception|%s" % core.exc_key(e),
                          "reading a harness-written nexus document with multistate tokens raised %s" % core.exc_brief(e),
                          {"text": text[:1500]})
            return
        got = extract(m)
        cmp_got, n_equiv = U.accept_equivalent_multistates(exp, got, dtype, alphabet)
        if n_equiv:
            ctx.note("token-{..}-parsed-to-an-equivalent-state-without-symbol(accepted)")
        diff = U.compare_models(exp, cmp_got, dtype, alphabet)
        if diff is not None and diff[0] == "row-count" and semi_signature(labels, [r[0] for r in got]):
            ctx.violation(K_SEMI, "quoted label ';' taken for the end of the statement", {"diff": diff[2], "text": text[:800]})
            return
        if diff is not None:
            ctx.violation("parse-authored:nexus|multistate-token|%s|%s" % (diff[0], diff[1]),
                          "matrix parsed from {..}/(..) tokens differs from the document", {"diff": diff[2], "text": text[:1500]})
            return
        ctx.nontrivial(sig_of("authored-ms", dtype, target, tvar, "parsed_nexus", got))
        roundtrip(ctx, rng, S, m, None, got, dtype, alphabet, target, tvar, info={"route": "parsed_nexus+multistate"},
                  tmp=tmp)
        return
    built = build_matrix(ctx, rng, dtype, labels, rows, alphabet, "parsed_" + fmt, opts)
    if built is None:
        return
    m, sa, exp, judged = built
    model = extract(m)
    ctx.nontrivial(sig_of("authored", dtype, target, tvar, "parsed_" + fmt, model))
    roundtrip(ctx, rng, S, m, sa, model, dtype, alphabet, target, tvar, info={"route": "parsed_" + fmt}, tmp=tmp)


def authored_multiblock_nexus(ctx, rng, S):
    """2-3 CHARACTERS blocks over one TAXA block, some interleaved, some wrapped: every block must parse to
    its own content; the reader's interleave flag after each FORMAT must be what that FORMAT declares."""
    nblocks = rng.choice([2, 2, 3])
    labels = U.gen_labels(rng, rng.randint(1, 5), "simple")
    parts = ["#NEXUS\n", U.emit_nexus_taxa_block(rng, labels)]
    blocks = []
    for k in range(nblocks):
        dtype = rng.choice(["dna", "rna", "protein", "standard", "continuous", "nucleotide"])
        alphabet = rng.choice(["digits", "binary", "letters"]) if dtype == "standard" else None
        ncols = rng.randint(2, 14)
        rows = U.gen_rows(rng, dtype, len(labels), ncols, pick_style(rng, dtype), alphabet)
        layout = rng.choice(["interleave", "wrap", "plain"])
        o = {"simple": False, "interleave": 0, "wrap": 0, "matchchar": rng.random() < 0.2, "title": "blk%d" % k,
             "comments": False}
        if dtype != "continuous" and rng.random() < 0.3:
            # MISSING / GAP declared in some blocks only: a block without the terms has the format's defaults, whatever an
            # earlier block declared ('?' missing; no gap symbol, so the rows of such a block use none)
            rows = [["?" if c == "-" else c for c in r] for r in rows]
            o["declare"] = False
        if layout == "interleave":
            o["interleave"] = rng.randint(1, ncols - 1)
        elif layout == "wrap":
            o["wrap"] = rng.randint(1, ncols - 1)
        parts.append(U.emit_nexus_char_block(rng, dtype, labels, rows, alphabet, **o))
        blocks.append((dtype, alphabet, layout, U.expected_model(dtype, labels, rows, alphabet)))
    text = "".join(parts)
    declared = [b[2] == "interleave" for b in blocks]
    S.reset()
    ctx.ev("authored-parse-checked")
    ctx.nontrivial(("authored-multiblock", [b[:3] for b in blocks], core.short_hash(text)))
    err = None
    ds = None
    try:
        ds = dp().DataSet.get(data=text, schema="nexus")
    except core.CaseTimeout:
        raise
    except Exception as e:
        err = e
    seen = [f["interleave"] for f in S.read_format]
    leak = [k for k in range(min(len(seen), len(declared))) if seen[k] and not declared[k]]
    detail = {"text": text[:2500], "layouts": [b[2] for b in blocks], "interleave_flag_after_each_FORMAT": seen,
              "error": core.exc_brief(err) if err else None}
    if leak:
        ctx.violation(K_LEAK,
                      "block %d declares no INTERLEAVE but the reader is still in interleaved mode from an earlier "
                      "block%s" % (leak[0], " (%s)" % type(err).__name__ if err else ""), detail)
        if err is not None or blocks[leak[0]][2] == "wrap":
            return
    if err is not None:
        ctx.unexpected("parse-authored:nexus-multiblock", err, detail)
        return
    if len(ds.char_matrices) != nblocks:
        ctx.violation("parse-authored:nexus|block-count", "%d matrices from %d blocks" % (len(ds.char_matrices), nblocks),
                      detail)
        return
    for k, (m, (dtype, alphabet, layout, exp)) in enumerate(zip(ds.char_matrices, blocks)):
        ctx.ev("authored-parse-checked")
        diff = U.compare_models(exp, extract(m), dtype, alphabet)
        if diff is not None:
            ctx.violation("parse-authored:nexus|multiblock-%s|%s|%s" % (layout, diff[0], diff[1]),
                          "block %d (%s, %s) parsed to other content" % (k, dtype, layout), dict(detail, diff=diff[2]))


def authored_multi_otus_nexml(ctx, rng, S):
    """NeXML with 2 otus and matrices referencing either: every matrix must attach to the otus it names."""
    dtype = rng.choice([t for t in TYPES if U.SUPPORT["nexml"].get(t) == 1])
    alphabet = pick_alphabet(rng, dtype, hostile=False)
    nss, mats, exps = [], [], []
    for k in range(2):
        labels = U.gen_labels(rng, rng.randint(1, 5), rng.choice(["simple", "hostile"]))
        nss.append(("otus%d" % k, rng.choice([None, "ns%d" % k]), labels))
    order = [rng.choice([0, 1]) for _ in range(rng.randint(1, 3))]
    if 1 not in order:
        order.append(1)
    for mi, k in enumerate(order):
        labels = nss[k][2]
        style = "gappy" if dtype == "standard" else pick_style(rng, dtype)
        rows = U.gen_rows(rng, dtype, len(labels), rng.randint(1, 8), style, alphabet)
        mats.append((nss[k][0], "m%d" % mi, alphabet, labels, rows))
        exps.append((k, U.expected_model(dtype, labels, rows, alphabet)))
    seqs = rng.random() < 0.5
    layout = U.gen_nexml_layout(rng, seqs)
    text = U.emit_nexml(rng, dtype, nss, mats, seqs=seqs, layout=layout)
    ctx.ev("authored-parse-checked")
    ctx.nontrivial(("authored-otus", dtype, seqs, core.short_hash(text)))
    try:
        ds = dp().DataSet.get(data=text, schema="nexml")
    except core.CaseTimeout:
        raise
    except Exception as e:
        ctx.unexpected("parse-authored:nexml-two-otus", e, {"text": text[:2500]})
        return
    if len(ds.char_matrices) != len(mats):
        ctx.violation("parse-authored:nexml|block-count", "%d matrices from %d <characters>" % (
            len(ds.char_matrices), len(mats)), {"text": text[:2500]})
        return
    desc = {"ns": [n[2] for n in nss], "matrices": [], "trees": [], "nslabels": [n[1] for n in nss]}
    for m, (k, exp) in zip(ds.char_matrices, exps):
        ctx.ev("authored-parse-checked")
        nsl = [t.label for t in m.taxon_namespace]
        if nsl != nss[k][2]:
            ctx.violation("parse-authored:nexml|matrix-attached-to-other-otus",
                          "matrix naming otus %r attached to namespace %r" % (nss[k][2], nsl), {"text": text[:2500]})
            return
        diff = U.compare_models(exp, extract(m), dtype, alphabet)
        mi = len(desc["matrices"])
        if diff is not None and dtype == "continuous" and not seqs and layout.get("shuffle_cells") and U.compare_models(
                U.rows_in_document_order(exp, layout.get("_cell_orders"), mi), extract(m), dtype, alphabet) is None:
            ctx.violation(K_NEXML_CONT_ORDER, "continuous <cell> elements are stored in the order in which the row lists "
                          "them; the column named by char= is ignored", {"diff": diff[2], "text": text[:2500]})
            return
        if diff is not None:
            ctx.violation("parse-authored:nexml|%s|%s" % (diff[0], diff[1]), "matrix parsed from harness-written NeXML "
                          "differs from the document", {"diff": diff[2], "text": text[:2500], "layout": repr(layout)})
            return
        desc["matrices"].append((k, dtype, alphabet, exp))
    # the parsed data set has explicit column definitions: NeXML -> NeXML must now keep everything
    S.reset()
    out = write_obj(ctx, ds, "nexml", {}, "dataset", {"route": "parsed_nexml-two-otus"})
    if out is None:
        return
    try:
        ds2 = dp().DataSet.get(data=out, schema="nexml")
    except core.CaseTimeout:
        raise
    except Exception as e:
        all_labels = [l for n in nss for l in n[2]]
        if type(e).__name__ == "ParseError" and any(c in l for l in all_labels for c in '"<&'):
            ctx.violation(K_JSON,
                          "NeXML written by the library is not well-formed XML", {"text": out[:1500]})
        else:
            ctx.unexpected("dataset-readback:nexml", e, {"text": out[:2000]})
        return
    check_dataset(ctx, S, ds2, desc, "nexml", "dataset-readback", {"route": "parsed_nexml-two-otus"}, out)


# ------------------------------------------------------------------------------------------------
# directed cases: smallest witnesses of the confirmed findings + fixed edge cases
def rt_fixed(ctx, rng, S, dtype, labels, rows, fmt, variant, alphabet=None, route="from_dict", tmp=None, name=""):
    built = build_matrix(ctx, rng, dtype, labels, rows, alphabet, route)
    if built is None:
        return None
    m, sa, exp, judged = built
    model = check_construct(ctx, m, exp, dtype, alphabet, route, judged)
    ctx.nontrivial(sig_of("directed:" + name, dtype, fmt, variant, route, model))
    return roundtrip(ctx, rng, S, m, sa, model, dtype, alphabet, fmt, variant, info={"directed": name, "route": route}, tmp=tmp)


def run_directed(case, ctx, rng, S, tmp):
    name = case["name"]
    d = dp()
    if name == "nexml-char-id-per-cell":
        rt_fixed(ctx, rng, S, "dna", ["a", "b"], [list("TTGA"), list("TTGA")], "nexml", "cells", name=name)
        rt_fixed(ctx, rng, S, "standard", ["a", "b", "c"], [list("01"), list("10"), list("?-")], "nexml", "cells", name=name)
        rt_fixed(ctx, rng, S, "dna", ["a", "b"], [list("TTGA"), list("AC-T")], "nexml", "seqs", name=name)
        rt_fixed(ctx, rng, S, "dna", ["a"], [list("TTGA")], "nexml", "cells", name=name)
    elif name == "sbt-false-two-namespaces":
        for sbt in (False, None):
            ds = d.DataSet()
            desc = {"ns": [], "nslabels": [], "matrices": [], "trees": []}
            for k in range(2):
                labels = ["n%da" % k, "n%db" % k]
                ns = d.TaxonNamespace(labels, label="ns%d" % k)
                ds.add_taxon_namespace(ns)
                m, _ = from_dict("dna", labels, [list("ACGT"), list("A-GT")], taxon_namespace=ns, label="m%d" % k)
                ds.add_char_matrix(m)
                desc["ns"].append(labels)
                desc["nslabels"].append(ns.label)
                desc["matrices"].append((k, "dna", None, extract(m)))
            info = {"namespaces": 2, "suppress_block_titles": repr(sbt)}
            text = write_obj(ctx, ds, "nexus", {"suppress_block_titles": sbt}, "dataset", info)
            ctx.ev("dataset-block-checked")
            try:
                ds2 = d.DataSet.get(data=text, schema="nexus")
            except Exception as e:
                if type(e).__name__ == "LinkRequiredError" and sbt is False and "TITLE" not in text:
                    ctx.violation(K_SBT,
                                  "suppress_block_titles=False (documented: always write TITLE) wrote no TITLE/LINK for 2 "
                                  "namespaces; the reader cannot attach the blocks",
                                  {"error": core.exc_brief(e), "text": text[:1500]})
                else:
                    ctx.unexpected("dataset-readback:nexus", e, {"text": text[:1500]})
                continue
            check_dataset(ctx, S, ds2, desc, "nexus", "dataset-readback", info, text)
    elif name in ("standard-unnamed-ambiguity-nexus", "nexml-unnamed-multistate", "dna-unnamed-polymorphic"):
        if name == "dna-unnamed-polymorphic":
            dtype, alphabet, rows = "dna", None, [["A", "C", ["amb", "AG"], "T"], [["poly", "CT"], "G", "?", "-"]]
            exp = [["a", ["A", "C", "R", "T"]], ["b", [["poly", "CT"], "G", "?", "-"]]]
        else:
            dtype, alphabet, rows = "standard", "ternary", [["0", "1", ["amb", "01"], "2"], ["1", "0", "?", "-"]]
            exp = [["a", ["0", "1", ["amb", "01"], "2"]], ["b", ["1", "0", "?", "-"]]]
        text = "#NEXUS\n" + U.emit_nexus_char_block(rng, dtype, ["a", "b"], rows, alphabet, simple=True)
        ctx.ev("authored-parse-checked")
        m = matrix_class(dtype).get(data=text, schema="nexus")
        got = extract(m)
        diff = U.compare_models(exp, U.accept_equivalent_multistates(exp, got, dtype, alphabet)[0], dtype, alphabet)
        if diff is not None:
            ctx.violation("parse-authored:nexus|multistate-token|%s|%s" % (diff[0], diff[1]),
                          "matrix parsed from {..}/(..) tokens differs from the document", {"diff": diff[2], "text": text})
            return
        fmt = "nexml" if name == "nexml-unnamed-multistate" else "nexus"
        roundtrip(ctx, rng, S, m, None, got, dtype, alphabet, fmt, "cells" if fmt == "nexml" else "default",
                  info={"directed": name})
        if fmt == "nexml":
            roundtrip(ctx, rng, S, m, None, got, dtype, alphabet, fmt, "seqs", info={"directed": name})
    elif name == "history-unnamed-multistate-pollutes-global-alphabet":
        # a HISTORY, not a single conversion: (1) a DNA matrix is read from NEXUS with a polymorphic token that has no
        # IUPAC code; the reader registers a symbol-less state in the library-wide DNA alphabet; (2) an unrelated DNA
        # matrix written to NeXML afterwards in the same process defines that state with symbol "None" and cannot be read back.
        # (the harness undoes such additions after every case - see restore_global_alphabets - so that cases stay independent;
        # this case is where their effect is judged)
        # (every data type with a library-wide alphabet that NeXML knows: the mechanism is the same, one key)
        for dtype, seqs, nx_type, rows in (("dna", ("ACGT", "AC-T"), "dna", ("A(CT)G", "AC{AG}")),
                                           ("rna", ("ACGU", "AC-U"), "rna", ("A(CU)G", "AC{AG}")),
                                           ("protein", ("ACDE", "AC-E"), "protein", ("A(CD)E", "AC{AE}"))):
            cls = matrix_class(dtype)
            m1 = cls.from_dict({"a": seqs[0], "b": seqs[1]})
            model1 = extract(m1)
            before = m1.as_string("nexml")
            nx = "#NEXUS\nbegin data; dimensions ntax=2 nchar=3; format datatype=%s; matrix\nx %s\ny %s\n; end;\n" % (
                nx_type, rows[0], rows[1])
            cls.get(data=nx, schema="nexus")
            ctx.ev("roundtrip-checked")
            after = m1.as_string("nexml")
            try:
                m3 = cls.get(data=after, schema="nexml")
                ok = U.compare_models(model1, extract(m3), dtype, None) is None
                why = "matrix differs after the round trip"
            except core.CaseTimeout:
                raise
            except Exception as e:
                ok, why = False, core.exc_brief(e)
            if not ok:
                ctx.violation("history:nexml|unrelated-matrix-unreadable-after-a-read-added-symbol-less-state-to-the-global-alphabet",
                              "a %s matrix that round-trips through NeXML stops doing so after another %s matrix containing '(..)' "
                              "was read from NEXUS in the same process: %s" % (dtype, dtype, why),
                              {"nexml_changed": before != after, "type": dtype})
            restore_global_alphabets(ctx)
    elif name == "standard-concatenated-nexml":
        # witness of the recorded concatenate() finding: cells of the result are state objects of the source alphabets
        rows = [list("0123456"), list("6543210"), list("01?-345")]
        for variant in ("cells", "seqs"):
            rt_fixed(ctx, rng, S, "standard", ["a", "b", "c"], rows, "nexml", variant, alphabet="digits", route="concat", name=name)
    elif name == "standard-equate":
        rt_fixed(ctx, rng, S, "standard", ["a", "b"], [list("01R-"), list("S?10")], "nexus", "default",
                 alphabet="named-amb", name=name)
        rt_fixed(ctx, rng, S, "standard", ["a", "b"], [list("01P-"), list("P?10")], "nexus", "default",
                 alphabet="named-poly", name=name)
        for fmt, var in (("phylip", "relaxed"), ("fasta", "default"), ("nexml", "seqs")):
            rt_fixed(ctx, rng, S, "standard", ["a", "b"], [list("01R-"), list("S?10")], fmt, var,
                     alphabet="named-amb", name=name)
    elif name == "nexus-semicolon-label":
        rt_fixed(ctx, rng, S, "dna", [";", "other"], [list("ACGT"), list("AAAA")], "nexus", "default", name=name)
        rt_fixed(ctx, rng, S, "dna", ["other", ";"], [list("ACGT"), list("AAAA")], "nexus", "simple", name=name)
        rt_fixed(ctx, rng, S, "dna", ["x;y", ";;"], [list("ACGT"), list("AAAA")], "nexus", "default", name=name)
    elif name == "nexml-label-escapes":
        for lab in ('x"y', "x<y", "x&y", "x\\y", "xéy", "x\ty", "x'y", "x>y"):
            rt_fixed(ctx, rng, S, "dna", [lab], [list("ACGT")], "nexml", "seqs", name=name)
    elif name == "interleave-leak":
        labels = ["a", "b", "c"]
        r1 = [list("ACGTTTTT"), list("AC-TGGGG"), list("?CGTCCCC")]
        text = "#NEXUS\n" + U.emit_nexus_taxa_block(rng, labels) + \
            U.emit_nexus_char_block(rng, "dna", labels, r1, interleave=4, title="m1") + \
            U.emit_nexus_char_block(rng, "dna", labels, r1, wrap=4, title="m2")
        _fixed_multiblock(ctx, S, text, [True, False], [U.expected_model("dna", labels, r1)] * 2, "dna")
    elif name == "phylip-strict-10-char-labels":
        labels = ["abcdefghij", "abcdefghiX", "ab cd ef g", "x"]
        rows = [list("ACGT"), list("AC-T"), list("NNNN"), list("????")]
        for var in ("strict", "strict_il", "reflow_il_strict"):
            rt_fixed(ctx, rng, S, "dna", labels, rows, "phylip", var, name=name)
    elif name == "nexml-rejects-nucleotide-infinite":
        rt_fixed(ctx, rng, S, "nucleotide", ["a"], [list("ACGU")], "nexml", "cells", name=name)
        rt_fixed(ctx, rng, S, "infinite", ["a"], [list("0110")], "nexml", "cells", name=name)
    elif name == "gap-missing-every-type":
        for dtype in U.DISCRETE:
            fund, gap, missing, amb, syn = U.type_symbols(dtype, "digits")
            syms = list(fund + gap + missing + "".join(sorted(amb)) + "".join(sorted(syn)))
            rows = [syms, list(reversed(syms)), [s if s in syn else s.lower() for s in syms]]
            for fmt in FORMATS:
                if U.SUPPORT[fmt].get(dtype) in (1, "as-standard"):
                    var = {"nexus": "default", "phylip": "relaxed", "fasta": "default", "nexml": "seqs"}[fmt]
                    rt_fixed(ctx, rng, S, dtype, ["t1", "t2", "t3"], rows, fmt, var, name=name)
    elif name == "standard-custom-alphabet-export":
        rows = [list("abca"), list("c-?b")]
        for route in ("export_idx", "clone_ctor", "clone2"):
            for fmt, var in (("nexus", "default"), ("nexml", "seqs")):
                rt_fixed(ctx, rng, S, "standard", ["a", "b"], rows, fmt, var, alphabet="letters", route=route, name=name)
    elif name == "two-otus-nexml":
        authored_multi_otus_nexml(ctx, random.Random(7), S)
        authored_multi_otus_nexml(ctx, random.Random(8), S)
    elif name.startswith("cli-subprocess"):
        pair = {"cli-subprocess-nexus-phylip": ("dna", "nexus", "phylip", (3, 9)),
                "cli-subprocess-fasta-nexus": ("rna", "fasta", "nexus", (2, 80)),
                "cli-subprocess-phylip-nexml": ("standard", "phylip-strict", "nexml", (1, 6))}[name]
        do_cli(ctx, rng, S, tmp, pair[0], pair[1], pair[2], pair[3], subproc=True)
        do_cli(ctx, rng, S, tmp, pair[0], pair[1], pair[2], pair[3], subproc=False)
    elif name == "special-chars-each-position":
        for ch in U.SPECIAL + "é":
            labs = [l for l in ("x" + ch + "y", ch + "y", "x" + ch, ch) if l.strip() == l and l]
            for lab in labs:
                for fmt, var in (("nexus", "default"), ("nexus", "simple"), ("fasta", "default"), ("nexml", "seqs")):
                    if fmt == "nexus" and lab == ";":
                        continue          # own directed case
                    if fmt == "nexml" and U.nexml_label_at_risk(lab):
                        continue          # own directed case
                    rt_fixed(ctx, rng, S, "dna", [lab, "other"], [list("AC-T"), list("NNGG")], fmt, var, name=name)
    elif name == "digit-labels":
        for labs in (["2", "1"], ["3", "1", "2"], ["123", "e-5", "1e3"], ["[&R]", "a b", "a_b"], ["''", "'"]):
            rows = [list("ACGT")] * len(labs)
            for fmt, var in (("nexus", "default"), ("nexus", "uu"), ("nexus", "preserve_spaces"), ("fasta", "default"),
                             ("nexml", "seqs")):
                rt_fixed(ctx, rng, S, "dna", labs, rows, fmt, var, name=name)
    elif name == "fasta-wrap-boundary":
        for n in (69, 70, 71, 140, 141):
            rows = U.gen_rows(rng, "protein", 2, n, "full")
            rt_fixed(ctx, rng, S, "protein", ["p1", "p2"], rows, "fasta", "default", name=name)
    elif name == "phylip-interleaved-into-namespace":
        # reader option taxon_namespace= crossed with interleaved PHYLIP (same / re-ordered / larger / empty namespace)
        labels, rows = ["a", "b", "c"], [list("ACGTAC"), list("AC-TGG"), list("TTTTTT")]
        for variant in ("relaxed_il", "reflow_il", "strict_il", "s2u_il"):
            for mode in ("same", "superset", "empty"):
                m, sa = from_dict("dna", labels, rows)
                model = extract(m)
                ctx.nontrivial(sig_of("directed:" + name, "dna", "phylip", variant, mode, model))
                roundtrip(ctx, rng, S, m, sa, model, "dna", None, "phylip", variant, info={"directed": name}, tmp=tmp,
                          rns=mode, io="string")
    elif name == "parsed-then-row-added":
        # object history: parsed (explicit columns) -> one more row through the public API -> written again
        for src in ("nexml", "nexus", "phylip", "fasta"):
            for dtype, rows, extra in (("dna", [list("ACGT"), list("AC-T")], list("GGNA")),
                                       ("continuous", [[1.0, 2.5, -3.0], [0.5, 4.0, 8.0]], [7.0, 0.25, 1.5])):
                if not U.SUPPORT[src].get(dtype):
                    continue
                for fmt, variant in (("nexml", "cells"), ("nexml", "seqs"), ("nexus", "default")):
                    built = build_matrix(ctx, random.Random(3), dtype, ["a", "b"], rows, None, "parsed_" + src)
                    if built is None:
                        continue
                    m = built[0]
                    t = m.taxon_namespace.new_taxon("c")
                    m.new_sequence(t, values_for(m, dtype, extra))
                    want = U.expected_model(dtype, ["a", "b", "c"], rows + [extra])
                    model = check_construct(ctx, m, want, dtype, None, "post-edit:add-row-new_sequence", True)
                    ctx.ev("post-edit-checked")
                    ctx.nontrivial(sig_of("directed:" + name, dtype, fmt, variant, src, model))
                    roundtrip(ctx, rng, S, m, None, model, dtype, None, fmt, variant,
                              info={"directed": name, "route": "parsed_" + src, "edits": ["add-row-new_sequence"]}, tmp=tmp,
                              rns=None, io="string")
    elif name == "nexml-cells-out-of-column-order":
        for dtype, rows in (("continuous", [[1.0, 2.0, 3.0], [4.0, 5.0, 6.0]]), ("dna", [list("ACG"), list("TTA")]),
                            ("standard", [list("012"), list("2?-")])):
            for k in range(3):
                r2 = random.Random(k)
                layout = {"shuffle_cells": True, "scramble_ids": bool(k % 2)}
                text = U.emit_nexml(r2, dtype, [("ns0", None, ["a", "b"])], [("ns0", "m", "digits" if dtype == "standard"
                                                                                else None, ["a", "b"], rows)], layout=layout)
                ctx.ev("authored-parse-checked")
                m = matrix_class(dtype).get(data=text, schema="nexml")
                exp = U.expected_model(dtype, ["a", "b"], rows, None)
                got = extract(m)
                diff = U.compare_models(exp, got, dtype, None)
                if diff is None:
                    continue
                if dtype == "continuous" and U.compare_models(U.rows_in_document_order(exp, layout.get("_cell_orders"), 0),
                                                              got, dtype, None) is None:
                    ctx.violation(K_NEXML_CONT_ORDER, "continuous <cell> elements are stored in the order in which the row "
                                  "lists them; the column named by char= is ignored", {"diff": diff[2], "text": text})
                else:
                    ctx.violation("parse-authored:nexml|%s|%s" % (diff[0], diff[1]), "matrix parsed from harness-written "
                                  "NeXML differs from the document", {"diff": diff[2], "text": text})
    elif name == "block-titles-differing-in-case":
        for labs in (["taxa", "TAXA"], ["Set one", "set ONE", "x"], ["n", "n", "N"]):
            ds = d.DataSet()
            desc = {"ns": [], "nslabels": [], "matrices": [], "trees": [], "titles": {"ns": list(labs), "m": [], "t": []}}
            for k, lab in enumerate(labs):
                labels = ["s%d_%d" % (k, j) for j in range(2 + k)]
                ns = d.TaxonNamespace(labels, label=lab)
                ds.add_taxon_namespace(ns)
                m, _ = from_dict("dna", labels, [list("ACGT")] * len(labels), taxon_namespace=ns)
                ds.add_char_matrix(m)
                desc["ns"].append(labels)
                desc["nslabels"].append(lab)
                desc["matrices"].append((k, "dna", None, extract(m)))
            for fmt in ("nexus", "nexml"):
                ctx.nontrivial(("directed:" + name, fmt, labs))
                dataset_readback(ctx, S, ds, desc, fmt, {}, {}, {"directed": name, "nslabels": labs, "namespaces": len(labs),
                                                                "suppress_block_titles": "unset"}, tmp)
    elif name == "annotated-objects":
        for val in ("plain", 3.5, None, ["u", "v"], "q'r", "<&>", "a;b", "x[y]z", "x] y", "[open"):
            for fmt, variant in (("nexus", "default"), ("nexus", "simple"), ("nexml", "cells"), ("nexml", "seqs"),
                                 ("phylip", "relaxed"), ("fasta", "default")):
                m, sa = from_dict("dna", ["a", "b"], [list("ACGT"), list("AC-T")])
                for t in m.taxon_namespace:
                    t.annotations.add_new("voucher", val)
                m.annotations.add_new("src", val)
                m.taxon_namespace.annotations.add_new("src", val)
                m.comments.append("a comment")
                model = extract(m)
                ctx.ev("decorated-matrix-written")
                ctx.nontrivial(sig_of("directed:" + name, "dna", fmt, variant, repr(val), model))
                info = {"directed": name, "decorated": True, "value": repr(val)}
                if any(unbalanced_brackets(x) for x in (val if isinstance(val, list) else [val])):
                    info["decor_unbalanced"] = True
                roundtrip(ctx, rng, S, m, sa, model, "dna", None, fmt, variant, info=info, tmp=tmp, rns=None, io="string")
    else:
        raise core.HarnessBug("unknown directed case %r" % name)


def _fixed_multiblock(ctx, S, text, declared, exps, dtype):
    S.reset()
    ctx.ev("authored-parse-checked")
    err, ds = None, None
    try:
        ds = dp().DataSet.get(data=text, schema="nexus")
    except core.CaseTimeout:
        raise
    except Exception as e:
        err = e
    seen = [f["interleave"] for f in S.read_format]
    leak = [k for k in range(min(len(seen), len(declared))) if seen[k] and not declared[k]]
    detail = {"text": text, "interleave_flag_after_each_FORMAT": seen, "error": core.exc_brief(err) if err else None}
    if leak:
        ctx.violation(K_LEAK,
                      "block %d declares no INTERLEAVE but the reader is still in interleaved mode from an earlier "
                      "block%s" % (leak[0], " (%s)" % type(err).__name__ if err else ""), detail)
        return
    if err is not None:
        ctx.unexpected("parse-authored:nexus-multiblock", err, detail)
        return
    for k, (m, exp) in enumerate(zip(ds.char_matrices, exps)):
        diff = U.compare_models(exp, extract(m), dtype)
        if diff is not None:
            ctx.violation("parse-authored:nexus|multiblock|%s|%s" % (diff[0], diff[1]),
                          "block %d parsed to other content" % k, dict(detail, diff=diff[2]))


# ------------------------------------------------------------------------------------------------
def run_case(case, ctx):
    rng = random.Random("%s/%s" % (case["seed"], sorted(case.items())))
    S = State()
    FASTA_WIDTHS[0] = rng.choice([1, 2, 3, 7, 10, 60, 69, 70, 71, 80, 1000])
    _globals()          # snapshot of the library's global alphabets before this case can touch them
    tmp = tempfile.mkdtemp(prefix="vf-c09-")
    import warnings
    try:
        with warnings.catch_warnings():
            warnings.simplefilter("ignore")
            with Hooks(ctx) as hooks:
                install_hooks(ctx, hooks, S)
                kind = case["kind"]
                if kind == "directed":
                    run_directed(case, ctx, rng, S, tmp)
                elif kind == "grid":
                    run_grid(case, ctx, rng, S, tmp)
                elif kind == "rt":
                    run_rt(case, ctx, rng, S, tmp)
                elif kind == "chain":
                    run_chain(case, ctx, rng, S, tmp)
                elif kind == "dataset":
                    run_dataset(case, ctx, rng, S, tmp)
                elif kind == "cli":
                    run_cli_case(case, ctx, rng, S, tmp)
                elif kind == "authored":
                    run_authored(case, ctx, rng, S, tmp)
                else:
                    raise core.HarnessBug("unknown case kind %r" % kind)
    finally:
        restore_global_alphabets(ctx)
        shutil.rmtree(tmp, ignore_errors=True)
