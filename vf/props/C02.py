"""C02  Trees survive a write/read round trip through Newick, NEXUS and NeXML.

Method: runtime monitoring of the real writers and readers.  Source trees are *constructed* through the
node API (vf.bridge.build_tree, never by parsing) from DendroPy-free specs, written by the library, read
back by the library under the matching reader options, and the result is extracted from the raw child
lists and compared with the source spec.

An evaluation = (document, schema, option pair, api).
  option pair  a point of the PRODUCT of five independent option axes (_c02_util.AXES): label options
               {default, preserve_spaces, unquoted_underscores+preserve_spaces / preserve_underscores,
               unquoted_underscores / preserve_underscores} x translate_tree_taxa {off, True, {Taxon: token}}
               x rooting {as written, suppress_rooting + force-rooted / force-unrooted / default-rooted /
               default-unrooted, rooting tokens written + reader default-rooted / default-unrooted} x
               store_tree_weights x suppress_internal_node_taxa=False
  api          write route, read route and object history (_c02_routes): as_string/get(data=) [plain];
               get(..., taxon_namespace=<source namespace>); TreeList.read appended to the non-empty
               source list; TreeList.read twice into one list; write(path=)/write_to_path + get(path=)/
               get_from_path/get(file=<text file>); write(file=)/write_to_stream + get(file=)/
               get_from_stream/get_from_string; Tree.yield_from_files (stream; path + file, every tree
               twice into one namespace); DataSet.as_string + DataSet.get; the READ-BACK objects written
               and read a second time; the source written first under ANOTHER option pair; the source
               built and written under other labels, then renamed in place.

Oracle clauses (one named clause per thing the statement lists; every failed clause is reported):
  write-error / reread-parse-error   any exception while writing or re-reading (RecursionError included)
  write- / reread-step-budget-exceeded   a file / stream / yielder route did not come back within a step
                                     budget thousands of times what a healthy run needs (a hang is a verdict)
  tree-count-changed                 number of trees delivered != number written
  topology-changed / child-order-changed   ordered shape differs (child-order when the unordered,
                                     taxon-labelled shape is still the same)
  taxon-{changed,lost,gained}        taxon label of a node (leaf or internal) differs
  taxon-not-in-namespace             a node's Taxon object is not a member (identity) of the tree's namespace
  node-label-{changed,lost,gained}   label of an *internal* node differs
  length-changed                     edge length differs (== on numbers, None only equals None)
  rooting-changed                    is_rooted (None / True / False) differs
  namespace-changed                  label list of the namespace differs (as a list for NEXUS and NeXML,
                                     as a multiset for Newick); the same demand when the text is read into the
                                     populated source namespace or twice into one list: every label ONCE
  namespace-not-the-given-one, trees-already-in-the-list-changed, dataset-structure-changed   (routes)
  implied clauses (not words of the statement, consequences of it): leaf-node-label-gained (a leaf must
  not acquire a node label it did not have), tree-namespace-not-the-list's.
Allowed normalisations, NeXML only: missing ROOT-edge length -> 0, undefined rooting -> unrooted.
Tree / TreeList / TaxonNamespace labels are set (they are parsed text: NEXUS tree names, NeXML label
attributes) but have no clause of their own - the statement does not list them; a label that makes the
document unreadable or changes a listed thing fails the clause it breaks, a label that merely comes back
different is recorded as a note.  Tree weights likewise (compared, recorded only).

Mechanism keys (fault localisation is itself done by running the real code on smaller documents):
  `<schema>|<clause>[|<ExcClass>|<library function>][|tree-label]|char:<name>@<positions>[|opts:<axes>]`
      a single character of a single label explains the failure: the label fails on its own in a minimal
      probe document (2-3 leaves, all lengths present) while the same document with a harmless label
      (control) does not fail that clause, and the character fails on its own in the listed positions
      (alone / first / middle / last; `any-position` = all that the grammar allows); `tree-label` when the
      label names a tree rather than a taxon / node;
  `...|no-single-char:<label class>` the label fails on its own but none of its characters does;
  `<schema>|<clause>|<discriminator>[|<label class>][|<degenerate shape features>][|opts:<axes>][|route:<route>]`
      otherwise.
`opts:` names the option axes WITHOUT which the failure does not happen (every non-default axis is reset
on its own and the real code re-run); nothing when the failure survives under the default options.
`route:` appears when the plain route (the control) does not fail that clause for the same document and
options.  Degenerate features are those of the tree the failed clause names (`other-tree:<feature>` for the
other trees of the list).  After the labels that fail on their own have been reported, the document is
re-run with those labels replaced by harmless ones, then without object labels, then with every taxonless
leaf given a taxon, so that a second root cause (lengths, rooting, structure) is neither masked by the
first nor blamed on it.

Soundness limits actually implemented (never generated, because the format cannot represent them or the
option pair cannot round-trip by construction): leaf node labels; a node with both a taxon and a node
label (Newick/NEXUS: one token per node); internal taxa unless the reader is told
suppress_internal_node_taxa=False (and then no internal node labels); Newick documents whose namespace
has taxa that are on no tree, or with zero trees; unquoted_underscores without preserve_spaces when a
label contains a space; suppress_rooting only with a reader directive that restores the state of a
uniformly rooted / unrooted list; reader default-* with written tokens only when every tree has a defined
rooting; translate tokens (dict form) never equal to a label of the document; labels outside the grammar
of the statement (empty, leading/trailing blank, control characters, non-letter non-ASCII, two labels equal
up to case); files only in text mode, path routes only with labels the locale encoding can represent.
Degenerate documents (a single unlabelled node, taxonless leaves, empty namespace / list, depth >= 300) are
run as directed cases (taxonless leaves also at a low rate in random documents) and are named in the key.
"""
import itertools
import random
import re

from .. import ref, gen, core
from ..mon.hooks import Hooks
from . import _c02_util as U
from . import _c02_routes as R

PROP = "C02"
LEVEL = "exploration"
TECHNIQUE = "reference-model comparison after a real write/read round trip, with minimal-probe fault localisation"
LEVEL_TEXT = "exploration"
LEVEL_NOTE = ("held on the documents explored; every special character is tried in every position as a directed "
              "case, the rest is seeded random exploration")
RULE = ("cases = directed witnesses | one special character x position x role (taxon, internal taxon, node label, tree "
        "label) x schema x label-option pair (also crossed with TRANSLATE) | token-like labels | digit-only label "
        "permutations | all shapes n<=4 (quick) / n<=5 (thorough) x rooting x length pattern x every consistent reader "
        "rooting directive | every route / object history x schema x label-option pair on documents with underscores, "
        "blanks, quotes, non-ASCII letters | seeded random tree lists (0-5 trees, labels from the statement's grammar, "
        "mixed lengths, extra namespace members, internal labels / internal taxa, tree / list / namespace labels), each "
        "evaluated once through the plain route and once through a random route / history, both under random points of "
        "the option product; an evaluation = one write + re-read + staged comparison; non-trivial = the document has a "
        "tree with >= 2 leaves or a label with a non-alphanumeric character; distinct = distinct (schema, option pair, "
        "api, document)")
REACH = ["nexusprocessing:escape_nexus_token", "newickwriter:NewickWriter._render_node_tag",
         "newickwriter:NewickWriter._write_tree", "tokenizer:Tokenizer.__next__",
         "newickreader:NewickReader._parse_tree_node_description", "newickreader:NewickReader._parse_tree_rooting_state",
         "nexusprocessing:NexusTaxonSymbolMapper.lookup_taxon_symbol", "nexuswriter:NexusWriter._write_trees_block",
         "nexuswriter:NexusWriter._set_and_write_translate_block", "nexusreader:NexusReader._parse_trees_block",
         "nexusreader:NexusReader._parse_translate_statement", "nexusreader:NexusReader._parse_taxlabels_statement",
         "nexmlwriter:NexmlWriter._write_tree", "nexmlwriter:_protect_attr", "nexmlreader:_NexmlTreeParser.build_tree",
         "newickyielder:NewickTreeDataYielder._yield_items_from_stream",
         "nexusyielder:NexusTreeDataYielder._yield_items_from_stream",
         "nexmlyielder:NexmlTreeDataYielder._yield_items_from_stream",
         "basemodel:Serializable.write_to_path", "basemodel:Serializable.write_to_stream",
         "basemodel:Deserializable.get_from_path", "basemodel:Deserializable.get_from_stream",
         "treecollectionmodel:TreeList._parse_and_add_from_stream", "datasetmodel:DataSet._parse_and_create_from_stream"]
MIN_EVENTS = {"roundtrip": (55000, 220000), "roundtrip:newick": (18000, 85000), "roundtrip:nexus": (28000, 95000),
              "roundtrip:nexml": (8000, 40000), "node-compared": (600000, 8500000), "tree-compared": (85000, 400000),
              # per option-axis value (the pair of an evaluation is a point of the product of the axes)
              "roundtrip-pair:default": (15000, 70000), "roundtrip-pair:ps/default": (6500, 25000),
              "roundtrip-pair:uu+ps/pu": (9000, 28000), "roundtrip-pair:uu/pu": (7000, 18000),
              "roundtrip-pair:translate": (8000, 19000), "roundtrip-pair:translate-dict": (3500, 14000),
              "roundtrip-pair:norooting/force-rooted": (900, 5500), "roundtrip-pair:norooting/force-unrooted": (900, 5500),
              "roundtrip-pair:norooting/default-rooted": (900, 5500), "roundtrip-pair:norooting/default-unrooted": (900, 5500),
              "roundtrip-pair:default-rooted": (2400, 14000), "roundtrip-pair:default-unrooted": (2400, 14000),
              "roundtrip-pair:weights": (6000, 40000), "weight-compared": (12000, 85000),
              "roundtrip-pair:internal-taxa": (12000, 50000), "roundtrip-crossed-options": (17000, 75000),
              "roundtrip-with-tree-label": (9000, 38000),
              # routes / object histories
              "roundtrip-route:src-ns": (1100, 7500), "roundtrip-route:read-append": (750, 5000),
              "roundtrip-route:read-twice": (800, 5000), "roundtrip-route:path": (800, 5000),
              "roundtrip-route:stream": (650, 4200), "roundtrip-route:yield": (900, 6000),
              "roundtrip-route:yield-files": (400, 2500), "roundtrip-route:dataset": (500, 3400),
              "roundtrip-route:rewrite": (1500, 10000), "roundtrip-route:prewrite": (850, 5500),
              "roundtrip-route:relabelled": (800, 5000),
              "hook:Tree.as_string:return": (30000, 80000), "hook:TreeList.as_string:return": (24000, 140000),
              "hook:Tree.get:return": (30000, 75000), "hook:TreeList.get:return": (20000, 120000),
              "hook:NewickWriter._render_node_tag:return": (550000, 7500000),
              "hook:nexusprocessing.escape_nexus_token:return": (600000, 7000000),
              "hook:Tokenizer.__next__:return": (3000000, 32000000)}
ASSUMPTIONS = ["source trees are built through Tree/Node constructors and add_child (no parser involved)",
               "both sides are read from the raw _child_nodes lists into DendroPy-free specs before comparison",
               "'matching reader options' are the points of the option product vf/props/_c02_util.AXES that fit the "
               "document (doc_fits)",
               "scratch files are written and read in text mode with the locale's encoding (the mode write(path=) uses)"]
CASE_TIMEOUT = 120

KNOWN_BAD = {"newick": set(), "nexus": set(), "nexml": set()}   # per process; only orders the probing
SAFE_LABEL = re.compile(r"^[A-Za-z][A-Za-z0-9]*$")
KEYWORDS = set(s.upper() for s in U.TOKENLIKE if s.isalpha())
ALLCHARS = U.SPECIALS + U.NONASCII


# ======================================================================================= cases
# option pairs under which every label class is driven as a directed case: the four label-option values,
# each also crossed with a TRANSLATE statement (NEXUS), and the dict form of translate_tree_taxa
CHAR_PAIRS = tuple(p for p in U.LABEL_PAIRS if "translate-dict" not in p and p != "ps/default+translate") + ("translate-dict",)


def _schema_pairs():
    out = []
    for schema in U.SCHEMAS:
        for pair in CHAR_PAIRS:
            if schema in U.PAIRS[pair]["schemas"]:
                out.append((schema, pair))
    return out


DIRECTED = ("newick-equals", "newick-backslash", "nexus-equals", "nexus-backslash", "nexml-nonroot-missing-length",
            "nexml-ampersand", "nexml-less-than", "nexml-double-quote", "nexml-backslash", "nexml-tab",
            "nexml-non-ascii", "quoted-punctuation-alone", "single-unlabelled-node", "empty-namespace",
            "empty-list", "taxonless-leaves", "deep-caterpillar", "tree-label-asterisk", "many-taxa", "twelve-trees",
            "depth-threshold", "rooting-defaults")


def cases(tier, seed):
    for name in DIRECTED:
        yield {"kind": "directed", "name": name}
    for c in ALLCHARS:
        for schema, pair in _schema_pairs():
            yield {"kind": "char", "c": ord(c), "schema": schema, "pair": pair}
    for i in range(0, len(U.TOKENLIKE), 4):
        for schema, pair in _schema_pairs():
            yield {"kind": "token", "lo": i, "hi": i + 4, "schema": schema, "pair": pair}
    for schema, pair in _schema_pairs():
        for n in (1, 2, 3, 4):
            yield {"kind": "digits", "n": n, "schema": schema, "pair": pair, "seed": seed}
    nmax = 4 if tier == "quick" else 5
    for n in range(1, nmax + 1):
        for idx in range(len(gen.all_shapes(n))):
            for schema in U.SCHEMAS:
                if n == 5 and (idx + U.SCHEMAS.index(schema)) % 3 != seed % 3:
                    continue
                yield {"kind": "shape", "n": n, "idx": idx, "schema": schema, "seed": seed}
    for schema in U.SCHEMAS:
        for variant in R.ALL_VARIANTS + ("prewrite",):
            yield {"kind": "routes", "schema": schema, "variant": variant, "seed": seed}
    nrand = 30000 if tier == "quick" else 210000
    for i in range(nrand):
        yield {"kind": "random", "i": i, "seed": seed}


# ======================================================================================= monitors
class Trace(object):
    """what the inner hooks saw during the current round trip (bounded)."""

    def __init__(self):
        self.on = False
        self.rendered = []
        self.tokens = []

    def reset(self, on):
        self.on = on
        self.rendered = []
        self.tokens = []


TRACE = Trace()


def install_hooks(ctx, hooks):
    import dendropy
    from dendropy.dataio import newickwriter, nexusprocessing, tokenizer

    def post_tag(snap, writer, args, kw, result, exc):
        if TRACE.on and len(TRACE.rendered) < 40:
            node = args[0]
            raw = (node.taxon.label if getattr(node, "taxon", None) is not None else None, node.label)
            TRACE.rendered.append([raw[0], raw[1], result if exc is None else "raised %s" % type(exc).__name__])

    def post_tok(snap, tk, args, kw, result, exc):
        if TRACE.on and len(TRACE.tokens) < 80:
            TRACE.tokens.append(result if exc is None else "<%s>" % type(exc).__name__)

    hooks.install(dendropy.Tree, "as_string")
    hooks.install(dendropy.TreeList, "as_string")
    hooks.install(dendropy.Tree, "get")
    hooks.install(dendropy.TreeList, "get")
    hooks.install(newickwriter.NewickWriter, "_render_node_tag", post=post_tag, outermost_only=False)
    hooks.install(nexusprocessing, "escape_nexus_token", outermost_only=False)
    hooks.install(tokenizer.Tokenizer, "__next__", post=post_tok, outermost_only=False)


def witness_detail(doc, schema, pair, api, fail, out):
    """re-run the failing round trip with the trace switched on: raw label -> rendered token, and the
    token stream the reader saw."""
    TRACE.reset(True)
    try:
        out2 = U.roundtrip(doc, schema, pair, api)
    finally:
        TRACE.on = False
    text = out2.text if out2.text is not None else ""
    d = {"schema": schema, "options": {"writer": U.PAIRS[pair]["w"], "reader": U.PAIRS[pair]["r"]}, "api": api,
         "doc": U.doc_text(doc), "fail": fail[2],
         "written": text if len(text) < 1500 else text[:700] + " ... " + text[-700:]}
    if schema != "nexml":
        d["rendered(taxon,node_label->token)"] = TRACE.rendered[:40]
        d["tokens_on_reread"] = TRACE.tokens[:80]
    return d


def report(ctx, key, what, doc, schema, pair, api, fail, out):
    have = ctx.violations.get(key)
    detail = None
    if have is None or len(have["witnesses"]) < core.MAX_WITNESSES_PER_KEY:
        detail = witness_detail(doc, schema, pair, api, fail, out)
    ctx.violation(key, what, detail)


# ======================================================================================= classification
def label_roles(doc):
    roles = {}
    for t in doc["trees"]:
        for n in ref.preorder(t["spec"]):
            if n[0] is not None:
                roles.setdefault((n[0], "itaxon" if n[3] else "taxon"), True)
            if n[1] is not None:
                roles.setdefault((n[1], "node"), True)
        if t.get("label") is not None:
            roles.setdefault((t["label"], "treelabel"), True)
    on_tree = set(l for l, r in roles if r not in ("node", "treelabel"))
    for l in doc["ns"]:
        if l not in on_tree:
            roles.setdefault((l, "taxon"), True)
    return sorted(roles)


def baseline_pair(schema, role):
    return "internal-taxa" if (role == "itaxon" and schema != "nexml") else "default"


def probe_pair(schema, pair, role):
    """option pair under which a minimal probe of `role` is run for a doc that used `pair`: the axes that
    decide how a label is rendered (label options, translate), plus the reader's internal-taxa switch
    when the label sits on an internal node as a taxon."""
    pp = U.restrict(pair, ("label", "translate"))
    if role == "itaxon" and schema != "nexml":
        pp = U.with_axis(pp, "itaxa", "internal-taxa")
    return pp


ROLE_TAG = {"treelabel": "|tree-label"}       # older roles are not named in keys (keys stay stable)


def what_of(fail):
    d = fail[2]
    if "exception" in d:
        return d["exception"]
    return "%s (%s)" % (fail[0], ", ".join("%s=%r" % kv for kv in sorted(d.items()) if kv[0] != "tree"))


EXC_CLAUSES = ("reread-parse-error", "write-error", "reread-step-budget-exceeded", "write-step-budget-exceeded")


def fail_key(schema, f, feats=None, opts=""):
    clause, disc, det = f
    parts = [schema, clause]
    if disc:
        parts.append(disc)
    if clause.startswith("taxon-") or clause.startswith("node-label-"):
        if "source" in det:
            srcl = det.get("source")
            parts.append("unlabelled" if srcl is None else U.label_class(srcl))
    if feats:
        parts.append(feats)
    return "|".join(parts) + opts


def same_failure(fails, want):
    return any((f[0], f[1]) in want for f in fails)


def minimal_opts(ctx, doc, schema, pair, api, fails):
    """`|opts:<axes>` = the option axes without which the failure does not happen: every non-default axis
    is reset on its own (the real code is re-run); an axis the doc cannot do without (internal taxa) is not
    named.  Empty when the failure survives under the default options."""
    want = set((f[0], f[1]) for f in fails)
    cur, necessary = pair, []
    for axis in U.nondefault_axes(pair):
        cand = U.with_axis(cur, axis, U.AXIS_DEFAULT[U.AXIS_NAMES.index(axis)])
        if not U.doc_fits(doc, schema, cand):
            continue
        ctx.ev("roundtrip-with-one-option-axis-reset")
        f2, _ = U.judge(doc, schema, cand, api)
        if same_failure(f2, want):
            cur = cand
        else:
            necessary.append(axis)
    return ("|opts:%s" % U.restrict(pair, necessary)) if necessary else ""


def probe_opts(ctx, label, c, role, schema, pp):
    """the same minimisation for a label (or one character c of it) that fails in a minimal probe."""
    cur, necessary = pp, []
    for axis in U.nondefault_axes(pp):
        if axis == "itaxa":
            continue
        cand = U.with_axis(cur, axis, U.AXIS_DEFAULT[U.AXIS_NAMES.index(axis)])
        if c is None:
            still = U.probe(label, role, schema, cand, ctx.events) is not None
        else:
            still = any(cc == c for cc, pos, r in U.char_culprits(label, role, schema, cand, ctx.events))
        if still:
            cur = cand
        else:
            necessary.append(axis)
    return ("|opts:%s" % U.restrict(pp, necessary)) if necessary else ""


def classify_labels(ctx, doc, schema, pair, batch, culprit_labels):
    for label, role in batch:
        pp = probe_pair(schema, pair, role)
        res = U.probe(label, role, schema, pp, ctx.events)
        if res is None:
            continue
        culprit_labels[label] = True
        tag = ROLE_TAG.get(role, "")
        cul = U.char_culprits(label, role, schema, pp, ctx.events)
        if cul:
            for c, pos, (pf, pdoc, pout) in cul:
                KNOWN_BAD[schema].add(c)
                opts = probe_opts(ctx, label, c, role, schema, pp)
                disc = ("|" + pf[1]) if pf[0] in EXC_CLAUSES else ""
                key = "%s|%s%s%s|char:%s@%s%s" % (schema, pf[0], disc, tag, U.char_name(c), pos, opts)
                report(ctx, key, "%s label %r: %s" % (role, pdoc_label(pdoc, role), what_of(pf)), pdoc, schema, pp,
                       U.api_for(pdoc), pf, pout)
        else:
            pf, pdoc, pout = res
            opts = probe_opts(ctx, label, None, role, schema, pp)
            disc = ("|" + pf[1]) if pf[0] in EXC_CLAUSES else ""
            key = "%s|%s%s%s|no-single-char:%s%s" % (schema, pf[0], disc, tag, U.label_class(label), opts)
            report(ctx, key, "%s label %r: %s" % (role, label, what_of(pf)), pdoc, schema, pp, U.api_for(pdoc), pf, pout)


def split_on_reduced(ctx, doc, doc2, schema, pair, api, fails, out, depth, tag):
    """doc2 = doc without one feature.  What still fails there is classified there; what no longer fails is
    reported for doc with the feature named."""
    fails2, out2 = U.judge(doc2, schema, pair, api, ctx.events)
    common = set((f[0], f[1]) for f in fails2)
    if fails2:
        classify(ctx, doc2, schema, pair, api, fails2, out2, depth + 1)
    for f in fails:
        if (f[0], f[1]) not in common:
            report(ctx, fail_key(schema, f, tag(f)), what_of(f), doc, schema, pair, api, f, out)


def classify(ctx, doc, schema, pair, api, fails, out, depth=0):
    """name the mechanism(s) behind a failed round trip (see module docstring)."""
    # ---- 0. a route / object history other than the plain one: the plain route is the control.  What fails
    #         there too is classified there; the rest is the route's own doing and is keyed `|route:<name>`
    if api not in R.BASIC:
        plain = R.basic_of(api)
        ctx.ev("roundtrip-plain-route-control")
        bf, bout = U.judge(doc, schema, pair, plain)
        common = set((f[0], f[1]) for f in bf)
        if bf:
            classify(ctx, doc, schema, pair, plain, bf, bout, depth)
        rest = [f for f in fails if (f[0], f[1]) not in common]
        if rest:
            opts = minimal_opts(ctx, doc, schema, pair, api, rest)
            for f in rest:
                key = fail_key(schema, f, U.doc_features(doc, f), opts) + "|route:%s" % R.route_tag(api)
                report(ctx, key, what_of(f), doc, schema, pair, api, f, out)
        return
    # ---- 1. labels that fail on their own in a minimal document, and the character that does it
    culprit_labels = {}
    todo = [(label, role) for label, role in label_roles(doc)
            if not (SAFE_LABEL.match(label) and label.upper() not in KEYWORDS)]
    # cheap first pass: labels containing a character already seen to break this schema; the others are
    # probed only if that does not explain the failure (the sanitised re-run below decides)
    suspects = [(l, r) for l, r in todo if any(c in KNOWN_BAD[schema] for c in l)]
    rounds = [suspects, [x for x in todo if x not in set(suspects)]] if suspects else [todo]
    for batch in rounds:
        if culprit_labels:
            break
        classify_labels(ctx, doc, schema, pair, batch, culprit_labels)
    if culprit_labels:
        if depth >= 3:
            return
        pool = U.LabelPool()
        for l in U.all_labels(doc):
            if l not in culprit_labels:
                pool.add(l)
        mapping = dict((l, pool.fresh("Lq")) for l in sorted(culprit_labels))
        doc2 = U.relabel(doc, mapping)
        if not U.doc_fits(doc2, schema, pair):
            ctx.note("sanitised-doc-no-longer-fits-pair")
            return
        ctx.ev("roundtrip-after-sanitising-labels")
        fails2, out2 = U.judge(doc2, schema, pair, api, ctx.events)
        if fails2:
            classify(ctx, doc2, schema, pair, api, fails2, out2, depth + 1)
        return
    # ---- 2. labels of the tree / list / namespace OBJECTS (no clause of their own): what fails without them?
    if depth < 3:
        doc2 = U.without_tree_labels(doc)
        if doc2 is not None:
            ctx.ev("roundtrip-after-dropping-object-labels")
            kinds = "+".join(k for k, on in (("tree-label", bool(U.tree_labels(doc))), ("list-label", bool(doc.get("list_label"))),
                                             ("namespace-label", bool(doc.get("ns_label")))) if on)
            split_on_reduced(ctx, doc, doc2, schema, pair, api, fails, out, depth,
                             lambda f: "+".join(x for x in (U.doc_features(doc, f), kinds) if x))
            return
    # ---- 3. degenerate shape features (taxonless leaves ...): what still fails without them?
    if U.doc_features(doc) and depth < 3:
        doc2 = U.fill_taxonless(doc)
        if doc2 is not None and U.doc_fits(doc2, schema, pair):
            ctx.ev("roundtrip-after-labelling-taxonless-leaves")
            split_on_reduced(ctx, doc, doc2, schema, pair, api, fails, out, depth, lambda f: U.doc_features(doc, f))
            return
    # ---- 4. clause + discriminator
    opts = minimal_opts(ctx, doc, schema, pair, api, fails)
    for f in fails:
        report(ctx, fail_key(schema, f, U.doc_features(doc, f), opts), what_of(f), doc, schema, pair, api, f, out)


def pdoc_label(pdoc, role):
    for l in U.all_labels(pdoc) + U.tree_labels(pdoc):
        if l not in ("za", "zb", "zq", "zr", "zt"):
            return l
    return None


def nontrivial(doc):
    if any(len(ref.leaves(t["spec"])) >= 2 for t in doc["trees"]):
        return True
    return any(U.is_special(c) for l in U.all_labels(doc) + U.tree_labels(doc) for c in l)


def evaluate(ctx, doc, schema, pair, api, sample=False):
    """one oracle evaluation."""
    if not U.doc_fits(doc, schema, pair):
        raise core.HarnessBug("generated a doc that does not fit %s/%s" % (schema, pair))
    for l in U.all_labels(doc) + U.tree_labels(doc):
        if not U.label_ok(l):
            raise core.HarnessBug("label outside the statement's grammar: %r" % l)
    ctx.ev("roundtrip")
    ctx.ev("roundtrip:%s" % schema)
    axes = U.PAIRS[pair]["axes"]
    nd = [v for v, d in zip(axes, U.AXIS_DEFAULT) if v != d]
    for v in nd:
        ctx.ev("roundtrip-pair:%s" % v)          # per option axis value (the pair is a point of the product)
    if not nd:
        ctx.ev("roundtrip-pair:default")
    if len(nd) >= 2:
        ctx.ev("roundtrip-crossed-options")
    if api not in R.BASIC:
        ctx.ev("roundtrip-route:%s" % R.route_tag(api))
    has_tl = bool(U.tree_labels(doc))
    if has_tl:
        ctx.ev("roundtrip-with-tree-label")
    fails, out = U.judge(doc, schema, pair, api, ctx.events)
    if nontrivial(doc):
        ctx.nontrivial((schema, pair, api, U.doc_text(doc)))
    if sample:
        ctx.sample({"schema": schema, "pair": pair, "api": api, "doc": U.doc_text(doc),
                    "written": (out.text or "")[:400], "failed_clauses": [f[0] for f in fails]})
    if not fails and axes[3]:
        for t, g in zip(out.expect, out.got):
            ctx.ev("weight-compared")
            if t.get("weight") is not None and g[2] != t["weight"]:
                ctx.note("weight-differs(recorded, not part of the statement): %r->%r" % (t["weight"], g[2]))
    if not fails and has_tl and schema != "newick":
        # the statement does not list tree labels: a difference is recorded, never judged
        for t, g in zip(out.expect, out.got):
            if t.get("label") is not None and g[5] != t["label"]:
                ctx.note("tree-label-differs(recorded, not part of the statement):%s" % schema)
    if fails:
        ctx.ev("roundtrip-with-failed-clause")
        classify(ctx, doc, schema, pair, api, fails, out)
    return not fails


# ======================================================================================= workloads
S = ref.S


def one_tree_doc(spec, rooted=None, extra_ns=(), weight=None):
    ns = []
    for n in ref.preorder(spec):
        if n[0] is not None and n[0] not in ns:
            ns.append(n[0])
    return {"ns": ns + list(extra_ns), "trees": [{"spec": spec, "rooted": rooted, "weight": weight}]}


def caterpillar(n):
    spec = S("T0", length=1.0)
    for i in range(1, n):
        spec = S(None, [S("T%d" % i, length=1.0), spec], length=1.0)
    spec[2] = None
    return spec


def run_directed(ctx, name):
    two = lambda lab: one_tree_doc(S(None, [S(lab, length=1.0), S("zq", length=2.0)]))
    if name in ("newick-equals", "newick-backslash", "nexus-equals", "nexus-backslash"):
        schema, what = name.split("-")
        evaluate(ctx, two("a=b" if what == "equals" else "a\\b"), schema, "default", "tree", sample=True)
    elif name == "nexml-nonroot-missing-length":
        evaluate(ctx, one_tree_doc(S(None, [S("A"), S("B", length=2.0)])), "nexml", "default", "tree", sample=True)
        evaluate(ctx, one_tree_doc(S(None, [S("A", length=1.0), S("B", length=2.0)])), "nexml", "default", "tree")
    elif name.startswith("nexml-"):
        lab = {"nexml-ampersand": "a&b", "nexml-less-than": "a<b", "nexml-double-quote": "a\"b",
               "nexml-backslash": "a\\b", "nexml-tab": "a\tb", "nexml-non-ascii": "aéb"}[name]
        evaluate(ctx, two(lab), "nexml", "default", "tree", sample=(name == "nexml-ampersand"))
    elif name == "quoted-punctuation-alone":
        for lab in "(),:;":
            for schema in ("newick", "nexus"):
                evaluate(ctx, two(lab), schema, "default", "tree")
    elif name == "single-unlabelled-node":
        for schema in U.SCHEMAS:
            for rooted in (None, True):
                evaluate(ctx, {"ns": ["A"] if schema != "newick" else [], "trees": [{"spec": S(None), "rooted": rooted}]},
                         schema, "default", "tree")
                if schema != "newick":
                    evaluate(ctx, {"ns": ["A"], "trees": [{"spec": S(None), "rooted": rooted},
                                                          {"spec": S("A"), "rooted": rooted}]}, schema, "default", "list")
    elif name == "empty-namespace":
        for schema in U.SCHEMAS:
            evaluate(ctx, {"ns": [], "trees": [{"spec": S(None, [S(None, length=1.0), S(None, length=2.0)]), "rooted": True}]},
                     schema, "default", "tree")
    elif name == "empty-list":
        for schema in ("nexus", "nexml"):
            evaluate(ctx, {"ns": ["A", "b c", "d_e"], "trees": []}, schema, "default", "list")
            evaluate(ctx, {"ns": [], "trees": []}, schema, "default", "list")
    elif name == "taxonless-leaves":
        for schema in U.SCHEMAS:
            evaluate(ctx, one_tree_doc(S(None, [S("A", length=1.0), S(None, length=1.0), S(None, [S(None, length=1.0),
                                       S("B", length=1.0)], length=1.0)])), schema, "default", "tree")
            evaluate(ctx, one_tree_doc(S(None, [S("A", length=1.0), S(None, length=2.0)])), schema, "default", "tree")
            evaluate(ctx, one_tree_doc(S(None, [S("A"), S(None, [S("B"), S(None)])])), schema, "default", "tree")
    elif name == "deep-caterpillar":
        for depth in (400, 1200):
            for schema in U.SCHEMAS:
                evaluate(ctx, one_tree_doc(caterpillar(depth), True), schema, "default", "tree")
    elif name == "tree-label-asterisk":
        # a tree NAMED '*' (NEXUS: "TREE * name = ..." marks the default tree) and other names that are NEXUS syntax
        for lab in ("*", "=", ";", "TREE", "END", "best tree", "a=b", "'", "[x]", "1", "2"):
            for schema in ("nexus", "nexml"):
                for doc in U.probe_docs(lab, "treelabel"):
                    evaluate(ctx, doc, schema, "default", U.api_for(doc), sample=(lab == "*" and schema == "nexus"))
    elif name == "many-taxa":
        # 120 taxa: taxon numbers / translate tokens with three digits, labels that are numbers of OTHER taxa
        rng = random.Random(7)
        n = 120
        for style in ("digits", "plain"):
            names = [str((i * 7) % n + 1) for i in range(n)] if style == "digits" else ["T%d" % i for i in range(n)]
            spec = put_lengths(gen.random_spec(rng, n, p_poly=0.3, names=list(names)), rng, "all")
            order = list(names)
            rng.shuffle(order)
            doc = {"ns": order, "trees": [{"spec": spec, "rooted": True}, {"spec": gen.shuffle_children(spec, rng), "rooted": False}]}
            for pair in ("default", "translate", "translate-dict", "uu+ps/pu+translate"):
                evaluate(ctx, doc, "nexus", pair, "list")
            evaluate(ctx, doc, "nexml", "default", "list")
            evaluate(ctx, dict(doc, ns=list(names)), "newick", "default", "list")
    elif name == "twelve-trees":
        # tree names '1' .. '12' (two digits), some trees named by the user with the NUMBER of another tree
        rng = random.Random(11)
        names = ["A", "B", "C", "D", "E"]
        trees = []
        for k in range(12):
            spec = put_lengths(gen.random_spec(rng, 5, names=list(names)), rng, "all")
            trees.append({"spec": spec, "rooted": rng.choice([True, False]), "label": {3: "12", 7: "1", 9: "t 9"}.get(k)})
        doc = {"ns": names, "trees": trees}
        for schema in U.SCHEMAS:
            for api in ("list", "list:read-twice", "list:rewrite"):
                evaluate(ctx, doc, schema, "default", api)
        evaluate(ctx, doc, "nexus", "translate+default-rooted", "list")
        evaluate(ctx, doc, "newick", "default-unrooted", "list")
    elif name == "depth-threshold":
        # where does the recursive-descent reader give up?  recorded only (the 1200-level witness is judged above)
        for schema in ("newick", "nexml"):
            lo, hi = 400, 1200
            while hi - lo > 25:
                mid = (lo + hi) // 2
                f, _ = U.judge(one_tree_doc(caterpillar(mid), True), schema, "default", "tree")
                lo, hi = (lo, mid) if f else (mid, hi)
            ctx.note("smallest-failing-caterpillar-depth:%s:%s" % (schema, "none<=1200" if hi == 1200 else "%d..%d" % (lo, hi)))
    elif name == "rooting-defaults":
        # written rooting tokens must win over the reader's default; without tokens the default decides
        three = lambda: S(None, [S("A", length=1.0), S("B", length=2.0), S("C", length=3.0)])
        for schema in ("newick", "nexus"):
            for rs in ((True, False), (False, True), (True, True), (False, False), (True, False, True)):
                doc = {"ns": ["A", "B", "C"], "trees": [{"spec": three(), "rooted": r} for r in rs]}
                for pair in sorted(U.PAIRS):
                    if U.PAIRS[pair]["axes"][2] and not U.nondefault_axes(pair)[1:] and U.doc_fits(doc, schema, pair):
                        evaluate(ctx, doc, schema, pair, "list")
    else:
        raise core.HarnessBug("unknown directed case %s" % name)


def roles_for(schema, pair):
    roles = ["taxon", "node"]
    if schema == "nexml" or "translate-dict" not in pair:
        roles.append("itaxon")
    if schema != "newick":
        roles.append("treelabel")            # Newick has no place for a tree name
    return roles


def run_label_probe(ctx, label, schema, pair, sample=False):
    """a label in every role, through the ordinary evaluation path."""
    for role in roles_for(schema, pair):
        pp = pair
        if role == "itaxon" and schema != "nexml":
            pp = U.with_axis(pair, "itaxa", "internal-taxa")
        for doc in U.probe_docs(label, role):
            if U.doc_fits(doc, schema, pp):
                evaluate(ctx, doc, schema, pp, U.api_for(doc), sample=sample)
                sample = False


def run_char(ctx, case):
    c = chr(case["c"])
    for pname, fmt in U.POSITIONS:
        s = fmt % c
        if U.label_ok(s):
            run_label_probe(ctx, s, case["schema"], case["pair"],
                            sample=(pname == "middle" and c in "=_" and case["pair"] == "default"))
    # the same character doubled and next to a quote / blank / underscore
    for s in (c + c, "q" + c + c + "q", "a" + c + "'b", "a" + c + " b", "a" + c + "_b", "a_b" + c, "a b" + c):
        if U.label_ok(s):
            run_label_probe(ctx, s, case["schema"], case["pair"])


def run_token(ctx, case):
    for s in U.TOKENLIKE[case["lo"]:case["hi"]]:
        run_label_probe(ctx, s, case["schema"], case["pair"])


def run_digits(ctx, case, rng):
    n, schema, pair = case["n"], case["schema"], case["pair"]
    labels = [str(i + 1) for i in range(n)]
    shapes = gen.all_shapes(n)
    perms = list(itertools.permutations(labels))
    combos = [(p, q, sh) for p in perms for q in perms for sh in shapes]
    if len(combos) > 150:
        combos = rng.sample(combos, 150)
    for p, q, sh in combos:
        spec = gen.shape_to_spec(sh, list(q))
        for nd in ref.preorder(spec):
            if nd is not spec:
                nd[2] = 1.0
        # internal node labels that are digits too
        if rng.random() < 0.5:
            for nd in ref.preorder(spec):
                if nd[3] and rng.random() < 0.6:
                    nd[1] = str(rng.randint(1, n + 1))
        doc = {"ns": list(p), "trees": [{"spec": spec, "rooted": rng.choice([None, True, False])}]}
        if schema != "newick" and rng.random() < 0.4:
            doc["ns"] = doc["ns"] + ["x%d" % n, str(n + 5)]
        if rng.random() < 0.4:
            names2 = list(q)
            rng.shuffle(names2)
            sp2 = gen.shape_to_spec(rng.choice(shapes), names2)
            doc["trees"].append({"spec": sp2, "rooted": None})
        if U.doc_fits(doc, schema, pair):
            evaluate(ctx, doc, schema, pair, "list" if len(doc["trees"]) != 1 or rng.random() < 0.3 else "tree")


LENGTH_STYLES = ("none", "all", "mixed", "sci", "ints", "zeros", "rootlen")
ROOTING_PAIRS = tuple(v[0] for v in U.AXES[2][1] if v[0])


def put_lengths(spec, rng, style):
    def val():
        k = rng.random()
        if style == "ints":
            return rng.randint(0, 100000)
        if style == "zeros":
            return rng.choice([0, 0.0, 1, 0.5])
        if style == "sci" or k < 0.25:
            return rng.choice([1e-10, 1.5e+20, 2.5e-7, 1e22, 1e-5, 5e-324, 1.7976931348623157e+308,
                               rng.uniform(0, 1) * 10 ** rng.randint(-30, 30)])
        if k < 0.5:
            return rng.randint(0, 50)
        if k < 0.75:
            return rng.randint(1, 64) / 8.0
        return rng.uniform(0.0, 10.0)
    for n in ref.preorder(spec):
        is_root = n is spec
        if style == "none":
            n[2] = None
        elif is_root:
            n[2] = val() if (style == "rootlen" or rng.random() < 0.15) else None
        elif style == "mixed":
            n[2] = None if rng.random() < 0.3 else val()
        else:
            n[2] = val()
    return spec


def run_shape(ctx, case, rng):
    schema = case["schema"]
    shape = gen.all_shapes(case["n"])[case["idx"]]
    names = ["T%d" % i for i in range(case["n"])]
    base = gen.shape_to_spec(shape, names)
    variants = [base, gen.shuffle_children(base, rng), gen.insert_unary(base, rng, 0.4)]
    first = True
    for v in variants:
        for rooted in (None, True, False):
            for style in (("none", "all", "mixed", "sci") if schema != "nexml" else ("all", "sci", "rootlen", "mixed")):
                spec = put_lengths(ref.copy(v), rng, style)
                if rng.random() < 0.5:
                    for nd in ref.preorder(spec):
                        if nd[3] and rng.random() < 0.5:
                            nd[1] = "n%d" % rng.randint(0, 9)
                ns = names[:case["n"]]
                if schema != "newick":
                    rng.shuffle(ns)
                    if rng.random() < 0.5:
                        ns = ns + ["Zextra"]
                else:
                    ns = ref.leaf_taxa(spec)
                doc = {"ns": ns, "trees": [{"spec": spec, "rooted": rooted}]}
                pairs = ["default"]
                if rooted is not None and schema != "nexml":
                    # every reader rooting directive that is consistent with this tree
                    pairs.extend(p for p in ROOTING_PAIRS if U.doc_fits(doc, schema, p))
                for pair in pairs:
                    evaluate(ctx, doc, schema, pair, "tree", sample=(first and case["n"] == 3))
                    first = False
                evaluate(ctx, doc, schema, "default", "list")


def random_doc(rng, tier, schema, want_nonascii=False):
    big = tier != "quick"
    ntrees = rng.choice([0, 1, 1, 1, 2, 3, 5]) if schema != "newick" else rng.choice([1, 1, 1, 2, 3, 5])
    nleaf = rng.choice([1, 2, 3, 4, 6, 9, 14]) if not big else rng.choice([1, 2, 3, 5, 8, 13, 25, 60])
    label_mode = rng.choice(["plain", "plain", "mixed", "mixed", "hostile", "digits"])
    internal_taxa = rng.random() < 0.12
    pool = U.LabelPool()

    def new_label():
        for _ in range(200):
            if label_mode == "plain":
                s = U.random_label(rng, "plain")
            elif label_mode == "digits":
                s = U.random_label(rng, rng.choice(["digits", "digits", "plain"]))
            elif label_mode == "mixed":
                s = U.random_label(rng, rng.choice(["plain", "plain", "one", "spaces", "nonascii", "token"]))
            else:
                s = U.random_label(rng)
            if pool.add(s):
                return s
        return pool.fresh()
    names = [new_label() for _ in range(nleaf)]
    if want_nonascii:
        # file routes are where labels meet encodings: at least one label with a non-ASCII letter
        for _ in range(20):
            s = U.random_label(rng, "nonascii")
            if any(ord(c) > 127 for c in s) and pool.add(s):
                names[rng.randrange(len(names))] = s
                break
    trees = []
    used = []
    for k in range(ntrees):
        m = nleaf if (k == 0 or rng.random() < 0.6) else rng.randint(1, nleaf)
        sub = rng.sample(names, m)
        spec = gen.random_spec(rng, m, p_poly=rng.choice([0, 0.3, 0.6]), p_unary=rng.choice([0, 0, 0.15]),
                               names=sub, shape=rng.choice([None, None, None, "caterpillar", "star", "balanced"]))
        style = rng.choice(LENGTH_STYLES)
        if schema == "nexml" and rng.random() < 0.7:
            style = rng.choice(("all", "sci", "ints", "zeros", "rootlen"))
        put_lengths(spec, rng, style)
        if internal_taxa:
            for nd in ref.preorder(spec):
                if nd[3] and rng.random() < 0.5:
                    nd[0] = new_label()
                if nd[3] and schema == "nexml" and rng.random() < 0.3:
                    nd[1] = U.random_label(rng)      # NeXML keeps taxon and node label apart
        elif rng.random() < 0.5:
            lm = rng.random()
            for nd in ref.preorder(spec):
                if nd[3] and rng.random() < 0.5:
                    if lm < 0.4:
                        nd[1] = str(rng.choice([50, 75, 100, 0.95, 1]))
                    elif lm < 0.7:
                        nd[1] = U.random_label(rng, "plain")
                    else:
                        nd[1] = U.random_label(rng)
        if rng.random() < 0.03:
            lv = ref.leaves(spec)
            if len(lv) > 1:
                rng.choice(lv)[0] = None
        for nd in ref.preorder(spec):
            if nd[0] is not None and nd[0] not in used:
                used.append(nd[0])
        trees.append({"spec": spec, "rooted": rng.choice([None, True, False]),
                      "weight": rng.choice([None, 1.0, 0.5, 0.25, 2, 1e-5, 3.75])})
    k = rng.random()
    if k < 0.3 and trees:
        r = rng.choice([True, False])
        for t in trees:
            t["rooted"] = r
    elif k < 0.5:
        # every tree has a DEFINED rooting, mixed within the list (reader defaults must not touch them)
        for t in trees:
            t["rooted"] = rng.choice([True, False])
    if rng.random() < 0.25:
        # labels of the tree objects: NEXUS tree names, NeXML label attributes (any string of the grammar)
        lm = rng.random()
        for t in trees:
            if rng.random() < 0.7:
                t["label"] = (U.random_label(rng, "plain") if lm < 0.3 else str(rng.randint(1, 12)) if lm < 0.45
                              else U.random_label(rng))
    if schema == "newick":
        ns = used
    else:
        ns = used[:]
        for s in names:
            if s not in ns:
                ns.append(s)
        for _ in range(rng.choice([0, 0, 1, 3])):
            ns.append(new_label())
        if rng.random() < 0.6:
            rng.shuffle(ns)
    doc = {"ns": ns, "trees": trees}
    if schema != "newick" and rng.random() < 0.2:
        doc["ns_removed"] = [[rng.randint(0, len(ns)), new_label()] for _ in range(rng.randint(1, 3))]
    if schema != "newick" and rng.random() < 0.15:
        doc["ns_reversed"] = True
    if rng.random() < 0.1:
        doc["ns_label"] = U.random_label(rng)
    if rng.random() < 0.1:
        doc["list_label"] = U.random_label(rng)
    return doc


def for_pair(doc, pair):
    """tree weights only travel under store_tree_weights"""
    if U.PAIRS[pair]["axes"][3]:
        return doc
    return dict(doc, trees=[dict(t, weight=None) for t in doc["trees"]])


# routes and object histories of the second evaluation of a random case (the first one is always plain)
ROUTE_WEIGHTS = (("", 30), ("src-ns", 9), ("read-append", 6), ("read-twice", 6), ("rewrite", 10), ("prewrite", 8),
                 ("relabelled", 6), ("path", 6), ("stream", 5), ("yield", 7), ("yield-files", 3), ("dataset", 4))


def pick_route(rng):
    tot = sum(w for v, w in ROUTE_WEIGHTS)
    k = rng.random() * tot
    for v, w in ROUTE_WEIGHTS:
        k -= w
        if k < 0:
            return v
    return ""


def run_random(ctx, case, rng):
    schema = rng.choice(("newick", "newick", "nexus", "nexus", "nexml"))
    variant = pick_route(rng)
    doc = random_doc(rng, ctx.tier, schema, want_nonascii=variant in R.FILE_VARIANTS)
    pairs = []
    for _ in range(6):
        p = U.random_pair(rng, doc, schema)
        if p is not None and p not in pairs:
            pairs.append(p)
        if len(pairs) == 2:
            break
    if not pairs:
        ctx.note("random-doc-fits-no-pair")
        return
    one = len(doc["trees"]) == 1
    # ---- first evaluation: the plain route
    evaluate(ctx, for_pair(doc, pairs[0]), schema, pairs[0], "tree" if (one and rng.random() < 0.6) else "list",
             sample=(case["i"] < 2))
    # ---- second evaluation: another point of the option product, through another route / object history
    pair = pairs[-1]
    kind = "tree" if (one and variant not in R.LIST_ONLY and rng.random() < 0.6) else "list"
    if variant in ("path", "yield-files") and not R.locale_encodes(U.all_labels(doc) + U.tree_labels(doc)):
        ctx.note("path-route-skipped:label-not-encodable-in-locale")
        variant = "stream"
    if variant == "prewrite":
        other = None
        for _ in range(6):
            q = U.random_pair(rng, doc, schema, p_default=0.2)
            if q is not None and q != pair:
                other = q
                break
        if other is None:
            ctx.note("prewrite-without-second-pair")
            variant = "rewrite"
        else:
            variant = "prewrite=%s" % other
    api = kind + (":" + variant if variant else "")
    evaluate(ctx, for_pair(doc, pair), schema, pair, api, sample=(case["i"] in (2, 3)))


ROUTE_LABELS = ("a_b", "c d", "e_f g", "x'y", "a\u00e9b", "Q", "2", "\u0130x", "h__i", "TREE")


def route_docs(rng):
    """small documents with every label feature the options act on, for the directed route cases"""
    out = []
    for spaces in (True, False):
        labels = [l for l in ROUTE_LABELS if spaces or " " not in l]
        for ntrees in (1, 3):
            trees = []
            for k in range(ntrees):
                spec = put_lengths(gen.random_spec(rng, len(labels), p_poly=0.3, names=list(labels)), rng, "all")
                for nd in ref.preorder(spec):
                    if nd[3] and nd is not spec and rng.random() < 0.5:
                        nd[1] = rng.choice(["n_1", "0.95", "n2"] + (["n 3"] if spaces else []))
                trees.append({"spec": spec, "rooted": (True, False, True)[k] if ntrees > 1 else rng.choice([True, False]),
                              "weight": 0.5, "label": None if k != 1 else "best_tree"})
            order = list(labels)
            rng.shuffle(order)
            out.append({"ns": order + ["Zextra"], "trees": trees})
    return out


def run_routes(ctx, case, rng):
    """every route / object history x every label-option pair (and a few crossings) on documents with
    underscores, blanks, quotes, non-ASCII letters, digits, node labels, mixed defined rooting"""
    schema, variant = case["schema"], case["variant"]
    pairs = [p for p in CHAR_PAIRS + ("default-unrooted", "uu+ps/pu+default-rooted+weights", "ps/default+translate+weights")
             if schema in U.PAIRS[p]["schemas"]]
    for doc in route_docs(rng):
        if schema == "newick":
            doc = dict(doc, ns=[l for l in doc["ns"] if l != "Zextra"])
        one = len(doc["trees"]) == 1
        for pair in pairs:
            if not U.doc_fits(doc, schema, pair):
                continue
            v = variant
            if v == "prewrite":
                others = [q for q in pairs if q != pair and U.doc_fits(doc, schema, q)]
                if not others:
                    continue
                v = "prewrite=%s" % rng.choice(others)
            if v in ("path", "yield-files") and not R.locale_encodes(U.all_labels(doc)):
                ctx.note("path-route-skipped:label-not-encodable-in-locale")
                continue
            kinds = ["list"] + (["tree"] if one and variant not in R.LIST_ONLY else [])
            for kind in kinds:
                evaluate(ctx, for_pair(doc, pair), schema, pair, "%s:%s" % (kind, v))


def run_case(case, ctx):
    rng = random.Random("%s/%s" % (case.get("seed", 0), sorted(case.items())))
    with Hooks(ctx) as hooks:
        install_hooks(ctx, hooks)
        TRACE.reset(False)
        kind = case["kind"]
        if kind == "directed":
            run_directed(ctx, case["name"])
        elif kind == "char":
            run_char(ctx, case)
        elif kind == "token":
            run_token(ctx, case)
        elif kind == "digits":
            run_digits(ctx, case, rng)
        elif kind == "shape":
            run_shape(ctx, case, rng)
        elif kind == "routes":
            run_routes(ctx, case, rng)
        elif kind == "random":
            run_random(ctx, case, rng)
        else:
            raise core.HarnessBug("unknown case kind %r" % kind)
