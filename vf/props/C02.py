"""C02  Trees survive a write/read round trip through Newick, NEXUS and NeXML.

Method: runtime monitoring of the real writers and readers.  Source trees are *constructed* through the
node API (vf.bridge.build_tree, never by parsing) from DendroPy-free specs, written with
Tree.as_string / TreeList.as_string, read back with Tree.get / TreeList.get under the matching reader
options, and the result is extracted from the raw child lists and compared with the source spec.

Oracle clauses (one named clause per thing the statement lists; every failed clause is reported):
  write-error / reread-parse-error   any exception while writing or re-reading (RecursionError included)
  tree-count-changed                 number of trees delivered != number written
  topology-changed / child-order-changed   ordered shape differs (child-order when the unordered,
                                     taxon-labelled shape is still the same)
  taxon-{changed,lost,gained}        taxon label of a node (leaf or internal) differs
  node-label-{changed,lost,gained}   label of an *internal* node differs; leaf-node-label-gained
  length-changed                     edge length differs (== on numbers, None only equals None)
  rooting-changed                    is_rooted (None / True / False) differs
  namespace-changed                  label list of the namespace differs (as a list for NEXUS and NeXML,
                                     as a multiset for Newick)
Allowed normalisations, NeXML only: missing ROOT-edge length -> 0, undefined rooting -> unrooted.

Mechanism keys (fault localisation is itself done by running the real code on smaller documents):
  `<schema>|<clause>[|<ExcClass>|<library function>]|char:<name>@<positions>[|opts:<pair>]`
      a single character of a single label explains the failure: the label fails on its own in a minimal
      probe document (2-3 leaves, all lengths present) while the same document with a harmless label
      (control) does not fail that clause, and the character fails on its own in the listed positions
      (alone / first / middle / last; `any-position` = all that the grammar allows);
  `...|no-single-char:<label class>` the label fails on its own but none of its characters does;
  `<schema>|<clause>|<discriminator>[|<label class>][|<degenerate shape features>][|opts:<pair>]` otherwise.
`opts:` appears only when the same thing survives under the default options.  After the labels that fail
on their own have been reported, the document is re-run with those labels replaced by harmless ones, and
then with every taxonless leaf given a taxon, so that a second root cause (lengths, rooting, structure) is
neither masked by the first nor blamed on it.

Soundness limits actually implemented (never generated, because the format cannot represent them or the
option pair cannot round-trip by construction): leaf node labels; a node with both a taxon and a node
label (Newick/NEXUS: one token per node); internal taxa unless the reader is told
suppress_internal_node_taxa=False (and then no internal node labels); Newick documents whose namespace
has taxa that are on no tree, or with zero trees; unquoted_underscores without preserve_spaces when a
label contains a space; suppress_rooting only with the matching force-* reader and a uniformly rooted /
unrooted list; labels outside the grammar of the statement (empty, leading/trailing blank, control
characters, non-letter non-ASCII, two labels equal up to case).  Tree weights are compared under
store_tree_weights but only *recorded* (the statement does not list them).  Tree labels are not varied.
Degenerate documents (a single unlabelled node, taxonless leaves, empty namespace / list, depth >= 300) are
run as directed cases (taxonless leaves also at a low rate in random documents) and are named in the key.
"""
import itertools
import random
import re

from .. import ref, gen, core
from ..mon.hooks import Hooks
from . import _c02_util as U

PROP = "C02"
LEVEL = "exploration"
TECHNIQUE = "reference-model comparison after a real write/read round trip, with minimal-probe fault localisation"
LEVEL_TEXT = "exploration"
LEVEL_NOTE = ("held on the documents explored; every special character is tried in every position as a directed "
              "case, the rest is seeded random exploration")
RULE = ("cases = directed witnesses | one special character x position x role x schema x option pair | token-like "
        "labels | digit-only label permutations | all shapes n<=4 (quick) / n<=5 (thorough) x rooting x length pattern | "
        "seeded random tree lists (0-5 trees, labels from the statement's grammar, mixed lengths, extra namespace "
        "members, internal labels / internal taxa); an evaluation = one write + re-read + staged comparison; "
        "non-trivial = the document has a tree with >= 2 leaves or a label with a non-alphanumeric character; "
        "distinct = distinct (schema, option pair, API, document)")
REACH = ["nexusprocessing:escape_nexus_token", "newickwriter:NewickWriter._render_node_tag",
         "newickwriter:NewickWriter._write_tree", "tokenizer:Tokenizer.__next__",
         "newickreader:NewickReader._parse_tree_node_description", "newickreader:NewickReader._parse_tree_rooting_state",
         "nexusprocessing:NexusTaxonSymbolMapper.lookup_taxon_symbol", "nexuswriter:NexusWriter._write_trees_block",
         "nexuswriter:NexusWriter._set_and_write_translate_block", "nexusreader:NexusReader._parse_trees_block",
         "nexusreader:NexusReader._parse_translate_statement", "nexusreader:NexusReader._parse_taxlabels_statement",
         "nexmlwriter:NexmlWriter._write_tree", "nexmlwriter:_protect_attr", "nexmlreader:_NexmlTreeParser.build_tree"]
MIN_EVENTS = {"roundtrip": (25000, 300000), "roundtrip:newick": (8000, 100000), "roundtrip:nexus": (8000, 100000),
              "roundtrip:nexml": (3000, 40000), "node-compared": (150000, 5000000), "tree-compared": (30000, 400000),
              "roundtrip-pair:translate": (1000, 10000), "roundtrip-pair:uu+ps/pu": (2000, 20000),
              "roundtrip-pair:internal-taxa": (1000, 10000), "weight-compared": (1000, 20000),
              "hook:Tree.as_string:return": (20000, 100000), "hook:TreeList.as_string:return": (5000, 50000),
              "hook:Tree.get:return": (15000, 100000), "hook:TreeList.get:return": (5000, 50000),
              "hook:NewickWriter._render_node_tag:return": (100000, 5000000),
              "hook:nexusprocessing.escape_nexus_token:return": (100000, 5000000),
              "hook:Tokenizer.__next__:return": (500000, 20000000)}
ASSUMPTIONS = ["source trees are built through Tree/Node constructors and add_child (no parser involved)",
               "both sides are read from the raw _child_nodes lists into DendroPy-free specs before comparison",
               "'matching reader options' are the pairs listed in vf/props/_c02_util.PAIRS"]
CASE_TIMEOUT = 120

KNOWN_BAD = {"newick": set(), "nexus": set(), "nexml": set()}   # per process; only orders the probing
SAFE_LABEL = re.compile(r"^[A-Za-z][A-Za-z0-9]*$")
KEYWORDS = set(s.upper() for s in U.TOKENLIKE if s.isalpha())
ALLCHARS = U.SPECIALS + U.NONASCII


# ======================================================================================= cases
def _schema_pairs(label_pairs_only=True):
    out = []
    for schema in U.SCHEMAS:
        for pair in (U.LABEL_PAIRS if label_pairs_only else U.PAIRS):
            if schema in U.PAIRS[pair]["schemas"]:
                out.append((schema, pair))
    return out


DIRECTED = ("newick-equals", "newick-backslash", "nexus-equals", "nexus-backslash", "nexml-nonroot-missing-length",
            "nexml-ampersand", "nexml-less-than", "nexml-double-quote", "nexml-backslash", "nexml-tab",
            "nexml-non-ascii", "quoted-punctuation-alone", "single-unlabelled-node", "empty-namespace",
            "empty-list", "taxonless-leaves", "deep-caterpillar")


def cases(tier, seed):
    for name in DIRECTED:
        yield {"kind": "directed", "name": name}
    for c in ALLCHARS:
        for schema, pair in _schema_pairs():
            yield {"kind": "char", "c": ord(c), "schema": schema, "pair": pair}
    for i in range(0, len(U.TOKENLIKE), 4):
        for schema, pair in _schema_pairs():
            yield {"kind": "token", "lo": i, "hi": i + 4, "schema": schema, "pair": pair}
    for schema, pair in _schema_pairs():
        for n in (1, 2, 3, 4):
            yield {"kind": "digits", "n": n, "schema": schema, "pair": pair, "seed": seed}
    nmax = 4 if tier == "quick" else 5
    for n in range(1, nmax + 1):
        for idx in range(len(gen.all_shapes(n))):
            for schema in U.SCHEMAS:
                if n == 5 and (idx + U.SCHEMAS.index(schema)) % 3 != seed % 3:
                    continue
                yield {"kind": "shape", "n": n, "idx": idx, "schema": schema, "seed": seed}
    nrand = 40000 if tier == "quick" else 280000
    for i in range(nrand):
        yield {"kind": "random", "i": i, "seed": seed}


# ======================================================================================= monitors
class Trace(object):
    """what the inner hooks saw during the current round trip (bounded)."""

    def __init__(self):
        self.on = False
        self.rendered = []
        self.tokens = []

    def reset(self, on):
        self.on = on
        self.rendered = []
        self.tokens = []


TRACE = Trace()


def install_hooks(ctx, hooks):
    import dendropy
    from dendropy.dataio import newickwriter, nexusprocessing, tokenizer

    def post_tag(snap, writer, args, kw, result, exc):
        if TRACE.on and len(TRACE.rendered) < 40:
            node = args[0]
            raw = (node.taxon.label if getattr(node, "taxon", None) is not None else None, node.label)
            TRACE.rendered.append([raw[0], raw[1], result if exc is None else "raised %s" % type(exc).__name__])

    def post_tok(snap, tk, args, kw, result, exc):
        if TRACE.on and len(TRACE.tokens) < 80:
            TRACE.tokens.append(result if exc is None else "<%s>" % type(exc).__name__)

    hooks.install(dendropy.Tree, "as_string")
    hooks.install(dendropy.TreeList, "as_string")
    hooks.install(dendropy.Tree, "get")
    hooks.install(dendropy.TreeList, "get")
    hooks.install(newickwriter.NewickWriter, "_render_node_tag", post=post_tag, outermost_only=False)
    hooks.install(nexusprocessing, "escape_nexus_token", outermost_only=False)
    hooks.install(tokenizer.Tokenizer, "__next__", post=post_tok, outermost_only=False)


def witness_detail(doc, schema, pair, api, fail, out):
    """re-run the failing round trip with the trace switched on: raw label -> rendered token, and the
    token stream the reader saw."""
    TRACE.reset(True)
    try:
        out2 = U.roundtrip(doc, schema, pair, api)
    finally:
        TRACE.on = False
    text = out2.text if out2.text is not None else ""
    d = {"schema": schema, "options": {"writer": U.PAIRS[pair]["w"], "reader": U.PAIRS[pair]["r"]}, "api": api,
         "doc": U.doc_text(doc), "fail": fail[2],
         "written": text if len(text) < 1500 else text[:700] + " ... " + text[-700:]}
    if schema != "nexml":
        d["rendered(taxon,node_label->token)"] = TRACE.rendered[:40]
        d["tokens_on_reread"] = TRACE.tokens[:80]
    return d


def report(ctx, key, what, doc, schema, pair, api, fail, out):
    have = ctx.violations.get(key)
    detail = None
    if have is None or len(have["witnesses"]) < core.MAX_WITNESSES_PER_KEY:
        detail = witness_detail(doc, schema, pair, api, fail, out)
    ctx.violation(key, what, detail)


# ======================================================================================= classification
def label_roles(doc):
    roles = {}
    for t in doc["trees"]:
        for n in ref.preorder(t["spec"]):
            if n[0] is not None:
                roles.setdefault((n[0], "itaxon" if n[3] else "taxon"), True)
            if n[1] is not None:
                roles.setdefault((n[1], "node"), True)
    on_tree = set(l for l, r in roles if r != "node")
    for l in doc["ns"]:
        if l not in on_tree:
            roles.setdefault((l, "taxon"), True)
    return sorted(roles)


def baseline_pair(schema, role):
    return "internal-taxa" if (role == "itaxon" and schema != "nexml") else "default"


def probe_pair(schema, pair, role):
    """option pair under which a minimal probe of `role` is run for a doc that used `pair`."""
    if role == "itaxon" and schema != "nexml":
        return pair if U.PAIRS[pair].get("itaxa") else "internal-taxa"
    if pair in U.LABEL_PAIRS:
        return pair
    if pair == "translate+internal-taxa":
        return "translate"
    return "default"


def what_of(fail):
    d = fail[2]
    if "exception" in d:
        return d["exception"]
    return "%s (%s)" % (fail[0], ", ".join("%s=%r" % kv for kv in sorted(d.items()) if kv[0] != "tree"))


def fail_key(schema, f, feats=None, opts=""):
    clause, disc, det = f
    parts = [schema, clause]
    if disc:
        parts.append(disc)
    if clause.startswith("taxon-") or clause.startswith("node-label-"):
        srcl = det.get("source")
        parts.append("unlabelled" if srcl is None else U.label_class(srcl))
    if feats:
        parts.append(feats)
    return "|".join(parts) + opts


def classify_labels(ctx, doc, schema, pair, batch, culprit_labels):
    for label, role in batch:
        pp = probe_pair(schema, pair, role)
        res = U.probe(label, role, schema, pp, ctx.events)
        if res is None:
            continue
        culprit_labels[label] = True
        base = baseline_pair(schema, role)
        cul = U.char_culprits(label, role, schema, pp, ctx.events)
        if cul:
            bcul = cul if pp == base else U.char_culprits(label, role, schema, base, ctx.events)
            bset = set(c for c, pos, r in bcul)
            for c, pos, (pf, pdoc, pout) in cul:
                KNOWN_BAD[schema].add(c)
                opts = "" if c in bset else "|opts:%s" % pp
                disc = ("|" + pf[1]) if pf[0] in ("reread-parse-error", "write-error") else ""
                key = "%s|%s%s|char:%s@%s%s" % (schema, pf[0], disc, U.char_name(c), pos, opts)
                report(ctx, key, "%s label %r: %s" % (role, pdoc_label(pdoc, role), what_of(pf)), pdoc, schema, pp,
                       "tree", pf, pout)
        else:
            pf, pdoc, pout = res
            opts = ""
            if pp != base and U.probe(label, role, schema, base, ctx.events) is None:
                opts = "|opts:%s" % pp
            disc = ("|" + pf[1]) if pf[0] in ("reread-parse-error", "write-error") else ""
            key = "%s|%s%s|no-single-char:%s%s" % (schema, pf[0], disc, U.label_class(label), opts)
            report(ctx, key, "%s label %r: %s" % (role, label, what_of(pf)), pdoc, schema, pp, "tree", pf, pout)


def classify(ctx, doc, schema, pair, api, fails, out, depth=0):
    """name the mechanism(s) behind a failed round trip (see module docstring)."""
    # ---- 1. labels that fail on their own in a minimal document, and the character that does it
    culprit_labels = {}
    todo = [(label, role) for label, role in label_roles(doc)
            if not (SAFE_LABEL.match(label) and label.upper() not in KEYWORDS)]
    # cheap first pass: labels containing a character already seen to break this schema; the others are
    # probed only if that does not explain the failure (the sanitised re-run below decides)
    suspects = [(l, r) for l, r in todo if any(c in KNOWN_BAD[schema] for c in l)]
    rounds = [suspects, [x for x in todo if x not in set(suspects)]] if suspects else [todo]
    for batch in rounds:
        if culprit_labels:
            break
        classify_labels(ctx, doc, schema, pair, batch, culprit_labels)
    if culprit_labels:
        if depth >= 3:
            return
        pool = U.LabelPool()
        for l in U.all_labels(doc):
            if l not in culprit_labels:
                pool.add(l)
        mapping = dict((l, pool.fresh("Lq")) for l in sorted(culprit_labels))
        doc2 = U.relabel(doc, mapping)
        if not U.doc_fits(doc2, schema, pair):
            ctx.note("sanitised-doc-no-longer-fits-pair")
            return
        ctx.ev("roundtrip-after-sanitising-labels")
        fails2, out2 = U.judge(doc2, schema, pair, api, ctx.events)
        if fails2:
            classify(ctx, doc2, schema, pair, api, fails2, out2, depth + 1)
        return
    # ---- 2. degenerate shape features (taxonless leaves ...): what still fails without them?
    feats = U.doc_features(doc)
    if feats and depth < 3:
        doc2 = U.fill_taxonless(doc)
        if doc2 is not None and U.doc_fits(doc2, schema, pair):
            ctx.ev("roundtrip-after-labelling-taxonless-leaves")
            fails2, out2 = U.judge(doc2, schema, pair, api, ctx.events)
            common = set((f[0], f[1]) for f in fails2)
            if fails2:
                classify(ctx, doc2, schema, pair, api, fails2, out2, depth + 1)
            for f in fails:
                if (f[0], f[1]) not in common:
                    report(ctx, fail_key(schema, f, feats), what_of(f), doc, schema, pair, api, f, out)
            return
    # ---- 3. clause + discriminator
    opts = ""
    if pair != "default" and U.doc_fits(doc, schema, "default"):
        bf, _ = U.judge(doc, schema, "default", api)
        if not bf:
            opts = "|opts:%s" % pair
    for f in fails:
        report(ctx, fail_key(schema, f, feats, opts), what_of(f), doc, schema, pair, api, f, out)


def pdoc_label(pdoc, role):
    for l in U.all_labels(pdoc):
        if l not in ("za", "zb", "zq", "zr"):
            return l
    return None


def nontrivial(doc):
    if any(len(ref.leaves(t["spec"])) >= 2 for t in doc["trees"]):
        return True
    return any(U.is_special(c) for l in U.all_labels(doc) for c in l)


def evaluate(ctx, doc, schema, pair, api, sample=False):
    """one oracle evaluation."""
    if not U.doc_fits(doc, schema, pair):
        raise core.HarnessBug("generated a doc that does not fit %s/%s" % (schema, pair))
    for l in U.all_labels(doc):
        if not U.label_ok(l):
            raise core.HarnessBug("label outside the statement's grammar: %r" % l)
    ctx.ev("roundtrip")
    ctx.ev("roundtrip:%s" % schema)
    ctx.ev("roundtrip-pair:%s" % pair)
    fails, out = U.judge(doc, schema, pair, api, ctx.events)
    if nontrivial(doc):
        ctx.nontrivial((schema, pair, api, U.doc_text(doc)))
    if sample:
        ctx.sample({"schema": schema, "pair": pair, "api": api, "doc": U.doc_text(doc),
                    "written": (out.text or "")[:400], "failed_clauses": [f[0] for f in fails]})
    if not fails and pair == "weights":
        for t, g in zip(doc["trees"], out.got):
            ctx.ev("weight-compared")
            if t.get("weight") is not None and g[2] != t["weight"]:
                ctx.note("weight-differs(recorded, not part of the statement): %r->%r" % (t["weight"], g[2]))
    if fails:
        ctx.ev("roundtrip-with-failed-clause")
        classify(ctx, doc, schema, pair, api, fails, out)
    return not fails


# ======================================================================================= workloads
S = ref.S


def one_tree_doc(spec, rooted=None, extra_ns=(), weight=None):
    ns = []
    for n in ref.preorder(spec):
        if n[0] is not None and n[0] not in ns:
            ns.append(n[0])
    return {"ns": ns + list(extra_ns), "trees": [{"spec": spec, "rooted": rooted, "weight": weight}]}


def caterpillar(n):
    spec = S("T0", length=1.0)
    for i in range(1, n):
        spec = S(None, [S("T%d" % i, length=1.0), spec], length=1.0)
    spec[2] = None
    return spec


def run_directed(ctx, name):
    two = lambda lab: one_tree_doc(S(None, [S(lab, length=1.0), S("zq", length=2.0)]))
    if name in ("newick-equals", "newick-backslash", "nexus-equals", "nexus-backslash"):
        schema, what = name.split("-")
        evaluate(ctx, two("a=b" if what == "equals" else "a\\b"), schema, "default", "tree", sample=True)
    elif name == "nexml-nonroot-missing-length":
        evaluate(ctx, one_tree_doc(S(None, [S("A"), S("B", length=2.0)])), "nexml", "default", "tree", sample=True)
        evaluate(ctx, one_tree_doc(S(None, [S("A", length=1.0), S("B", length=2.0)])), "nexml", "default", "tree")
    elif name.startswith("nexml-"):
        lab = {"nexml-ampersand": "a&b", "nexml-less-than": "a<b", "nexml-double-quote": "a\"b",
               "nexml-backslash": "a\\b", "nexml-tab": "a\tb", "nexml-non-ascii": "aéb"}[name]
        evaluate(ctx, two(lab), "nexml", "default", "tree", sample=(name == "nexml-ampersand"))
    elif name == "quoted-punctuation-alone":
        for lab in "(),:;":
            for schema in ("newick", "nexus"):
                evaluate(ctx, two(lab), schema, "default", "tree")
    elif name == "single-unlabelled-node":
        for schema in U.SCHEMAS:
            for rooted in (None, True):
                evaluate(ctx, {"ns": ["A"] if schema != "newick" else [], "trees": [{"spec": S(None), "rooted": rooted}]},
                         schema, "default", "tree")
                if schema != "newick":
                    evaluate(ctx, {"ns": ["A"], "trees": [{"spec": S(None), "rooted": rooted},
                                                          {"spec": S("A"), "rooted": rooted}]}, schema, "default", "list")
    elif name == "empty-namespace":
        for schema in U.SCHEMAS:
            evaluate(ctx, {"ns": [], "trees": [{"spec": S(None, [S(None, length=1.0), S(None, length=2.0)]), "rooted": True}]},
                     schema, "default", "tree")
    elif name == "empty-list":
        for schema in ("nexus", "nexml"):
            evaluate(ctx, {"ns": ["A", "b c", "d_e"], "trees": []}, schema, "default", "list")
            evaluate(ctx, {"ns": [], "trees": []}, schema, "default", "list")
    elif name == "taxonless-leaves":
        for schema in U.SCHEMAS:
            evaluate(ctx, one_tree_doc(S(None, [S("A", length=1.0), S(None, length=1.0), S(None, [S(None, length=1.0),
                                       S("B", length=1.0)], length=1.0)])), schema, "default", "tree")
            evaluate(ctx, one_tree_doc(S(None, [S("A", length=1.0), S(None, length=2.0)])), schema, "default", "tree")
            evaluate(ctx, one_tree_doc(S(None, [S("A"), S(None, [S("B"), S(None)])])), schema, "default", "tree")
    elif name == "deep-caterpillar":
        for depth in (400, 1200):
            for schema in U.SCHEMAS:
                evaluate(ctx, one_tree_doc(caterpillar(depth), True), schema, "default", "tree")
    else:
        raise core.HarnessBug("unknown directed case %s" % name)


def roles_for(schema, pair):
    roles = ["taxon", "node"]
    if schema == "nexml" or pair in ("default", "translate"):
        roles.append("itaxon")
    return roles


def run_label_probe(ctx, label, schema, pair, sample=False):
    """a label in every role, through the ordinary evaluation path."""
    for role in roles_for(schema, pair):
        pp = pair
        if role == "itaxon" and schema != "nexml":
            pp = "internal-taxa" if pair == "default" else "translate+internal-taxa"
        for doc in U.probe_docs(label, role):
            if U.doc_fits(doc, schema, pp):
                evaluate(ctx, doc, schema, pp, "tree", sample=sample)
                sample = False


def run_char(ctx, case):
    c = chr(case["c"])
    for pname, fmt in U.POSITIONS:
        s = fmt % c
        if U.label_ok(s):
            run_label_probe(ctx, s, case["schema"], case["pair"],
                            sample=(pname == "middle" and c in "=_" and case["pair"] == "default"))
    # the same character doubled and next to a quote / blank / underscore
    for s in (c + c, "q" + c + c + "q", "a" + c + "'b", "a" + c + " b", "a" + c + "_b", "a_b" + c, "a b" + c):
        if U.label_ok(s):
            run_label_probe(ctx, s, case["schema"], case["pair"])


def run_token(ctx, case):
    for s in U.TOKENLIKE[case["lo"]:case["hi"]]:
        run_label_probe(ctx, s, case["schema"], case["pair"])


def run_digits(ctx, case, rng):
    n, schema, pair = case["n"], case["schema"], case["pair"]
    labels = [str(i + 1) for i in range(n)]
    shapes = gen.all_shapes(n)
    perms = list(itertools.permutations(labels))
    combos = [(p, q, sh) for p in perms for q in perms for sh in shapes]
    if len(combos) > 150:
        combos = rng.sample(combos, 150)
    for p, q, sh in combos:
        spec = gen.shape_to_spec(sh, list(q))
        for nd in ref.preorder(spec):
            if nd is not spec:
                nd[2] = 1.0
        # internal node labels that are digits too
        if rng.random() < 0.5:
            for nd in ref.preorder(spec):
                if nd[3] and rng.random() < 0.6:
                    nd[1] = str(rng.randint(1, n + 1))
        doc = {"ns": list(p), "trees": [{"spec": spec, "rooted": rng.choice([None, True, False])}]}
        if schema != "newick" and rng.random() < 0.4:
            doc["ns"] = doc["ns"] + ["x%d" % n, str(n + 5)]
        if rng.random() < 0.4:
            names2 = list(q)
            rng.shuffle(names2)
            sp2 = gen.shape_to_spec(rng.choice(shapes), names2)
            doc["trees"].append({"spec": sp2, "rooted": None})
        if U.doc_fits(doc, schema, pair):
            evaluate(ctx, doc, schema, pair, "list" if len(doc["trees"]) != 1 or rng.random() < 0.3 else "tree")


LENGTH_STYLES = ("none", "all", "mixed", "sci", "ints", "zeros", "rootlen")


def put_lengths(spec, rng, style):
    def val():
        k = rng.random()
        if style == "ints":
            return rng.randint(0, 100000)
        if style == "zeros":
            return rng.choice([0, 0.0, 1, 0.5])
        if style == "sci" or k < 0.25:
            return rng.choice([1e-10, 1.5e+20, 2.5e-7, 1e22, 1e-5, 5e-324, 1.7976931348623157e+308,
                               rng.uniform(0, 1) * 10 ** rng.randint(-30, 30)])
        if k < 0.5:
            return rng.randint(0, 50)
        if k < 0.75:
            return rng.randint(1, 64) / 8.0
        return rng.uniform(0.0, 10.0)
    for n in ref.preorder(spec):
        is_root = n is spec
        if style == "none":
            n[2] = None
        elif is_root:
            n[2] = val() if (style == "rootlen" or rng.random() < 0.15) else None
        elif style == "mixed":
            n[2] = None if rng.random() < 0.3 else val()
        else:
            n[2] = val()
    return spec


def run_shape(ctx, case, rng):
    schema = case["schema"]
    shape = gen.all_shapes(case["n"])[case["idx"]]
    names = ["T%d" % i for i in range(case["n"])]
    base = gen.shape_to_spec(shape, names)
    variants = [base, gen.shuffle_children(base, rng), gen.insert_unary(base, rng, 0.4)]
    first = True
    for v in variants:
        for rooted in (None, True, False):
            for style in (("none", "all", "mixed", "sci") if schema != "nexml" else ("all", "sci", "rootlen", "mixed")):
                spec = put_lengths(ref.copy(v), rng, style)
                if rng.random() < 0.5:
                    for nd in ref.preorder(spec):
                        if nd[3] and rng.random() < 0.5:
                            nd[1] = "n%d" % rng.randint(0, 9)
                ns = names[:case["n"]]
                if schema != "newick":
                    rng.shuffle(ns)
                    if rng.random() < 0.5:
                        ns = ns + ["Zextra"]
                else:
                    ns = ref.leaf_taxa(spec)
                doc = {"ns": ns, "trees": [{"spec": spec, "rooted": rooted}]}
                pairs = ["default"]
                if rooted is True and schema != "nexml":
                    pairs.append("norooting/force-rooted")
                if rooted is False and schema != "nexml":
                    pairs.append("norooting/force-unrooted")
                for pair in pairs:
                    evaluate(ctx, doc, schema, pair, "tree", sample=(first and case["n"] == 3))
                    first = False
                evaluate(ctx, doc, schema, "default", "list")


def random_doc(rng, tier, schema):
    big = tier != "quick"
    ntrees = rng.choice([0, 1, 1, 1, 2, 3, 5]) if schema != "newick" else rng.choice([1, 1, 1, 2, 3, 5])
    nleaf = rng.choice([1, 2, 3, 4, 6, 9, 14]) if not big else rng.choice([1, 2, 3, 5, 8, 13, 25, 60])
    label_mode = rng.choice(["plain", "plain", "mixed", "mixed", "hostile", "digits"])
    internal_taxa = rng.random() < 0.12
    pool = U.LabelPool()

    def new_label():
        for _ in range(200):
            if label_mode == "plain":
                s = U.random_label(rng, "plain")
            elif label_mode == "digits":
                s = U.random_label(rng, rng.choice(["digits", "digits", "plain"]))
            elif label_mode == "mixed":
                s = U.random_label(rng, rng.choice(["plain", "plain", "one", "spaces", "nonascii", "token"]))
            else:
                s = U.random_label(rng)
            if pool.add(s):
                return s
        return pool.fresh()
    names = [new_label() for _ in range(nleaf)]
    trees = []
    used = []
    for k in range(ntrees):
        m = nleaf if (k == 0 or rng.random() < 0.6) else rng.randint(1, nleaf)
        sub = rng.sample(names, m)
        spec = gen.random_spec(rng, m, p_poly=rng.choice([0, 0.3, 0.6]), p_unary=rng.choice([0, 0, 0.15]),
                               names=sub, shape=rng.choice([None, None, None, "caterpillar", "star", "balanced"]))
        style = rng.choice(LENGTH_STYLES)
        if schema == "nexml" and rng.random() < 0.7:
            style = rng.choice(("all", "sci", "ints", "zeros", "rootlen"))
        put_lengths(spec, rng, style)
        if internal_taxa:
            for nd in ref.preorder(spec):
                if nd[3] and rng.random() < 0.5:
                    nd[0] = new_label()
                if nd[3] and schema == "nexml" and rng.random() < 0.3:
                    nd[1] = U.random_label(rng)      # NeXML keeps taxon and node label apart
        elif rng.random() < 0.5:
            lm = rng.random()
            for nd in ref.preorder(spec):
                if nd[3] and rng.random() < 0.5:
                    if lm < 0.4:
                        nd[1] = str(rng.choice([50, 75, 100, 0.95, 1]))
                    elif lm < 0.7:
                        nd[1] = U.random_label(rng, "plain")
                    else:
                        nd[1] = U.random_label(rng)
        if rng.random() < 0.03:
            lv = ref.leaves(spec)
            if len(lv) > 1:
                rng.choice(lv)[0] = None
        for nd in ref.preorder(spec):
            if nd[0] is not None and nd[0] not in used:
                used.append(nd[0])
        trees.append({"spec": spec, "rooted": rng.choice([None, True, False]),
                      "weight": rng.choice([None, 1.0, 0.5, 0.25, 2, 1e-5, 3.75])})
    if rng.random() < 0.3 and trees:
        r = rng.choice([True, False])
        for t in trees:
            t["rooted"] = r
    if schema == "newick":
        ns = used
    else:
        ns = used[:]
        for s in names:
            if s not in ns:
                ns.append(s)
        for _ in range(rng.choice([0, 0, 1, 3])):
            ns.append(new_label())
        if rng.random() < 0.6:
            rng.shuffle(ns)
    doc = {"ns": ns, "trees": trees}
    if schema != "newick" and rng.random() < 0.2:
        doc["ns_removed"] = [[rng.randint(0, len(ns)), new_label()] for _ in range(rng.randint(1, 3))]
    if schema != "newick" and rng.random() < 0.15:
        doc["ns_reversed"] = True
    return doc


def run_random(ctx, case, rng):
    schema = rng.choice(("newick", "newick", "nexus", "nexus", "nexml"))
    doc = random_doc(rng, ctx.tier, schema)
    fits = [p for p in U.PAIRS if U.doc_fits(doc, schema, p)]
    if not fits:
        ctx.note("random-doc-fits-no-pair")
        return
    rng.shuffle(fits)
    for pair in fits[:2]:
        if pair != "weights":
            d = dict(doc, trees=[dict(t, weight=None) for t in doc["trees"]])
        else:
            d = doc
        api = "tree" if (len(doc["trees"]) == 1 and rng.random() < 0.6) else "list"
        evaluate(ctx, d, schema, pair, api, sample=(case["i"] < 2))


def run_case(case, ctx):
    rng = random.Random("%s/%s" % (case.get("seed", 0), sorted(case.items())))
    with Hooks(ctx) as hooks:
        install_hooks(ctx, hooks)
        TRACE.reset(False)
        kind = case["kind"]
        if kind == "directed":
            run_directed(ctx, case["name"])
        elif kind == "char":
            run_char(ctx, case)
        elif kind == "token":
            run_token(ctx, case)
        elif kind == "digits":
            run_digits(ctx, case, rng)
        elif kind == "shape":
            run_shape(ctx, case, rng)
        elif kind == "random":
            run_random(ctx, case, rng)
        else:
            raise core.HarnessBug("unknown case kind %r" % kind)
