"""Private helpers of the C02 check (tree write/read round trip).

Nothing in here parses or renders a tree format itself: documents ("docs") are
DendroPy-free descriptions, the *library* writes and re-reads them, and the
comparison is done on specs extracted from the raw child lists.

doc := {"ns": [label, ...],                      namespace labels in order
        "trees": [{"spec": spec, "rooted": None|True|False, "weight": None|number}, ...]}
spec := [taxon_label|None, node_label|None, length|None, [children]]   (vf.ref)
"""
import unicodedata

from .. import ref, bridge, core

SCHEMAS = ("newick", "nexus", "nexml")

# ---------------------------------------------------------------------------------------
# label grammar
PLAIN = "abcXYZ019"
# every character DESIGN lists + the rest of ASCII punctuation
SPECIALS = "()[]{}\\/,;:=*'\"`+-<>#&%_ \t!?@^|~.$"
NONASCII = "éßαж中"      # e-acute, sharp s (Latin-1); alpha, zhe, CJK (outside Latin-1)

CHAR_NAMES = {
    "(": "lparen", ")": "rparen", "[": "lbracket", "]": "rbracket", "{": "lbrace", "}": "rbrace",
    "\\": "backslash", "/": "slash", ",": "comma", ";": "semicolon", ":": "colon", "=": "equals",
    "*": "asterisk", "'": "single-quote", '"': "double-quote", "`": "backtick", "+": "plus", "-": "hyphen",
    "<": "less-than", ">": "greater-than", "#": "hash", "&": "ampersand", "%": "percent", "_": "underscore",
    " ": "space", "\t": "tab", "!": "exclamation", "?": "question", "@": "at", "^": "caret", "|": "pipe",
    "~": "tilde", ".": "dot", "$": "dollar",
}


def char_name(c):
    """stable name of a character *class* (all non-ASCII letters of one range share a name)."""
    if c in CHAR_NAMES:
        return CHAR_NAMES[c]
    if ord(c) < 128:
        if c.isdigit():
            return "digit"
        if c.isalpha():
            return "letter"
        return "U+%04X" % ord(c)
    if ord(c) < 256:
        return "non-ascii-latin1-letter"
    return "non-ascii-letter"


def is_special(c):
    return not (ord(c) < 128 and c.isalnum())


def label_ok(s):
    """the label grammar of the property statement."""
    if not isinstance(s, str) or not s or s.strip() != s:
        return False
    for c in s:
        if c == "\t":
            continue
        if ord(c) < 128:
            if not (32 <= ord(c) < 127):
                return False
        elif not unicodedata.category(c).startswith("L"):
            return False
    return True


def case_keys(s):
    return (s.lower(), s.upper(), s.casefold())


class LabelPool(object):
    """hands out labels that are pairwise distinct up to letter case (under lower(),
    upper() and casefold(), whichever the library may use)."""

    def __init__(self):
        self.seen = set()
        self.labels = []

    def fits(self, s):
        return label_ok(s) and not any(k in self.seen for k in case_keys(s))

    def add(self, s):
        if not self.fits(s):
            return False
        self.seen.update(case_keys(s))
        self.labels.append(s)
        return True

    def fresh(self, stem="q"):
        i = len(self.labels)
        while True:
            s = "%s%d" % (stem, i)
            if self.add(s):
                return s
            i += 1


TOKENLIKE = [
    "[&R]", "[&U]", "&R", "&U", "[&W 1/2]", "e-5", "1e3", "1E3", "1.5e+20", "-1", "+1", "0", "1", "2", "3", "00", "007",
    "1.0", ".5", "#NEXUS", "BEGIN", "END", "ENDBLOCK", "TREES", "TREE", "TRANSLATE", "TAXA", "TAXLABELS", "TITLE",
    "LINK", "DIMENSIONS", "NTAX", "NTAX=2", "UTREE", "''", "'a'", "a''b", "'", "_", "__", "_a", "a_", "a__b", "a _b",
    "a_ b", "a  b", "a b", "a_b", "None", "nan", "inf", "[", "]", "[]", "a[b]c", "a]b", "[a", "(a,b)", "(a,b);", "a:1",
    ":1", ";", ".", "..", "*", "/", "//", "\\", "\\\\", "=", "==", "a=b", "a\\b", "a\\", "\\n", "\"", "\"a\"", "a\"b",
    "<a>", "a&amp;b", "&amp;", "&#9;", "&", "<", ">", "a<b", "</otu>", "<!--", "-->", "]]>", "\\u00e9", "\\t", "%s", "{}",
    "{0}", "a\tb", "a \tb", "x" * 60, "a" + " " * 5 + "b", "é", "ß", "αж", "中中", "aé b_c",
]
TOKENLIKE = [s for s in TOKENLIKE if label_ok(s)]


def random_label(rng, style=None):
    style = style or rng.choice(("plain", "plain", "one", "one", "heavy", "token", "digits", "spaces", "nonascii"))
    for _ in range(50):
        if style == "plain":
            s = "".join(rng.choice(PLAIN + "defgh") for _ in range(rng.randint(1, 6)))
        elif style == "one":
            c = rng.choice(SPECIALS + NONASCII)
            a = "".join(rng.choice(PLAIN) for _ in range(rng.randint(0, 3)))
            b = "".join(rng.choice(PLAIN) for _ in range(rng.randint(0, 3)))
            s = a + c + b
        elif style == "heavy":
            s = "".join(rng.choice(PLAIN + SPECIALS + NONASCII) for _ in range(rng.randint(1, 8)))
        elif style == "token":
            s = rng.choice(TOKENLIKE)
        elif style == "digits":
            s = str(rng.randint(0, 12))
        elif style == "spaces":
            parts = ["".join(rng.choice(PLAIN) for _ in range(rng.randint(1, 3))) for _ in range(rng.randint(2, 4))]
            s = parts[0]
            for p in parts[1:]:
                s += rng.choice((" ", "_", "  ", "__", " _", "_ ", "\t", "'", " ' ")) + p
        else:
            s = "".join(rng.choice(PLAIN + NONASCII * 2) for _ in range(rng.randint(1, 5)))
        if label_ok(s):
            return s
    return "q"


# ---------------------------------------------------------------------------------------
# writer / reader option pairs ("matching reader options")
#   schemas: where the pair exists;  needs: constraint on the doc (see doc_fits)
PAIRS = {
    "default":      {"w": {}, "r": {}, "schemas": SCHEMAS},
    "uu+ps/pu":     {"w": {"unquoted_underscores": True, "preserve_spaces": True}, "r": {"preserve_underscores": True},
                     "schemas": ("newick", "nexus")},
    "ps/default":   {"w": {"preserve_spaces": True}, "r": {}, "schemas": ("newick", "nexus")},
    "uu/pu":        {"w": {"unquoted_underscores": True}, "r": {"preserve_underscores": True},
                     "schemas": ("newick", "nexus"), "needs": "no-space"},
    "translate":    {"w": {"translate_tree_taxa": True}, "r": {}, "schemas": ("nexus",)},
    "norooting/force-rooted":   {"w": {"suppress_rooting": True}, "r": {"rooting": "force-rooted"},
                                 "schemas": ("newick", "nexus"), "needs": "all-rooted"},
    "norooting/force-unrooted": {"w": {"suppress_rooting": True}, "r": {"rooting": "force-unrooted"},
                                 "schemas": ("newick", "nexus"), "needs": "all-unrooted"},
    "weights":      {"w": {"store_tree_weights": True}, "r": {"store_tree_weights": True},
                     "schemas": ("newick", "nexus")},
    "internal-taxa": {"w": {}, "r": {"suppress_internal_node_taxa": False}, "schemas": ("newick", "nexus"), "itaxa": True},
    "translate+internal-taxa": {"w": {"translate_tree_taxa": True}, "r": {"suppress_internal_node_taxa": False},
                                "schemas": ("nexus",), "itaxa": True},
}
LABEL_PAIRS = ("default", "uu+ps/pu", "ps/default", "uu/pu", "translate")


def all_labels(doc):
    out = list(doc["ns"])
    for t in doc["trees"]:
        for n in ref.preorder(t["spec"]):
            if n[0] is not None:
                out.append(n[0])
            if n[1] is not None:
                out.append(n[1])
    return out


def has_internal_taxa(doc):
    return any(n[0] is not None and n[3] for t in doc["trees"] for n in ref.preorder(t["spec"]))


def doc_fits(doc, schema, pair):
    """is (schema, option pair) a *consistent* way to write and re-read this doc?
    (pairs that cannot round-trip by construction are never generated)"""
    p = PAIRS[pair]
    if schema not in p["schemas"]:
        return False
    need = p.get("needs")
    if need == "no-space" and any((" " in s) for s in all_labels(doc)):
        # unquoted_underscores without preserve_spaces: 'a b' and 'a_b' are one token
        return False
    if need == "all-rooted" and not (doc["trees"] and all(t["rooted"] is True for t in doc["trees"])):
        return False
    if need == "all-unrooted" and not (doc["trees"] and all(t["rooted"] is False for t in doc["trees"])):
        return False
    if has_internal_taxa(doc):
        # Newick/NEXUS readers turn internal labels into node labels unless told otherwise
        if schema != "nexml" and not p.get("itaxa"):
            return False
    if p.get("itaxa"):
        # with internal labels read as taxa, an internal *node label* has no representation of its own
        if any(n[1] is not None for t in doc["trees"] for n in ref.preorder(t["spec"])):
            return False
    if schema == "newick":
        if not doc["trees"]:
            return False             # an empty Newick document has no representation of the namespace
        on_trees = set(n[0] for t in doc["trees"] for n in ref.preorder(t["spec"]) if n[0] is not None)
        if set(doc["ns"]) != on_trees:
            return False             # Newick cannot carry taxa that are on no tree
    if schema != "nexml":
        # one Newick token per node: never a taxon *and* a node label on one node; no leaf node labels
        for t in doc["trees"]:
            for n in ref.preorder(t["spec"]):
                if n[1] is not None and (n[0] is not None or not n[3]):
                    return False
    else:
        for t in doc["trees"]:
            for n in ref.preorder(t["spec"]):
                if n[1] is not None and not n[3]:
                    return False
    return True


# ---------------------------------------------------------------------------------------
# running one round trip through the real library
class Outcome(object):
    __slots__ = ("phase", "exc", "text", "got", "ns", "log")

    def __init__(self):
        self.phase = None   # None | "write" | "read"  (where an exception came from)
        self.exc = None     # (mechanism key of the exception, brief text) -- never the exception object: a
                            # retained traceback keeps pyexpat / iterparse frames alive until interpreter exit
        self.text = None
        self.got = None     # [(spec, rooted, weight)]
        self.ns = None
        self.log = None


def build(doc):
    import dendropy
    # optional history of the namespace: members that were removed again (gaps in the accession
    # indexes) and a reversal after construction; doc["ns"] is always the FINAL label order
    removed = doc.get("ns_removed") or []
    labels = list(doc["ns"])
    for pos, lab in removed:
        labels.insert(min(pos, len(labels)), lab)
    if doc.get("ns_reversed"):
        labels.reverse()
    ns = dendropy.TaxonNamespace(labels)
    for pos, lab in removed:
        ns.remove_taxon_label(lab)
    if doc.get("ns_reversed"):
        ns.reverse()
    by_label = dict((t.label, t) for t in ns)
    trees = []
    for t in doc["trees"]:
        tr = bridge.build_tree(t["spec"], ns, t["rooted"], taxa_by_label=by_label)
        if t.get("weight") is not None:
            tr.weight = t["weight"]
        trees.append(tr)
    if [t.label for t in ns] != list(doc["ns"]):
        raise core.HarnessBug("doc namespace does not list every taxon used on its trees")
    return ns, trees


def _exc_summary(e):
    """(ExcClass|library function, brief).  For RecursionError the innermost frame is an accident of
    where the stack ran out, so the function that recurses (most frequent library frame) is named."""
    if isinstance(e, RecursionError):
        import collections
        import os
        cnt = collections.Counter()
        tb = e.__traceback__
        prefix = os.path.abspath(core.REPO_SRC) + os.sep
        while tb is not None:
            code = tb.tb_frame.f_code
            if code.co_filename.startswith(prefix):
                cnt[getattr(code, "co_qualname", code.co_name)] += 1
            tb = tb.tb_next
        fn = cnt.most_common(1)[0][0] if cnt else "<outside-library>"
        res = ("RecursionError|%s" % fn, core.exc_brief(e))
    else:
        res = (core.exc_key(e), core.exc_brief(e))
    e.__traceback__ = None
    return res


def roundtrip(doc, schema, pair, api):
    """api: 'tree' (Tree.as_string / Tree.get; one-tree docs) or 'list' (TreeList.*)."""
    import dendropy
    p = PAIRS[pair]
    out = Outcome()
    ns, trees = build(doc)
    try:
        if api == "tree":
            src = trees[0]
        else:
            src = dendropy.TreeList(trees, taxon_namespace=ns)
        out.text = src.as_string(schema, **p["w"])
    except core.CaseTimeout:
        raise
    except Exception as e:
        out.phase, out.exc = "write", _exc_summary(e)
        del e
        return out
    try:
        if api == "tree":
            got = dendropy.Tree.get(data=out.text, schema=schema, **p["r"])
            gl = [got]
            gns = got.taxon_namespace
        else:
            got = dendropy.TreeList.get(data=out.text, schema=schema, **p["r"])
            gl = list(got)
            gns = got.taxon_namespace
    except core.CaseTimeout:
        raise
    except Exception as e:
        out.phase, out.exc = "read", _exc_summary(e)
        del e
        return out
    out.got = []
    for g in gl:
        out.got.append((bridge.extract(g), g._is_rooted, getattr(g, "weight", None), g.taxon_namespace is gns))
    out.ns = [t.label for t in gns]
    return out


# ---------------------------------------------------------------------------------------
# the oracle: staged comparison, each failed clause named
def _shape(s):
    memo = {}
    for n in ref.postorder(s):
        memo[id(n)] = tuple(memo[id(c)] for c in n[3])
    return memo[id(s)]


def _canon_taxa(s):
    memo = {}
    for n in ref.postorder(s):
        memo[id(n)] = (n[0], tuple(sorted((memo[id(c)] for c in n[3]), key=repr)))
    return memo[id(s)]


def _len_class(x):
    if x is None:
        return "missing"
    if isinstance(x, int) or float(x) == int(x) and abs(x) < 1e15:
        return "zero" if x == 0 else "integer"
    r = repr(float(x))
    return "float-sci" if "e" in r else "float"


def compare(doc, schema, out, counters=None):
    """list of (clause, discriminator, detail) — empty when the round trip kept everything the
    statement lists.  Only NeXML gets the two allowed normalisations."""
    fails = []
    src = doc["trees"]
    if len(out.got) != len(src):
        fails.append(("tree-count-changed", "none-read" if not out.got else
                      ("fewer" if len(out.got) < len(src) else "more"),
                      {"source": len(src), "got": len(out.got)}))
        return fails
    for i, (t, (gs, grooted, gweight, same_ns)) in enumerate(zip(src, out.got)):
        ss = t["spec"]
        if counters is not None:
            counters["tree-compared"] += 1
        if not same_ns:
            fails.append(("tree-namespace-not-the-list's", "", {"tree": i}))
        # -- topology and child order
        if _shape(ss) != _shape(gs):
            if _canon_taxa(ss) == _canon_taxa(gs):
                fails.append(("child-order-changed", "", {"tree": i, "source": ref.to_newick(ss), "got": ref.to_newick(gs)}))
            else:
                ns_, ng_ = ref.n_nodes(ss), ref.n_nodes(gs)
                fails.append(("topology-changed", "fewer-nodes" if ng_ < ns_ else "more-nodes" if ng_ > ns_ else "same-node-count",
                              {"tree": i, "source": ref.to_newick(ss), "got": ref.to_newick(gs)}))
            continue
        # -- same shape, but are the taxa where they were?  siblings swapped among themselves keep the
        #    ordered shape; that is a child-order failure, not a label failure
        if ([n[0] for n in ref.preorder(ss)] != [n[0] for n in ref.preorder(gs)]
                and _canon_taxa(ss) == _canon_taxa(gs)):
            fails.append(("child-order-changed", "", {"tree": i, "source": ref.to_newick(ss), "got": ref.to_newick(gs)}))
            continue
        # -- node by node (same shape => parallel pre-order)
        first = {}
        for a, b in zip(ref.preorder(ss), ref.preorder(gs)):
            is_root = a is ss
            if counters is not None:
                counters["node-compared"] += 1
            if a[0] != b[0] and "taxon" not in first:
                role = "leaf" if not a[3] else "internal"
                kind = ("lost" if b[0] is None else "gained" if a[0] is None else "changed")
                first["taxon"] = ("taxon-%s" % kind, role, {"tree": i, "source": a[0], "got": b[0],
                                                            "got_node_label": b[1]})
            if a[3] and a[1] != b[1] and "label" not in first:
                kind = ("lost" if b[1] is None else "gained" if a[1] is None else "changed")
                first["label"] = ("node-label-%s" % kind, "root" if is_root else "internal",
                                  {"tree": i, "source": a[1], "got": b[1], "got_taxon": b[0]})
            if (not a[3]) and b[1] is not None and a[1] is None and a[0] == b[0] and "leaflabel" not in first:
                first["leaflabel"] = ("leaf-node-label-gained", "", {"tree": i, "taxon": a[0], "got": b[1]})
            la, lb = a[2], b[2]
            ok = (la == lb) if (la is not None and lb is not None) else (la is None and lb is None)
            if not ok and schema == "nexml" and is_root and la is None and lb == 0:
                ok = True           # allowed: NeXML renders a missing root-edge length as 0
            if not ok and "length" not in first:
                first["length"] = ("length-changed", "%s->%s|%s" % (
                    _len_class(la), "missing" if lb is None else ("zero" if lb == 0 else "value"),
                    "root-edge" if is_root else "non-root-edge"),
                    {"tree": i, "source": la, "got": lb, "node": a[0] or a[1]})
        fails.extend(first.values())
        # -- rooting
        sr = t["rooted"]
        ok = (sr is grooted) if isinstance(grooted, (bool, type(None))) else False
        if not ok and schema == "nexml" and sr is None and grooted is False:
            ok = True               # allowed: NeXML renders an undefined rooting state as unrooted
        if not ok:
            fails.append(("rooting-changed", "%s->%s" % (sr, grooted), {"tree": i}))
    # -- namespace
    want, got = list(doc["ns"]), list(out.ns)
    if schema == "newick":
        okns = sorted(want) == sorted(got)
    else:
        okns = want == got
    if not okns:
        if sorted(want) == sorted(got):
            d = "order"
        elif len(got) < len(want):
            d = "fewer-labels"
        elif len(got) > len(want):
            d = "more-labels"
        else:
            d = "label-changed"
        fails.append(("namespace-changed", d, {"source": want, "got": got}))
    return fails


CLAUSE_ORDER = ("write-error", "reread-parse-error", "tree-count-changed", "topology-changed", "child-order-changed",
                "taxon-changed", "taxon-lost", "taxon-gained", "node-label-changed", "node-label-lost",
                "node-label-gained", "leaf-node-label-gained", "length-changed", "rooting-changed",
                "namespace-changed", "tree-namespace-not-the-list's")


def exc_fail(out):
    clause = "write-error" if out.phase == "write" else "reread-parse-error"
    return (clause, out.exc[0], {"exception": out.exc[1]})


def judge(doc, schema, pair, api, counters=None):
    """-> (fails, outcome)"""
    out = roundtrip(doc, schema, pair, api)
    if out.exc is not None:
        return [exc_fail(out)], out
    return compare(doc, schema, out, counters), out


# ---------------------------------------------------------------------------------------
# minimal probes: which label, which character, which position breaks?
def probe_docs(label, role):
    """small docs with all non-root lengths present in which `label` is the only unusual string"""
    S = ref.S
    if role == "taxon":
        return [
            {"ns": [label, "zq"], "trees": [{"spec": S(None, [S(label, length=1.0), S("zq", length=2.0)]), "rooted": None}]},
            {"ns": ["zq", label, "zr"], "trees": [{"spec": S(None, [S("zq", length=1.0), S(None, [S("zr", length=1.0),
                                                   S(label, length=1.0)], length=0.5)]), "rooted": True}]},
        ]
    if role == "node":
        return [
            {"ns": ["za", "zb", "zq"], "trees": [{"spec": S(None, [S(None, [S("za", length=1.0), S("zb", length=1.0)],
                                                  length=1.0, label=label), S("zq", length=2.0)]), "rooted": None}]},
            {"ns": ["za", "zb"], "trees": [{"spec": S(None, [S("za", length=1.0), S("zb", length=1.0)], label=label),
                                            "rooted": False}]},
        ]
    if role == "itaxon":
        return [
            {"ns": ["za", "zb", "zq", label], "trees": [{"spec": S(None, [S(label, [S("za", length=1.0), S("zb", length=1.0)],
                                                         length=1.0), S("zq", length=2.0)]), "rooted": None}]},
            {"ns": [label, "za", "zb"], "trees": [{"spec": S(label, [S("za", length=1.0), S("zb", length=1.0)]),
                                                   "rooted": True}]},
        ]
    raise ValueError(role)


_probe_cache = {}


CONTROL_LABEL = "zx"


def probe(label, role, schema, pair, counters=None):
    """-> first failed clause tuple (in CLAUSE_ORDER priority) or None, over the probe docs.
    A clause that also fails for the same document with a harmless label in place of `label` (the
    control) is not the label's doing and is ignored here (the caller reports it by clause)."""
    key = (label, role, schema, pair)
    if key in _probe_cache:
        return _probe_cache[key]
    found = []
    for k, doc in enumerate(probe_docs(label, role)):
        if not doc_fits(doc, schema, pair):
            continue
        if counters is not None:
            counters["probe-roundtrip"] += 1
        fails, out = judge(doc, schema, pair, "tree")
        if fails and label != CONTROL_LABEL:
            ckey = ("control", role, schema, pair, k)
            if ckey not in _probe_cache:
                cdoc = probe_docs(CONTROL_LABEL, role)[k]
                _probe_cache[ckey] = set((f[0], f[1]) for f in judge(cdoc, schema, pair, "tree")[0])
            fails = [f for f in fails if (f[0], f[1]) not in _probe_cache[ckey]]
        for f in fails:
            found.append((f, doc, out))
    res = None
    if found:
        found.sort(key=lambda x: (CLAUSE_ORDER.index(x[0][0]) if x[0][0] in CLAUSE_ORDER else 99))
        res = found[0]
    _probe_cache[key] = res
    return res


POSITIONS = (("alone", "%s"), ("first", "%sq"), ("middle", "q%sq"), ("last", "q%s"))


def char_culprits(label, role, schema, pair, counters=None):
    """For a label that fails on its own: which single characters fail on their own, and where.
    -> list of (char, "pos+pos", probe result)"""
    out = []
    seen = set()
    for c in label:
        if not is_special(c) or c in seen:
            continue
        seen.add(c)
        bad = []
        firstres = None
        for pname, fmt in POSITIONS:
            s = fmt % c
            if not label_ok(s):
                continue
            r = probe(s, role, schema, pair, counters)
            if r is not None:
                bad.append(pname)
                firstres = firstres or r
        if bad:
            allpos = [p for p, fmt in POSITIONS if label_ok(fmt % c)]
            out.append((c, "any-position" if bad == allpos else "+".join(bad), firstres))
    return out


def label_class(s):
    """coarse class of a label for keys of failures no single character explains."""
    if s.isdigit():
        return "digits-only"
    try:
        float(s)
        return "numeric-looking"
    except ValueError:
        pass
    if all(not is_special(c) for c in s):
        return "alphanumeric"
    return "with-special-characters"


def doc_features(doc):
    """degenerate features of a document ("" for an ordinary one)."""
    f = []
    if not doc["trees"]:
        f.append("empty-tree-list")
    if not doc["ns"]:
        f.append("empty-namespace")
    for t in doc["trees"]:
        s = t["spec"]
        if not s[3]:
            if s[0] is None:
                f.append("single-unlabelled-node-tree")
        elif any((not n[3]) and n[0] is None for n in ref.preorder(s)):
            f.append("taxonless-leaf")
        depth = 0
        stack = [(s, 0)]
        while stack:
            n, d = stack.pop()
            depth = max(depth, d)
            for c in n[3]:
                stack.append((c, d + 1))
        if depth >= 300:
            f.append("depth>=300")
    return "+".join(sorted(set(f)))


def fill_taxonless(doc):
    """copy of doc in which every taxonless leaf got a fresh taxon (None when there is none)."""
    pool = LabelPool()
    for l in all_labels(doc):
        pool.add(l)
    changed = [False]
    ns = list(doc["ns"])

    def conv(spec):
        memo = {}
        for n in ref.postorder(spec):
            tx = n[0]
            if tx is None and not n[3]:
                tx = pool.fresh("Fq")
                ns.append(tx)
                changed[0] = True
            memo[id(n)] = [tx, n[1], n[2], [memo[id(c)] for c in n[3]]]
        return memo[id(spec)]
    trees = [dict(t, spec=conv(t["spec"])) for t in doc["trees"]]
    if not changed[0]:
        return None
    return dict(doc, ns=ns, trees=trees)


def relabel(doc, mapping):
    """copy of doc with labels replaced (taxa and node labels)."""
    def conv(spec):      # iterative: deep trees
        memo = {}
        for n in ref.postorder(spec):
            memo[id(n)] = [mapping.get(n[0], n[0]) if n[0] is not None else None,
                           mapping.get(n[1], n[1]) if n[1] is not None else None, n[2],
                           [memo[id(c)] for c in n[3]]]
        return memo[id(spec)]
    return dict(doc, ns=[mapping.get(x, x) for x in doc["ns"]],
                trees=[dict(t, spec=conv(t["spec"])) for t in doc["trees"]])


def doc_text(doc):
    d = _doc_text(doc)
    for k in ("ns_removed", "ns_reversed"):
        if doc.get(k):
            d[k] = doc[k]
    return d


def _doc_text(doc):
    return {"ns": doc["ns"], "trees": [[ref.to_newick(t["spec"]), t["rooted"]] + ([t["weight"]] if t.get("weight") is not None else [])
                                       for t in doc["trees"]]}
