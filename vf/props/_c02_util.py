"""Private helpers of the C02 check (tree write/read round trip).

Nothing in here parses or renders a tree format itself: documents ("docs") are
DendroPy-free descriptions, the *library* writes and re-reads them, and the
comparison is done on specs extracted from the raw child lists.

doc := {"ns": [label, ...],                      namespace labels in order
        "trees": [{"spec": spec, "rooted": None|True|False, "weight": None|number, "label": None|tree label}, ...],
        optional "ns_label", "list_label" (labels of the TaxonNamespace / TreeList objects),
        optional "ns_removed", "ns_reversed" (history of the namespace, see build)}
spec := [taxon_label|None, node_label|None, length|None, [children]]   (vf.ref)

An evaluation is (doc, schema, option pair, api).  The option pair is a point of the PRODUCT of five
independent option axes (see AXES); the api names the write route, the read route and the history of the
objects (see _c02_routes).
"""
import itertools
import unicodedata

from .. import ref, bridge, core
from . import _c02_routes as R

SCHEMAS = ("newick", "nexus", "nexml")

# ---------------------------------------------------------------------------------------
# label grammar
PLAIN = "abcXYZ019"
# every character DESIGN lists + the rest of ASCII punctuation
SPECIALS = "()[]{}\\/,;:=*'\"`+-<>#&%_ \t!?@^|~.$"
# e-acute, sharp s (Latin-1); alpha, zhe, CJK (outside Latin-1); upper case E-acute, title case Dz-caron,
# I-with-dot (lower() is two code points), Deseret capital long I (astral plane)
NONASCII = "éßαж中É\u01c5\u0130\U00010400"

CHAR_NAMES = {
    "(": "lparen", ")": "rparen", "[": "lbracket", "]": "rbracket", "{": "lbrace", "}": "rbrace",
    "\\": "backslash", "/": "slash", ",": "comma", ";": "semicolon", ":": "colon", "=": "equals",
    "*": "asterisk", "'": "single-quote", '"': "double-quote", "`": "backtick", "+": "plus", "-": "hyphen",
    "<": "less-than", ">": "greater-than", "#": "hash", "&": "ampersand", "%": "percent", "_": "underscore",
    " ": "space", "\t": "tab", "!": "exclamation", "?": "question", "@": "at", "^": "caret", "|": "pipe",
    "~": "tilde", ".": "dot", "$": "dollar",
}


def char_name(c):
    """stable name of a character *class* (all non-ASCII letters of one range share a name)."""
    if c in CHAR_NAMES:
        return CHAR_NAMES[c]
    if ord(c) < 128:
        if c.isdigit():
            return "digit"
        if c.isalpha():
            return "letter"
        return "U+%04X" % ord(c)
    if ord(c) < 256:
        return "non-ascii-latin1-letter"
    return "non-ascii-letter"


def is_special(c):
    return not (ord(c) < 128 and c.isalnum())


def label_ok(s):
    """the label grammar of the property statement."""
    if not isinstance(s, str) or not s or s.strip() != s:
        return False
    for c in s:
        if c == "\t":
            continue
        if ord(c) < 128:
            if not (32 <= ord(c) < 127):
                return False
        elif not unicodedata.category(c).startswith("L"):
            return False
    return True


def case_keys(s):
    return (s.lower(), s.upper(), s.casefold())


class LabelPool(object):
    """hands out labels that are pairwise distinct up to letter case (under lower(),
    upper() and casefold(), whichever the library may use)."""

    def __init__(self):
        self.seen = set()
        self.labels = []

    def fits(self, s):
        return label_ok(s) and not any(k in self.seen for k in case_keys(s))

    def add(self, s):
        if not self.fits(s):
            return False
        self.seen.update(case_keys(s))
        self.labels.append(s)
        return True

    def fresh(self, stem="q"):
        i = len(self.labels)
        while True:
            s = "%s%d" % (stem, i)
            if self.add(s):
                return s
            i += 1


TOKENLIKE = [
    "[&R]", "[&U]", "&R", "&U", "[&W 1/2]", "e-5", "1e3", "1E3", "1.5e+20", "-1", "+1", "0", "1", "2", "3", "00", "007",
    "1.0", ".5", "#NEXUS", "BEGIN", "END", "ENDBLOCK", "TREES", "TREE", "TRANSLATE", "TAXA", "TAXLABELS", "TITLE",
    "LINK", "DIMENSIONS", "NTAX", "NTAX=2", "UTREE", "''", "'a'", "a''b", "'", "_", "__", "_a", "a_", "a__b", "a _b",
    "a_ b", "a  b", "a b", "a_b", "None", "nan", "inf", "[", "]", "[]", "a[b]c", "a]b", "[a", "(a,b)", "(a,b);", "a:1",
    ":1", ";", ".", "..", "*", "/", "//", "\\", "\\\\", "=", "==", "a=b", "a\\b", "a\\", "\\n", "\"", "\"a\"", "a\"b",
    "<a>", "a&amp;b", "&amp;", "&#9;", "&", "<", ">", "a<b", "</otu>", "<!--", "-->", "]]>", "\\u00e9", "\\t", "%s", "{}",
    "{0}", "a\tb", "a \tb", "x" * 60, "a" + " " * 5 + "b", "é", "ß", "αж", "中中", "aé b_c",
    # long labels (beyond any fixed-width field): with blanks / underscores / quotes, and non-ASCII
    "ab_c d'e" * 9, "éß" * 40, "É", "\u01c5x", "\u0130", "\U00010400\U00010400",
]
TOKENLIKE = [s for s in TOKENLIKE if label_ok(s)]


def random_label(rng, style=None):
    style = style or rng.choice(("plain", "plain", "one", "one", "heavy", "token", "digits", "spaces", "nonascii"))
    for _ in range(50):
        if style == "plain":
            s = "".join(rng.choice(PLAIN + "defgh") for _ in range(rng.randint(1, 6)))
        elif style == "one":
            c = rng.choice(SPECIALS + NONASCII)
            a = "".join(rng.choice(PLAIN) for _ in range(rng.randint(0, 3)))
            b = "".join(rng.choice(PLAIN) for _ in range(rng.randint(0, 3)))
            s = a + c + b
        elif style == "heavy":
            s = "".join(rng.choice(PLAIN + SPECIALS + NONASCII) for _ in range(rng.randint(1, 8)))
        elif style == "token":
            s = rng.choice(TOKENLIKE)
        elif style == "digits":
            s = str(rng.randint(0, 12))
        elif style == "spaces":
            parts = ["".join(rng.choice(PLAIN) for _ in range(rng.randint(1, 3))) for _ in range(rng.randint(2, 4))]
            s = parts[0]
            for p in parts[1:]:
                s += rng.choice((" ", "_", "  ", "__", " _", "_ ", "\t", "'", " ' ")) + p
        else:
            s = "".join(rng.choice(PLAIN + NONASCII * 2) for _ in range(rng.randint(1, 5)))
        if label_ok(s):
            return s
    return "q"


# ---------------------------------------------------------------------------------------
# writer / reader option pairs ("matching reader options"): the PRODUCT of five independent axes.
#   value := (name, writer options, reader options, needs of the doc, schemas where it exists)
TRANSLATE_DICT = "<dict {Taxon: token}>"      # placeholder: the dict is made from the live namespace (R.translate_dict)
NN = ("newick", "nexus")
AXES = (
    ("label", (
        ("default", {}, {}, (), SCHEMAS),
        ("ps/default", {"preserve_spaces": True}, {}, (), NN),
        ("uu+ps/pu", {"unquoted_underscores": True, "preserve_spaces": True}, {"preserve_underscores": True}, (), NN),
        # unquoted_underscores without preserve_spaces: 'a b' and 'a_b' are one token
        ("uu/pu", {"unquoted_underscores": True}, {"preserve_underscores": True}, ("no-space",), NN))),
    ("translate", (
        ("", {}, {}, (), SCHEMAS),
        ("translate", {"translate_tree_taxa": True}, {}, (), ("nexus",)),
        ("translate-dict", {"translate_tree_taxa": TRANSLATE_DICT}, {}, (), ("nexus",)))),
    ("rooting", (
        ("", {}, {}, (), SCHEMAS),
        ("norooting/force-rooted", {"suppress_rooting": True}, {"rooting": "force-rooted"}, ("all-rooted",), NN),
        ("norooting/force-unrooted", {"suppress_rooting": True}, {"rooting": "force-unrooted"}, ("all-unrooted",), NN),
        ("norooting/default-rooted", {"suppress_rooting": True}, {"rooting": "default-rooted"}, ("all-rooted",), NN),
        ("norooting/default-unrooted", {"suppress_rooting": True}, {"rooting": "default-unrooted"}, ("all-unrooted",), NN),
        # the rooting token is written: it must win over the reader's default
        ("default-rooted", {}, {"rooting": "default-rooted"}, ("all-defined",), NN),
        ("default-unrooted", {}, {"rooting": "default-unrooted"}, ("all-defined",), NN))),
    ("weights", (
        ("", {}, {}, (), SCHEMAS),
        ("weights", {"store_tree_weights": True}, {"store_tree_weights": True}, (), NN))),
    ("itaxa", (
        ("", {}, {}, (), SCHEMAS),
        ("internal-taxa", {}, {"suppress_internal_node_taxa": False}, (), NN))),
)
AXIS_NAMES = tuple(a for a, v in AXES)
AXIS_DEFAULT = tuple(v[0][0] for a, v in AXES)


def pair_name(values):
    parts = [v for v, d in zip(values, AXIS_DEFAULT) if v != d]
    return "+".join(parts) if parts else "default"


def _make_pairs():
    pairs = {}
    for combo in itertools.product(*[vals for a, vals in AXES]):
        w, r, needs = {}, {}, []
        schemas = set(SCHEMAS)
        for name, wo, ro, nd, sch in combo:
            w.update(wo)
            r.update(ro)
            needs.extend(nd)
            schemas &= set(sch)
        values = tuple(c[0] for c in combo)
        name = pair_name(values)
        if name in pairs:
            raise core.HarnessBug("ambiguous pair name %s" % name)
        pairs[name] = {"w": w, "r": r, "schemas": tuple(s for s in SCHEMAS if s in schemas), "needs": tuple(needs),
                       "itaxa": values[4] != "", "axes": values}
    return pairs


PAIRS = _make_pairs()
LABEL_VALUES = tuple(v[0] for v in AXES[0][1])
# pairs that decide how a LABEL is rendered: label options x translate
LABEL_PAIRS = tuple(pair_name((l, t, "", "", "")) for t in ("", "translate", "translate-dict") for l in LABEL_VALUES)


def with_axis(pair, axis, value):
    v = list(PAIRS[pair]["axes"])
    v[AXIS_NAMES.index(axis)] = value
    return pair_name(v)


def restrict(pair, axes):
    """pair with every axis NOT in `axes` reset to its default."""
    v = PAIRS[pair]["axes"]
    return pair_name([x if a in axes else d for x, a, d in zip(v, AXIS_NAMES, AXIS_DEFAULT)])


def nondefault_axes(pair):
    return [a for a, x, d in zip(AXIS_NAMES, PAIRS[pair]["axes"], AXIS_DEFAULT) if x != d]


def random_pair(rng, doc, schema, p_default=0.45):
    """a fitting point of the option product: every free axis independently keeps its default with
    probability p_default, otherwise takes one of its values that fit the doc (None: the doc fits nothing)."""
    out = []
    for (axis, vals), dflt in zip(AXES, AXIS_DEFAULT):
        cand = [v for v in vals if schema in v[4] and all(_need_ok(doc, n) for n in v[3])]
        if axis == "itaxa" and schema != "nexml":
            # decided by the doc, not free: internal taxa need it, internal node labels exclude it
            if has_internal_taxa(doc):
                cand = [v for v in cand if v[0] == "internal-taxa"]
            elif has_node_labels(doc):
                cand = [v for v in cand if v[0] == ""]
        elif rng.random() < p_default:
            cand = [v for v in cand if v[0] == dflt]
        if not cand:
            return None
        out.append(rng.choice(cand)[0])
    name = pair_name(out)
    return name if doc_fits(doc, schema, name) else None


def all_labels(doc):
    out = list(doc["ns"])
    for t in doc["trees"]:
        for n in ref.preorder(t["spec"]):
            if n[0] is not None:
                out.append(n[0])
            if n[1] is not None:
                out.append(n[1])
    return out


def has_internal_taxa(doc):
    return any(n[0] is not None and n[3] for t in doc["trees"] for n in ref.preorder(t["spec"]))


def has_node_labels(doc):
    return any(n[1] is not None for t in doc["trees"] for n in ref.preorder(t["spec"]))


def tree_labels(doc):
    return [t["label"] for t in doc["trees"] if t.get("label") is not None]


def _need_ok(doc, need):
    if need == "no-space":
        return not any((" " in s) for s in all_labels(doc))
    if need == "all-rooted":
        return bool(doc["trees"]) and all(t["rooted"] is True for t in doc["trees"])
    if need == "all-unrooted":
        return bool(doc["trees"]) and all(t["rooted"] is False for t in doc["trees"])
    if need == "all-defined":
        return bool(doc["trees"]) and all(t["rooted"] is not None for t in doc["trees"])
    raise ValueError(need)


def doc_fits(doc, schema, pair):
    """is (schema, option pair) a *consistent* way to write and re-read this doc?
    (pairs that cannot round-trip by construction are never generated)"""
    p = PAIRS[pair]
    if schema not in p["schemas"]:
        return False
    for need in p["needs"]:
        if not _need_ok(doc, need):
            return False
    if has_internal_taxa(doc):
        # Newick/NEXUS readers turn internal labels into node labels unless told otherwise
        if schema != "nexml" and not p.get("itaxa"):
            return False
    if p.get("itaxa"):
        # with internal labels read as taxa, an internal *node label* has no representation of its own
        if any(n[1] is not None for t in doc["trees"] for n in ref.preorder(t["spec"])):
            return False
    if schema == "newick":
        if not doc["trees"]:
            return False             # an empty Newick document has no representation of the namespace
        on_trees = set(n[0] for t in doc["trees"] for n in ref.preorder(t["spec"]) if n[0] is not None)
        if set(doc["ns"]) != on_trees:
            return False             # Newick cannot carry taxa that are on no tree
    if schema != "nexml":
        # one Newick token per node: never a taxon *and* a node label on one node; no leaf node labels
        for t in doc["trees"]:
            for n in ref.preorder(t["spec"]):
                if n[1] is not None and (n[0] is not None or not n[3]):
                    return False
    else:
        for t in doc["trees"]:
            for n in ref.preorder(t["spec"]):
                if n[1] is not None and not n[3]:
                    return False
    return True


# ---------------------------------------------------------------------------------------
# running one round trip through the real library
class Outcome(object):
    __slots__ = ("phase", "exc", "text", "got", "ns", "log", "expect", "extra", "strict_ns", "clause")

    def __init__(self):
        self.phase = None   # None | "write" | "read"  (where an exception came from)
        self.exc = None     # (mechanism key of the exception, brief text) -- never the exception object: a
                            # retained traceback keeps pyexpat / iterparse frames alive until interpreter exit
        self.clause = None  # clause name of the exception (write-error, reread-parse-error, ...)
        self.text = None
        self.got = None     # [(spec, rooted, weight, namespace is the list's, foreign taxa, tree label)]
        self.ns = None
        self.log = None
        self.expect = None  # the doc trees the delivered trees are compared with (read-twice: each twice)
        self.extra = []     # clauses observed by the route itself
        self.strict_ns = False   # the text was read into the source namespace (recorded for witnesses)


def build(doc):
    import dendropy
    # optional history of the namespace: members that were removed again (gaps in the accession
    # indexes) and a reversal after construction; doc["ns"] is always the FINAL label order
    removed = doc.get("ns_removed") or []
    labels = list(doc["ns"])
    for pos, lab in removed:
        labels.insert(min(pos, len(labels)), lab)
    if doc.get("ns_reversed"):
        labels.reverse()
    ns = dendropy.TaxonNamespace(labels, label=doc.get("ns_label"))
    for pos, lab in removed:
        ns.remove_taxon_label(lab)
    if doc.get("ns_reversed"):
        ns.reverse()
    by_label = dict((t.label, t) for t in ns)
    trees = []
    for t in doc["trees"]:
        tr = bridge.build_tree(t["spec"], ns, t["rooted"], taxa_by_label=by_label, label=t.get("label"))
        if t.get("weight") is not None:
            tr.weight = t["weight"]
        trees.append(tr)
    if [t.label for t in ns] != list(doc["ns"]):
        raise core.HarnessBug("doc namespace does not list every taxon used on its trees")
    return ns, trees


def _exc_summary(e):
    """(ExcClass|library function, brief).  For RecursionError the innermost frame is an accident of
    where the stack ran out, so the function that recurses (most frequent library frame) is named."""
    if isinstance(e, RecursionError):
        import collections
        import os
        cnt = collections.Counter()
        tb = e.__traceback__
        prefix = os.path.abspath(core.REPO_SRC) + os.sep
        while tb is not None:
            code = tb.tb_frame.f_code
            if code.co_filename.startswith(prefix):
                cnt[getattr(code, "co_qualname", code.co_name)] += 1
            tb = tb.tb_next
        fn = cnt.most_common(1)[0][0] if cnt else "<outside-library>"
        res = ("RecursionError|%s" % fn, core.exc_brief(e))
    else:
        res = (core.exc_key(e), core.exc_brief(e))
    e.__traceback__ = None
    return res


def writer_options(pair, ns, doc):
    w = dict(PAIRS[pair]["w"])
    if w.get("translate_tree_taxa") == TRANSLATE_DICT:
        w["translate_tree_taxa"] = R.translate_dict(ns, all_labels(doc) + tree_labels(doc))
    return w


def _snapshot(tree, nsids):
    spec, nodes = bridge.extract(tree, with_nodes=True)
    foreign = 0
    for s, nd in nodes:
        tx = nd.taxon
        if tx is not None and id(tx) not in nsids:
            foreign += 1
    return spec, foreign


def _flavour(doc, text_len=0):
    """deterministic choice between an entry point and its aliases (no random source in here)."""
    return (len(doc["ns"]) + sum(ref.n_nodes(t["spec"]) for t in doc["trees"])) % 3


def _phase(out, phase, clause, fn, limit=None):
    """run one phase of the round trip; an exception (or an exhausted step budget) becomes the outcome.
    -> (True, result) | (False, None)"""
    try:
        if limit is None:
            return True, fn()
        res, tripped = R.guarded(fn, limit)
        if tripped is None:
            return True, res
        out.phase = phase
        out.clause = "%s-step-budget-exceeded" % ("write" if phase == "write" else "reread")
        out.exc = (tripped.rsplit(":", 1)[0], "no result after %d loop iterations inside the library (at %s)" % (limit, tripped))
        return False, None
    except core.CaseTimeout:
        raise
    except Exception as e:
        out.phase, out.clause, out.exc = phase, clause, _exc_summary(e)
        del e
        return False, None


def roundtrip(doc, schema, pair, api="tree"):
    """one write + re-read through the real library; api: see _c02_routes."""
    import dendropy
    kind, variant = R.split(api)
    p = PAIRS[pair]
    out = Outcome()
    out.expect = doc["trees"]
    scratch = R.Scratch()
    try:
        # ---------------------------------------------------------------- the source objects and their history
        if variant == "relabelled":
            # built and written once under other labels, then renamed in place
            mapping, back = _alias_labels(doc)
            adoc = relabel(doc, mapping)
            ns, trees = build(dict(adoc, trees=[dict(t, label=None) for t in adoc["trees"]]))
        else:
            ns, trees = build(doc)
        if kind == "tree":
            src = trees[0]
            cls = dendropy.Tree
        else:
            src = dendropy.TreeList(trees, taxon_namespace=ns)
            src.label = doc.get("list_label")
            cls = dendropy.TreeList
        if variant == "relabelled":
            ok, _ = _phase(out, "write", "write-error", lambda: src.as_string(schema, **writer_options(pair, ns, doc)))
            if not ok:
                return out
            for tx in ns:
                tx.label = back.get(tx.label, tx.label)
            for tr, t in zip(trees, doc["trees"]):
                tr.label = t.get("label")
                for nd in tr.preorder_node_iter():
                    if nd.label is not None:
                        nd.label = back.get(nd.label, nd.label)
        elif variant.startswith("prewrite="):
            other = variant.split("=", 1)[1]
            ok, _ = _phase(out, "write", "write-error", lambda: src.as_string(schema, **writer_options(other, ns, doc)))
            if not ok:
                return out
        w = writer_options(pair, ns, doc)
        r = dict(p["r"])
        flav = _flavour(doc)
        nn = sum(ref.n_nodes(t["spec"]) for t in doc["trees"]) + len(doc["ns"])
        guarded = variant in R.FILE_VARIANTS
        # ---------------------------------------------------------------- write
        ok, res = _phase(out, "write", "write-error",
                         lambda: R.write(src, schema, w, variant, scratch, flav % 2, dendropy),
                         R.step_limit(nn, 0) if guarded else None)
        if not ok:
            return out
        out.text, path = res
        # ---------------------------------------------------------------- read
        before = None
        if variant == "read-append":
            before = [(id(t), ref.ordered(bridge.extract(t)), t._is_rooted) for t in src]
        ok, res = _phase(out, "read", "reread-parse-error",
                         lambda: R.read(cls, out.text, path, schema, r, variant, scratch, flav, dendropy,
                                        src_ns=ns, src_list=src if kind == "list" else None),
                         R.step_limit(nn, len(out.text)) if guarded else None)
        if not ok:
            return out
        gl, gns, out.extra, obj = res
        if variant in ("read-twice", "yield-files"):
            out.expect = list(doc["trees"]) + list(doc["trees"])
        if variant in ("src-ns", "read-append"):
            out.strict_ns = True
        if before is not None:
            after = [(id(t), ref.ordered(bridge.extract(t)), t._is_rooted) for t in list(src)[:len(before)]]
            if after != before:
                out.extra.append(("trees-already-in-the-list-changed", "", {}))
        # ---------------------------------------------------------------- second generation
        if variant == "rewrite":
            # the objects the READER delivered are written again with the same options and re-read
            w2 = writer_options(pair, gns, doc)
            ok, res = _phase(out, "write", "write-error", lambda: obj.as_string(schema, **w2))
            if not ok:
                return out
            out.text = res
            ok, res = _phase(out, "read", "reread-parse-error",
                             lambda: R.read(cls, out.text, None, schema, r, "", scratch, 0, dendropy))
            if not ok:
                return out
            gl, gns, extra2, obj = res
            out.extra = out.extra + extra2
        # ---------------------------------------------------------------- what came back
        nsids = set(id(t) for t in gns)
        out.got = []
        for g in gl:
            spec, foreign = _snapshot(g, nsids)
            out.got.append((spec, g._is_rooted, getattr(g, "weight", None), g.taxon_namespace is gns, foreign,
                            getattr(g, "label", None)))
        out.ns = [t.label for t in gns]
        return out
    finally:
        scratch.close()


def _alias_labels(doc):
    """(mapping label -> harmless alias, and back) over every label of the doc."""
    pool = LabelPool()
    for l in all_labels(doc):
        pool.add(l)
    mapping = {}
    for l in all_labels(doc):
        if l not in mapping:
            mapping[l] = pool.fresh("Al")
    return mapping, dict((v, k) for k, v in mapping.items())


# ---------------------------------------------------------------------------------------
# the oracle: staged comparison, each failed clause named
def _shape(s):
    memo = {}
    for n in ref.postorder(s):
        memo[id(n)] = tuple(memo[id(c)] for c in n[3])
    return memo[id(s)]


def _canon_taxa(s):
    memo = {}
    for n in ref.postorder(s):
        memo[id(n)] = (n[0], tuple(sorted((memo[id(c)] for c in n[3]), key=repr)))
    return memo[id(s)]


def _len_class(x):
    if x is None:
        return "missing"
    if isinstance(x, int) or float(x) == int(x) and abs(x) < 1e15:
        return "zero" if x == 0 else "integer"
    r = repr(float(x))
    return "float-sci" if "e" in r else "float"


def compare(doc, schema, out, counters=None):
    """list of (clause, discriminator, detail) — empty when the round trip kept everything the
    statement lists.  Only NeXML gets the two allowed normalisations."""
    fails = list(out.extra)
    src = out.expect if out.expect is not None else doc["trees"]
    if len(out.got) != len(src):
        fails.append(("tree-count-changed", "none-read" if not out.got else
                      ("fewer" if len(out.got) < len(src) else "more"),
                      {"source": len(src), "got": len(out.got)}))
        return fails
    for i, (t, (gs, grooted, gweight, same_ns, foreign, glabel)) in enumerate(zip(src, out.got)):
        ss = t["spec"]
        if counters is not None:
            counters["tree-compared"] += 1
        if not same_ns:
            fails.append(("tree-namespace-not-the-list's", "", {"tree": i}))
        if foreign:
            # "the same taxon on every node ... over a namespace": the Taxon objects on the nodes must be
            # members (by identity) of the namespace the tree says it is over
            fails.append(("taxon-not-in-namespace", "", {"tree": i, "nodes": foreign}))
        # -- topology and child order
        if _shape(ss) != _shape(gs):
            if _canon_taxa(ss) == _canon_taxa(gs):
                fails.append(("child-order-changed", "", {"tree": i, "source": ref.to_newick(ss), "got": ref.to_newick(gs)}))
            else:
                ns_, ng_ = ref.n_nodes(ss), ref.n_nodes(gs)
                fails.append(("topology-changed", "fewer-nodes" if ng_ < ns_ else "more-nodes" if ng_ > ns_ else "same-node-count",
                              {"tree": i, "source": ref.to_newick(ss), "got": ref.to_newick(gs)}))
            continue
        # -- same shape, but are the taxa where they were?  siblings swapped among themselves keep the
        #    ordered shape; that is a child-order failure, not a label failure
        if ([n[0] for n in ref.preorder(ss)] != [n[0] for n in ref.preorder(gs)]
                and _canon_taxa(ss) == _canon_taxa(gs)):
            fails.append(("child-order-changed", "", {"tree": i, "source": ref.to_newick(ss), "got": ref.to_newick(gs)}))
            continue
        # -- node by node (same shape => parallel pre-order)
        first = {}
        for a, b in zip(ref.preorder(ss), ref.preorder(gs)):
            is_root = a is ss
            if counters is not None:
                counters["node-compared"] += 1
            if a[0] != b[0] and "taxon" not in first:
                role = "leaf" if not a[3] else "internal"
                kind = ("lost" if b[0] is None else "gained" if a[0] is None else "changed")
                first["taxon"] = ("taxon-%s" % kind, role, {"tree": i, "source": a[0], "got": b[0],
                                                            "got_node_label": b[1]})
            if a[3] and a[1] != b[1] and "label" not in first:
                kind = ("lost" if b[1] is None else "gained" if a[1] is None else "changed")
                first["label"] = ("node-label-%s" % kind, "root" if is_root else "internal",
                                  {"tree": i, "source": a[1], "got": b[1], "got_taxon": b[0]})
            if (not a[3]) and b[1] is not None and a[1] is None and a[0] == b[0] and "leaflabel" not in first:
                first["leaflabel"] = ("leaf-node-label-gained", "", {"tree": i, "taxon": a[0], "got": b[1]})
            la, lb = a[2], b[2]
            ok = (la == lb) if (la is not None and lb is not None) else (la is None and lb is None)
            if not ok and schema == "nexml" and is_root and la is None and lb == 0:
                ok = True           # allowed: NeXML renders a missing root-edge length as 0
            if not ok and "length" not in first:
                first["length"] = ("length-changed", "%s->%s|%s" % (
                    _len_class(la), "missing" if lb is None else ("zero" if lb == 0 else "value"),
                    "root-edge" if is_root else "non-root-edge"),
                    {"tree": i, "source": la, "got": lb, "node": a[0] or a[1]})
        fails.extend(first.values())
        # -- rooting
        sr = t["rooted"]
        ok = (sr is grooted) if isinstance(grooted, (bool, type(None))) else False
        if not ok and schema == "nexml" and sr is None and grooted is False:
            ok = True               # allowed: NeXML renders an undefined rooting state as unrooted
        if not ok:
            fails.append(("rooting-changed", "%s->%s" % (sr, grooted), {"tree": i}))
    # -- namespace
    want, got = list(doc["ns"]), list(out.ns)
    if schema == "newick":
        # Newick carries no namespace order (also when the text is read into the source namespace: the
        # statement promises the order for NEXUS and NeXML only); duplicates and additions do count
        okns = sorted(want) == sorted(got)
    else:
        okns = want == got
    if not okns:
        if sorted(want) == sorted(got):
            d = "order"
        elif len(got) < len(want):
            d = "fewer-labels"
        elif len(got) > len(want):
            d = "more-labels"
        else:
            d = "label-changed"
        fails.append(("namespace-changed", d, {"source": want, "got": got}))
    return fails


CLAUSE_ORDER = ("write-error", "write-step-budget-exceeded", "reread-parse-error", "reread-step-budget-exceeded",
                "dataset-structure-changed", "namespace-not-the-given-one", "tree-count-changed", "topology-changed", "child-order-changed",
                "taxon-changed", "taxon-lost", "taxon-gained", "node-label-changed", "node-label-lost",
                "node-label-gained", "leaf-node-label-gained", "length-changed", "rooting-changed",
                "namespace-changed", "tree-namespace-not-the-list's", "taxon-not-in-namespace",
                "trees-already-in-the-list-changed")


def exc_fail(out):
    return (out.clause, out.exc[0], {"exception": out.exc[1]})


def judge(doc, schema, pair, api, counters=None):
    """-> (fails, outcome)"""
    out = roundtrip(doc, schema, pair, api)
    if out.exc is not None:
        return [exc_fail(out)], out
    return compare(doc, schema, out, counters), out


# ---------------------------------------------------------------------------------------
# minimal probes: which label, which character, which position breaks?
def probe_docs(label, role):
    """small docs with all non-root lengths present in which `label` is the only unusual string"""
    S = ref.S
    if role == "taxon":
        return [
            {"ns": [label, "zq"], "trees": [{"spec": S(None, [S(label, length=1.0), S("zq", length=2.0)]), "rooted": None}]},
            {"ns": ["zq", label, "zr"], "trees": [{"spec": S(None, [S("zq", length=1.0), S(None, [S("zr", length=1.0),
                                                   S(label, length=1.0)], length=0.5)]), "rooted": True}]},
        ]
    if role == "node":
        return [
            {"ns": ["za", "zb", "zq"], "trees": [{"spec": S(None, [S(None, [S("za", length=1.0), S("zb", length=1.0)],
                                                  length=1.0, label=label), S("zq", length=2.0)]), "rooted": None}]},
            {"ns": ["za", "zb"], "trees": [{"spec": S(None, [S("za", length=1.0), S("zb", length=1.0)], label=label),
                                            "rooted": False}]},
        ]
    if role == "itaxon":
        return [
            {"ns": ["za", "zb", "zq", label], "trees": [{"spec": S(None, [S(label, [S("za", length=1.0), S("zb", length=1.0)],
                                                         length=1.0), S("zq", length=2.0)]), "rooted": None}]},
            {"ns": [label, "za", "zb"], "trees": [{"spec": S(label, [S("za", length=1.0), S("zb", length=1.0)]),
                                                   "rooted": True}]},
        ]
    if role == "treelabel":
        # the label names a TREE (NEXUS tree name, NeXML label attribute): alone, and between two other trees
        two = lambda: S(None, [S("za", length=1.0), S("zb", length=1.0)])
        return [
            {"ns": ["za", "zb"], "trees": [{"spec": two(), "rooted": None, "label": label}]},
            {"ns": ["za", "zb"], "trees": [{"spec": two(), "rooted": True, "label": "zt"},
                                           {"spec": two(), "rooted": True, "label": label},
                                           {"spec": two(), "rooted": False}]},
        ]
    raise ValueError(role)


def api_for(doc):
    return "tree" if len(doc["trees"]) == 1 else "list"


_probe_cache = {}


CONTROL_LABEL = "zx"


def probe(label, role, schema, pair, counters=None):
    """-> first failed clause tuple (in CLAUSE_ORDER priority) or None, over the probe docs.
    A clause that also fails for the same document with a harmless label in place of `label` (the
    control) is not the label's doing and is ignored here (the caller reports it by clause)."""
    key = (label, role, schema, pair)
    if key in _probe_cache:
        return _probe_cache[key]
    found = []
    for k, doc in enumerate(probe_docs(label, role)):
        if not doc_fits(doc, schema, pair):
            continue
        if counters is not None:
            counters["probe-roundtrip"] += 1
        fails, out = judge(doc, schema, pair, api_for(doc))
        if fails and label != CONTROL_LABEL:
            ckey = ("control", role, schema, pair, k)
            if ckey not in _probe_cache:
                cdoc = probe_docs(CONTROL_LABEL, role)[k]
                _probe_cache[ckey] = set((f[0], f[1]) for f in judge(cdoc, schema, pair, api_for(cdoc))[0])
            fails = [f for f in fails if (f[0], f[1]) not in _probe_cache[ckey]]
        for f in fails:
            found.append((f, doc, out))
    res = None
    if found:
        found.sort(key=lambda x: (CLAUSE_ORDER.index(x[0][0]) if x[0][0] in CLAUSE_ORDER else 99))
        res = found[0]
    _probe_cache[key] = res
    return res


POSITIONS = (("alone", "%s"), ("first", "%sq"), ("middle", "q%sq"), ("last", "q%s"))


def char_culprits(label, role, schema, pair, counters=None):
    """For a label that fails on its own: which single characters fail on their own, and where.
    -> list of (char, "pos+pos", probe result)"""
    out = []
    seen = set()
    for c in label:
        if not is_special(c) or c in seen:
            continue
        seen.add(c)
        bad = []
        firstres = None
        for pname, fmt in POSITIONS:
            s = fmt % c
            if not label_ok(s):
                continue
            r = probe(s, role, schema, pair, counters)
            if r is not None:
                bad.append(pname)
                firstres = firstres or r
        if bad:
            allpos = [p for p, fmt in POSITIONS if label_ok(fmt % c)]
            out.append((c, "any-position" if bad == allpos else "+".join(bad), firstres))
    return out


def label_class(s):
    """coarse class of a label for keys of failures no single character explains."""
    if s.isdigit():
        return "digits-only"
    try:
        float(s)
        return "numeric-looking"
    except ValueError:
        pass
    if all(not is_special(c) for c in s):
        return "alphanumeric"
    return "with-special-characters"


def tree_features(t):
    f = []
    s = t["spec"]
    if not s[3]:
        if s[0] is None:
            f.append("single-unlabelled-node-tree")
    elif any((not n[3]) and n[0] is None for n in ref.preorder(s)):
        f.append("taxonless-leaf")
    depth = 0
    stack = [(s, 0)]
    while stack:
        n, d = stack.pop()
        depth = max(depth, d)
        for c in n[3]:
            stack.append((c, d + 1))
    if depth >= 300:
        f.append("depth>=300")
    return f


def doc_features(doc, fail=None):
    """degenerate features of a document ("" for an ordinary one).  For a failed clause that names a
    tree, only the features of THAT tree count; degenerate features of the other trees of the list are
    named as `other-tree:<feature>`, so that a wrong result for a healthy tree next to a degenerate one
    gets a key of its own."""
    f = []
    if not doc["trees"]:
        f.append("empty-tree-list")
    if not doc["ns"]:
        f.append("empty-namespace")
    which = fail[2].get("tree") if fail is not None else None
    ntrees = len(doc["trees"])
    for i, t in enumerate(doc["trees"]):
        tf = tree_features(t)
        if which is None or i == which % ntrees:
            f.extend(tf)
        else:
            f.extend("other-tree:" + x for x in tf)
    return "+".join(sorted(set(f)))


def fill_taxonless(doc):
    """copy of doc in which every taxonless leaf got a fresh taxon (None when there is none)."""
    pool = LabelPool()
    for l in all_labels(doc):
        pool.add(l)
    changed = [False]
    ns = list(doc["ns"])

    def conv(spec):
        memo = {}
        for n in ref.postorder(spec):
            tx = n[0]
            if tx is None and not n[3]:
                tx = pool.fresh("Fq")
                ns.append(tx)
                changed[0] = True
            memo[id(n)] = [tx, n[1], n[2], [memo[id(c)] for c in n[3]]]
        return memo[id(spec)]
    trees = [dict(t, spec=conv(t["spec"])) for t in doc["trees"]]
    if not changed[0]:
        return None
    return dict(doc, ns=ns, trees=trees)


def relabel(doc, mapping):
    """copy of doc with labels replaced (taxa and node labels)."""
    def conv(spec):      # iterative: deep trees
        memo = {}
        for n in ref.postorder(spec):
            memo[id(n)] = [mapping.get(n[0], n[0]) if n[0] is not None else None,
                           mapping.get(n[1], n[1]) if n[1] is not None else None, n[2],
                           [memo[id(c)] for c in n[3]]]
        return memo[id(spec)]
    return dict(doc, ns=[mapping.get(x, x) for x in doc["ns"]],
                trees=[dict(t, spec=conv(t["spec"]), label=mapping.get(t.get("label"), t.get("label")))
                       for t in doc["trees"]])


def without_tree_labels(doc):
    """copy of doc whose trees, list and namespace carry no label of their own (None: nothing to drop)."""
    if not (tree_labels(doc) or doc.get("list_label") or doc.get("ns_label")):
        return None
    d = dict(doc, trees=[dict(t, label=None) for t in doc["trees"]])
    d.pop("list_label", None)
    d.pop("ns_label", None)
    return d


def doc_text(doc):
    d = _doc_text(doc)
    for k in ("ns_removed", "ns_reversed", "ns_label", "list_label"):
        if doc.get(k):
            d[k] = doc[k]
    tl = [t.get("label") for t in doc["trees"]]
    if any(x is not None for x in tl):
        d["tree_labels"] = tl
    return d


def _doc_text(doc):
    return {"ns": doc["ns"], "trees": [[ref.to_newick(t["spec"]), t["rooted"]] + ([t["weight"]] if t.get("weight") is not None else [])
                                       for t in doc["trees"]]}
