"""Private helpers of the C08 check (DendroPy-free except for reading raw fields of live
nodes handed in by the caller).

 * snap()            raw-field snapshot of a live tree / node: spec + node identities + full signature
 * induced_prov()    induced subtree *with provenance* (which source node every surviving node is,
                     which source nodes were merged away as unary, which vanished); written
                     independently of vf.ref.induced and cross-checked against it at run time
 * filter_model()    lock-step model of the documented semantics of Tree.filter_leaf_nodes
 * brute_check()     brute-force validation of vf.ref.induced / vf.ref.leaf_paths from the
                     set-theoretic definition (restricted clades, summed lengths)
 * comparison helpers (per-name lengths with tolerance, unrooted form)
"""
import itertools
import math

from .. import ref


class SnapError(Exception):
    pass


def name_of(s):
    """unique name of a spec node in the C08 workloads: taxon name, else node label."""
    return s[0] if s[0] is not None else s[1]


class Snap(object):
    __slots__ = ("spec", "pairs", "by_name", "sig", "node_ids", "edge_ids", "live", "dup_names")


def snap(tree_or_node, names, limit=1000000):
    """names: {id(taxon): unique name}.  Reads _seed_node/_child_nodes/_parent_node/_edge only."""
    tree = None
    seed = getattr(tree_or_node, "_seed_node", None)
    if seed is None:
        seed = tree_or_node
    else:
        tree = tree_or_node
    s = Snap()
    seen = set()
    pairs = []
    sig = []
    by_name = {}
    dup = []

    def mk(nd):
        if id(nd) in seen:
            raise SnapError("node reached twice while walking child lists")
        seen.add(id(nd))
        if len(seen) > limit:
            raise SnapError("more than %d nodes" % limit)
        tx = getattr(nd, "taxon", None)
        txname = None
        if tx is not None:
            txname = names.get(id(tx))
            if txname is None:
                txname = "?%s" % (tx.label,)
        e = nd._edge
        sp = [txname, nd.label, e.length if e is not None else None, []]
        pairs.append((sp, nd))
        nm = name_of(sp)
        if nm in by_name:
            dup.append(nm)
        by_name[nm] = nd
        sig.append((id(nd), id(e), id(tx) if tx is not None else None, nd.label,
                    repr(e.length) if e is not None else None,
                    e.label if e is not None else None,
                    id(e._head_node) if e is not None else None,
                    tuple(id(c) for c in nd._child_nodes), id(nd._child_nodes),
                    id(nd._parent_node) if nd._parent_node is not None else None,
                    tuple(nd.__dict__)))
        return sp
    root = mk(seed)
    stack = [(seed, root)]
    while stack:
        nd, sp = stack.pop()
        kids = []
        for ch in nd._child_nodes:
            cs = mk(ch)
            sp[3].append(cs)
            kids.append((ch, cs))
        stack.extend(reversed(kids))
    s.spec = root
    s.pairs = pairs
    s.by_name = by_name
    s.dup_names = dup
    s.node_ids = set(id(nd) for _, nd in pairs)
    s.edge_ids = set(id(nd._edge) for _, nd in pairs)
    s.live = [nd for _, nd in pairs]          # keep the objects alive: ids stay unique
    head = ()
    if tree is not None:
        ns = tree.taxon_namespace
        head = (id(tree._seed_node), tree._is_rooted, tree.label, repr(tree.weight), id(ns),
                tuple(id(t) for t in ns), tuple(t.label for t in ns),
                id(tree.bipartition_encoding), len(tree.bipartition_encoding or ()))
    s.sig = (head, tuple(sig))
    return s


# --------------------------------------------------------------------------------------
def add_len(parent_len, child_len):
    """documented merge: the suppressed node's length is added to the child's (missing = nothing to add)."""
    if parent_len is None:
        return child_len
    if child_len is None:
        return parent_len
    return child_len + parent_len


def induced_prov(spec, excluded_ids, suppress):
    """spec restricted to the nodes that are not excluded (an excluded internal node takes its
    whole subtree with it; an internal node all of whose children vanish vanishes too).
    Returns (new_spec | None, prov {id(new node): source node}, merged [source nodes suppressed
    as unary], vanished [source nodes that are gone without being merged])."""
    memo = {}
    prov = {}
    merged = []
    for n in ref.postorder(spec):
        if id(n) in excluded_ids:
            memo[id(n)] = None
            continue
        if not n[3]:
            new = [n[0], n[1], n[2], []]
            memo[id(n)] = new
            prov[id(new)] = n
            continue
        kids = [memo[id(c)] for c in n[3] if memo[id(c)] is not None]
        if not kids:
            memo[id(n)] = None
        elif len(kids) == 1 and suppress:
            merged.append(n)
            k = kids[0]
            k[2] = add_len(n[2], k[2])
            memo[id(n)] = k
        else:
            new = [n[0], n[1], n[2], kids]
            memo[id(n)] = new
            prov[id(new)] = n
    root = memo[id(spec)]
    if root is None:
        return None, {}, merged, list(ref.preorder(spec))
    alive = set(id(prov[id(x)]) for x in ref.preorder(root))
    mg = set(id(m) for m in merged)
    pm = ref.parent_map(spec)
    on_path = set()           # source ancestors-or-self of the survivors
    for x in ref.preorder(root):
        n = prov[id(x)]
        while n is not None and id(n) not in on_path:
            on_path.add(id(n))
            n = pm[id(n)]
    reach_merged = []         # merged AND above a survivor (a unary chain below an excluded node just vanishes)
    vanished = []
    for n in ref.preorder(spec):
        if id(n) in alive:
            continue
        if id(n) in mg and id(n) in on_path:
            reach_merged.append(n)
        else:
            vanished.append(n)
    prov = dict((k, v) for k, v in prov.items() if id(v) in alive)
    return root, prov, reach_merged, vanished


def surviving_leaf_names(spec, excluded_ids):
    out = []
    stack = [spec]
    while stack:
        n = stack.pop()
        if id(n) in excluded_ids:
            continue
        if not n[3]:
            out.append(name_of(n))
        else:
            stack.extend(n[3])
    return out


def filter_model(spec, accept, recursive, suppress):
    """Model of the *documented* semantics of filter_leaf_nodes: remove every leaf for which
    the predicate is false; when recursive, repeat on the new leaf set until all leaves pass;
    then (optionally) suppress unary nodes.  accept(spec_node) -> bool.
    Returns (new spec | None when the seed itself would have to go, removed source nodes)."""
    s = ref.copy(spec)
    # keep provenance by position: copy() preserves pre-order
    src = dict((id(a), b) for a, b in zip(ref.preorder(s), ref.preorder(spec)))
    removed = []
    while True:
        pm = ref.parent_map(s)
        bad = [n for n in ref.leaves(s) if not accept(src[id(n)])]
        for n in bad:
            p = pm[id(n)]
            if p is None:
                return None, removed
            p[3] = [c for c in p[3] if c is not n]
            removed.append(src[id(n)])
        if not bad or not recursive:
            break
    if suppress:
        s = ref.suppress_unary(s)
    return s, removed


# --------------------------------------------------------------------------------------
def lens_by_name(spec):
    return dict((name_of(n), n[2]) for n in ref.preorder(spec))


def close(a, b, exact):
    if a is None or b is None:
        return a is None and b is None
    if exact:
        return a == b
    return math.isclose(a, b, rel_tol=1e-9, abs_tol=1e-12)


def unary_names(spec):
    return set(name_of(n) for n in ref.preorder(spec) if len(n[3]) == 1)


def pair_paths(spec, leaf_names=None):
    """{frozenset(a, b): length} through ref.leaf_paths (None counted as 0)."""
    lp = ref.leaf_paths(spec)
    return dict((frozenset(k), v[0]) for k, v in lp.items())


def naive_paths(spec):
    """brute force: for every pair of leaves, walk both root chains."""
    pm = ref.parent_map(spec)
    chains = {}
    for lf in ref.leaves(spec):
        ch = []
        n = lf
        while n is not None:
            ch.append(n)
            n = pm[id(n)]
        chains[name_of(lf)] = ch
    out = {}
    for a, b in itertools.combinations(sorted(chains), 2):
        ia = [id(x) for x in chains[a]]
        ib = [id(x) for x in chains[b]]
        common = set(ia) & set(ib)
        d = 0
        for x in chains[a]:
            if id(x) in common:
                break
            d += x[2] or 0
        for x in chains[b]:
            if id(x) in common:
                break
            d += x[2] or 0
        out[frozenset((a, b))] = d
    return out


def brute_check(spec, keep):
    """Validate ref.induced(spec, keep, True/False) and ref.leaf_paths from first principles.
    Every node of spec must carry a unique name.  Returns a list of problem strings."""
    probs = []
    keep = frozenset(keep)
    cl = ref.clades(spec)                      # [(node, frozenset of taxa)] post-order
    restr = [(n, c & keep) for n, c in cl if c & keep]
    pm = ref.parent_map(spec)
    # ---- suppress = True ----------------------------------------------------------------
    r = ref.induced(spec, keep, True)
    if r is None:
        return ["induced returned None for a non-empty keep set"]
    want_clades = frozenset(c for _, c in restr)
    got = ref.clades(r)
    if frozenset(c for _, c in got) != want_clades:
        probs.append("suppress=True: clade set is not the set of non-empty restrictions")
    if len(got) != len(want_clades):
        probs.append("suppress=True: %d nodes for %d distinct restricted clades" % (len(got), len(want_clades)))
    for n, c in got:
        same = [m for m, rc in restr if rc == c]           # post-order: deepest first
        lens = [m[2] for m in same if m[2] is not None]
        want_len = sum(lens) if lens else None
        if n[2] != want_len:
            probs.append("suppress=True: node %s has length %r, source chain sums to %r" % (sorted(c), n[2], want_len))
        if name_of(n) != name_of(same[0]):
            probs.append("suppress=True: node %s is named %r, deepest source node is %r" % (sorted(c), name_of(n), name_of(same[0])))
    if ref.leaf_taxa(r) != [t for t in ref.leaf_taxa(spec) if t in keep]:
        probs.append("suppress=True: leaf order not the source order restricted")
    np_src = naive_paths(spec)
    np_r = naive_paths(r)
    for k, v in np_r.items():
        if np_src[k] != v:
            probs.append("suppress=True: path %s is %r, source %r" % (sorted(k), v, np_src[k]))
    if pair_paths(r) != np_r:
        probs.append("ref.leaf_paths disagrees with the naive path walk")
    # ---- suppress = False ---------------------------------------------------------------
    r0 = ref.induced(spec, keep, False)
    got0 = dict((name_of(n), n) for n in ref.preorder(r0))
    want0 = dict((name_of(n), n) for n, _ in restr)
    if set(got0) != set(want0) or ref.n_nodes(r0) != len(want0):
        probs.append("suppress=False: surviving nodes are not exactly the nodes with a surviving leaf below")
    else:
        pm0 = ref.parent_map(r0)
        for nm, n in got0.items():
            if n[2] != want0[nm][2]:
                probs.append("suppress=False: length of %r changed" % nm)
            p = pm0[id(n)]
            ps = pm[id(want0[nm])]
            if (name_of(p) if p is not None else None) != (name_of(ps) if ps is not None and name_of(ps) in want0 else None):
                if not (p is None and want0[nm] is spec):
                    probs.append("suppress=False: parent of %r changed" % nm)
            if [name_of(c) for c in n[3]] != [name_of(c) for c in want0[nm][3] if name_of(c) in want0]:
                probs.append("suppress=False: child order of %r not preserved" % nm)
    # ---- the provenance variant agrees with ref.induced -----------------------------------
    excl = set(id(n) for n in ref.leaves(spec) if n[0] not in keep)
    for sup, rr in ((True, r), (False, r0)):
        mine, prov, merged, vanished = induced_prov(spec, excl, sup)
        if ref.ordered(mine) != ref.ordered(rr):
            probs.append("induced_prov(suppress=%s) differs from ref.induced" % sup)
        if len(prov) + len(merged) + len(vanished) != ref.n_nodes(spec):
            probs.append("induced_prov(suppress=%s): provenance does not partition the source nodes" % sup)
    return probs


# --------------------------------------------------------------------------------------
# input classes added after the audit: leaves without a taxon, truthiness of predicates,
# boundary edge lengths
# --------------------------------------------------------------------------------------
def leafview(spec):
    """The spec with every taxon-less leaf given its (unique) label as stand-in taxon, so that the
    leaf-taxon based oracles of vf.ref (clades, splits, paths, induced) see such leaves like any
    other leaf.  name_of() is unchanged by the view; idempotent; returns spec itself when there is
    nothing to do."""
    if all(n[0] is not None for n in ref.leaves(spec)):
        return spec
    s = ref.copy(spec)
    for n in ref.leaves(s):
        if n[0] is None:
            n[0] = n[1]
    return s


def taxonless_leaf_names(spec):
    return set(n[1] for n in ref.leaves(spec) if n[0] is None)


def internal_taxon_names(spec):
    return set(n[0] for n in ref.preorder(spec) if n[3] and n[0] is not None)


class _Thing(object):
    """a plain object: truthy by default."""


TRUTHY = (True, 1, "x", _Thing(), (0,), 2.5)
FALSY = (False, None, 0, "", (), 0.0)
N_COSTUMES = len(TRUTHY) * len(FALSY)


def costumed(fn, k):
    """fn (-> bool) dressed so that it answers with the k-th (truthy, falsy) pair of objects instead of
    True / False -- the `lambda nd: nd.taxon and ...` idiom.  k = 0 is the strict-bool predicate."""
    k %= N_COSTUMES
    if k == 0:
        return fn
    yes = TRUTHY[k % len(TRUTHY)]
    no = FALSY[k // len(TRUTHY)]

    def dressed(nd):
        return yes if fn(nd) else no
    return dressed


BOUNDARY_LENGTHS = (None, 0, 0.0, 1, 0.5, 2, None, 0)


def boundary_lengths(spec, rng):
    """every edge (the root's too): missing / int zero / float zero / int / dyadic float, so that a unary
    node of length 0 meets a child without length (and vice versa), 0.0 meets 0, ints meet floats."""
    for n in ref.preorder(spec):
        n[2] = rng.choice(BOUNDARY_LENGTHS)
    return spec


def float_lengths(spec):
    """copy with every length as float (agreement signatures: 1 and 1.0 are the same length)."""
    s = ref.copy(spec)
    for n in ref.preorder(s):
        if n[2] is not None:
            n[2] = float(n[2])
    return s


def parent_names(spec):
    out = {name_of(spec): None}
    for n in ref.preorder(spec):
        for c in n[3]:
            out[name_of(c)] = name_of(n)
    return out
