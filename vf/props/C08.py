"""C08  Pruning, retaining and extracting yield exactly the induced subtree.

Runtime monitoring of the real pruning / extraction API.  Hooks around every anchored entry
point take a raw-field snapshot of the source tree (spec + node identities + full signature)
when the call starts and again when it returns or raises; the driver states its *intent*
(which leaves are meant to survive, which flags were passed) and the monitor judges the
observed result against a DendroPy-free oracle.

Oracle clauses (each evaluation is counted with ctx.ev):
 (1) induced        result == vf.ref.induced(source spec, surviving leaves, suppress): same leaf set,
                    clades = non-empty restrictions, no unary node when suppression is on / every
                    unary node kept when it is declined, the *child* survives a merge (node names),
                    per-node lengths (merged lengths added, None = nothing to add).  ref.induced is
                    validated by brute force from the set-theoretic definition in the 'selfcheck'
                    cases and cross-checked against a second, provenance-tracking implementation
                    at every evaluation.
 (2) paths          path length between every pair of surviving leaves unchanged (vf.ref.leaf_paths
                    on source vs result; None counted as 0).
 (3) agreement      all API variants applied to the same (tree, subset, suppress) give the same tree.
 (4) source         extraction leaves the source untouched: full ordered signature incl. identities of
                    nodes, edges, child lists, taxa, namespace; result shares no node / edge / child list.
 (5) provenance     every node of an extracted tree carries `extraction_source` (or the requested
                    attribute name) pointing at *the* corresponding source node (same unique name).
 (6) removed        filter_leaf_nodes / prune_leaves_without_taxa: reported nodes vs id-set difference.
 (7) single         a single survivor is a lone leaf carrying the accumulated root-to-leaf length
                    (judged by (1); clauses 'length-not-accumulated' and '...:single-survivor').

Soundness limits actually implemented:
 * child order is compared order-free (canonical form); an order difference is only *noted*.
 * removed-nodes clause with suppression on: reported <= removed and removed - reported <= nodes that
   the model says became unary (plus, for unrooted trees with update_bipartitions=True, the root child
   that the bipartition update collapses); exact equality only with suppression off.
 * unrooted tree + update_bipartitions=True: the bipartition update collapses the basal bifurcation,
   so the result is compared as an *unrooted* tree (leaf set, split set, summed split lengths, leaf
   paths); lengths only when the source has no missing non-root length.
 * Node.extract_subtree on a non-root node whose top becomes unary raises ValueError (a TODO in the
   library); Tree-level statement, so this is noted, not judged.
 * label-based variants are judged by label semantics, object-based ones by Taxon identity
   (they are compared with each other only in worlds without duplicate labels); labels that differ
   only by case are not generated (namespace lookups are case-insensitive by default, the
   extract_*_labels wrappers match exactly; one fixed probe records the disagreement as a note).
 * every call keeps >= 1 leaf (quantifier); lengths are ints / dyadics (exact comparison) except the
   'float' pattern (1e-9 relative).
 * the taxa / labels argument is normally a re-iterable container (list, tuple, set, frozenset, dict keys,
   TaxonNamespace); one-shot iterators / generators -- allowed by the docstrings ("any iterable") -- are a
   separate workload whose violations carry the discriminator 'one-shot-iterable' (an exception caused by
   every leaf having been filtered out is folded into the same 'wrong-leaf-set' key).
 * bipartition encodings produced by update_bipartitions=True are not inspected (that is C01's oracle).

Violation keys: <api function>|<failed clause>|<discriminator>, discriminator = 'extraction' |
'update_bipartitions=<flag>' | 'one-shot-iterable'.
"""
import itertools
import random

from .. import ref, gen, bridge
from ..mon.hooks import Hooks
from ..mon import arbor
from . import _c08_util as U

PROP = "C08"
LEVEL = "exploration"
TECHNIQUE = "hooked API calls judged against an induced-subtree reference model"
RULE = ("cases = (every rooted shape with n<=5 (thorough: n<=6) x every non-empty leaf subset x suppress x "
        "update_bipartitions x every API variant) + random trees (polytomies, pre-existing unary nodes, "
        "missing lengths, duplicate labels, leaves without taxa) x biased subsets x node-filter predicates x "
        "argument containers; a case is non-trivial when at least one leaf is removed and at least one "
        "internal node survives or is merged; distinct = distinct (canonical source tree with lengths, "
        "surviving set, operation, flags)")
REACH = ["_tree:Tree.prune_taxa", "_tree:Tree.prune_taxa_with_labels", "_tree:Tree.retain_taxa",
         "_tree:Tree.retain_taxa_with_labels", "_tree:Tree.filter_leaf_nodes", "_tree:Tree.prune_subtree",
         "_tree:Tree.prune_leaves_without_taxa", "_tree:Tree.suppress_unifurcations",
         "_tree:Tree.extract_tree", "_tree:Tree.extract_tree_with_taxa", "_tree:Tree.extract_tree_with_taxa_labels",
         "_tree:Tree.extract_tree_without_taxa", "_tree:Tree.extract_tree_without_taxa_labels",
         "_node:Node.extract_subtree"]
MIN_EVENTS = {"oracle:induced-compared": (120000, 600000),
              "oracle:path-pairs-compared": (400000, 2500000),
              "oracle:agreement-compared": (120000, 500000),
              "oracle:source-untouched-compared": (35000, 200000),
              "oracle:extraction_source-compared": (190000, 1300000),
              "oracle:removed-nodes-compared": (20000, 80000),
              "oracle:single-survivor-compared": (25000, 100000),
              "oracle:selfcheck-brute-force": (1000, 1000),
              "hook:Tree.prune_taxa:return": (10000, 50000),
              "hook:Tree.prune_taxa_with_labels:return": (10000, 50000),
              "hook:Tree.retain_taxa:return": (10000, 50000),
              "hook:Tree.retain_taxa_with_labels:return": (10000, 50000),
              "hook:Tree.filter_leaf_nodes:return": (10000, 50000),
              "hook:Tree.prune_subtree:return": (10000, 50000),
              "hook:Tree.prune_leaves_without_taxa:return": (10000, 50000),
              "hook:Tree.extract_tree:return": (5000, 25000),
              "hook:Tree.extract_tree_with_taxa:return": (5000, 25000),
              "hook:Tree.extract_tree_with_taxa_labels:return": (5000, 25000),
              "hook:Tree.extract_tree_without_taxa:return": (5000, 25000),
              "hook:Tree.extract_tree_without_taxa_labels:return": (5000, 25000),
              "hook:Node.extract_subtree:return": (5000, 25000)}
ASSUMPTIONS = ["trees are built through the node API (Node.add_child) and read back from the raw child lists",
               "every node of a workload tree carries a unique name (leaf: taxon, internal: node label) so that "
               "'which node survives a merge' and extraction_source can be judged",
               "Taxon identity is the given notion of 'the same taxon'; label-based variants are judged by label",
               "a missing edge length contributes nothing to a merged length or to a path length"]
LEVEL_TEXT = "exhaustive small shapes x all subsets plus seeded random trees, real API under hooks"
LEVEL_NOTE = "held = no oracle clause failed on the executions listed; not a proof for larger trees"
CASE_TIMEOUT = 120

INPLACE = ("prune_taxa", "prune_taxa_with_labels", "retain_taxa", "retain_taxa_with_labels",
           "filter_leaf_nodes", "prune_nodes", "prune_subtree", "prune_leaves_without_taxa")
EXTRACT = ("extract_tree_with_taxa", "extract_tree_with_taxa_labels", "extract_tree_without_taxa",
           "extract_tree_without_taxa_labels", "extract_tree", "Node.extract_subtree")
LABEL_OPS = ("prune_taxa_with_labels", "retain_taxa_with_labels", "extract_tree_with_taxa_labels",
             "extract_tree_without_taxa_labels")
HOOKED_TREE = ("prune_taxa", "prune_taxa_with_labels", "retain_taxa", "retain_taxa_with_labels",
               "filter_leaf_nodes", "prune_nodes", "prune_subtree", "prune_leaves_without_taxa",
               "extract_tree", "extract_tree_with_taxa", "extract_tree_with_taxa_labels",
               "extract_tree_without_taxa", "extract_tree_without_taxa_labels")

# smallest witnesses of the defects confirmed on the pinned tree (always run first)
DIRECTED = [
    # extract_tree_with(out)_taxa(_labels) do not forward suppress_unifurcations (smallest: 2 leaves)
    {"name": "wrapper-ignores-suppress-2", "newick": "(A:2,B:4)r", "keep": ["A"],
     "sup": False, "upd": False, "rooted": True},
    {"name": "wrapper-ignores-suppress-4", "newick": "((A:1,B:2)ab:4,(C:8,D:16)cd:32)r", "keep": ["A", "C", "D"],
     "sup": False, "upd": False, "rooted": True},
    # in-place routes: update_bipartitions=True re-suppresses although suppression was declined
    {"name": "update-bipartitions-resuppresses-2", "newick": "(A:2,B:4)r", "keep": ["A"],
     "sup": False, "upd": True, "rooted": True},
    {"name": "update-bipartitions-resuppresses-4", "newick": "((A:1,B:2)ab:4,(C:8,D:16)cd:32)r", "keep": ["A", "C", "D"],
     "sup": False, "upd": True, "rooted": True},
    # taxa / labels handed over as a one-shot iterator (consumed by the first membership test)
    {"name": "one-shot-iterable", "newick": "((A:1,B:2)ab:4,(C:8,D:16)cd:32)r", "keep": ["A", "C", "D"],
     "sup": True, "upd": False, "rooted": True, "container": "iterator",
     "ops": ["retain_taxa", "extract_tree_with_taxa", "extract_tree_with_taxa_labels",
             "extract_tree_without_taxa", "extract_tree_without_taxa_labels", "prune_taxa",
             "prune_taxa_with_labels", "retain_taxa_with_labels"]},
    {"name": "single-survivor", "newick": "((A:1,B:2)ab:4,(C:8,D:16)cd:32)r:64", "keep": ["A"],
     "sup": True, "upd": False, "rooted": True},
    {"name": "root-left-with-one-child", "newick": "((A:1,B:2)ab:4,(C:8,D:16)cd:32)r", "keep": ["C", "D"],
     "sup": True, "upd": True, "rooted": False},
]


def cases(tier, seed):
    for i in range(len(DIRECTED)):
        yield {"kind": "directed", "i": i, "seed": seed}
    for n in (1, 2, 3, 4):
        yield {"kind": "selfcheck", "n": n, "seed": seed}
    yield {"kind": "containers", "i": 0, "seed": seed, "fixed": True}
    nmax = 5 if tier == "quick" else 6
    for n in range(1, nmax + 1):
        for idx in range(len(gen.all_shapes(n))):
            yield {"kind": "shape", "n": n, "idx": idx, "seed": seed}
    nrand = 700 if tier == "quick" else 8000
    for i in range(nrand):
        yield {"kind": "random", "i": i, "seed": seed}
    nflt = 250 if tier == "quick" else 3000
    for i in range(nflt):
        yield {"kind": "filters", "i": i, "seed": seed}
    ncont = 60 if tier == "quick" else 600
    for i in range(1, ncont):
        yield {"kind": "containers", "i": i, "seed": seed}
    ndup = 120 if tier == "quick" else 1500
    for i in range(ndup):
        yield {"kind": "duplabels", "i": i, "seed": seed}
    nsub = 120 if tier == "quick" else 1500
    for i in range(nsub):
        yield {"kind": "subnode", "i": i, "seed": seed}


# ======================================================================================
# worlds: a source spec + one namespace realisation; fresh live trees on demand
# ======================================================================================
def label_internal(spec):
    for k, n in enumerate(ref.preorder(spec)):
        if n[3]:
            n[1] = "i%d" % k
    return spec


def pow2_lengths(spec, root_length):
    """edge k gets 2**k: every subset sum is unique, so any mis-added length shows."""
    for k, n in enumerate(ref.preorder(spec)):
        n[2] = 1 << k
    if not root_length:
        spec[2] = None
    return spec


def parse_tiny_newick(s):
    """'((A:1,B:2)ab:4,C:8)r:16' -> spec (for the directed witnesses only)."""
    pos = [0]

    def node():
        kids = []
        if s[pos[0]] == "(":
            pos[0] += 1
            kids.append(node())
            while s[pos[0]] == ",":
                pos[0] += 1
                kids.append(node())
            assert s[pos[0]] == ")"
            pos[0] += 1
        j = pos[0]
        while j < len(s) and s[j] not in ",():":
            j += 1
        name = s[pos[0]:j] or None
        pos[0] = j
        ln = None
        if j < len(s) and s[j] == ":":
            k = j + 1
            while k < len(s) and s[k] not in ",()":
                k += 1
            ln = int(s[j + 1:k])
            pos[0] = k
        if kids:
            return ref.S(None, kids, ln, name)
        return ref.S(name, [], ln, None)
    return node()


class World(object):
    def __init__(self, spec, rooted, real_labels=None):
        import dendropy
        self.spec = spec
        self.rooted = rooted
        self.taxon_names = [n[0] for n in ref.preorder(spec) if n[0] is not None]
        self.ns = dendropy.TaxonNamespace()
        self.taxa = {}
        self.names = {}
        self.real = {}
        for nm in self.taxon_names:
            lbl = real_labels[nm] if real_labels else nm
            t = dendropy.Taxon(label=lbl)
            self.ns.add_taxon(t)
            self.taxa[nm] = t
            self.names[id(t)] = nm
            self.real[nm] = lbl
        self.leaf_names = [U.name_of(n) for n in ref.leaves(spec)]
        self.leaf_taxon_names = [n[0] for n in ref.leaves(spec) if n[0] is not None]
        self.has_unary = any(len(n[3]) == 1 for n in ref.preorder(spec))
        self.exact = all(n[2] is None or isinstance(n[2], int) or float(n[2] * 64).is_integer()
                         for n in ref.preorder(spec))
        self.all_lengths = ref.has_all_lengths(spec)

    def build(self):
        return bridge.build_tree(self.spec, self.ns, self.rooted, taxa_by_label=self.taxa)


CONTAINERS = ("list", "tuple", "set", "frozenset", "dictkeys")
ONESHOT = ("iterator", "generator")


def container(kind, items):
    items = list(items)
    if kind == "list":
        return items
    if kind == "tuple":
        return tuple(items)
    if kind == "set":
        return set(items)
    if kind == "frozenset":
        return frozenset(items)
    if kind == "dictkeys":
        return dict.fromkeys(items).keys()
    if kind == "iterator":
        return iter(items)
    if kind == "generator":
        return (x for x in items)
    if kind == "namespace":
        import dendropy
        ns = dendropy.TaxonNamespace()
        for t in items:
            ns.add_taxon(t)
        return ns
    raise ValueError(kind)


# ======================================================================================
# the monitor
# ======================================================================================
class Intent(object):
    """what the driver means the next hooked call(s) to do."""

    def __init__(self, op, world, tree, sup, upd, excluded, kind, **kw):
        self.op = op
        self.world = world
        self.tree = tree
        self.sup = sup
        self.upd = upd
        self.excluded = frozenset(excluded)     # names of source nodes that are filtered out
        self.kind = kind                        # 'inplace' | 'extract'
        self.container = kw.get("container", "list")
        self.attr = kw.get("attr", "extraction_source")
        self.subnode = kw.get("subnode")        # name of the non-root node extract_subtree is called on
        self.model = kw.get("model")            # None | ('filter', accept_names, recursive)
        self.judge_removed = kw.get("judge_removed", False)
        self.check_paths_fully = False
        self.before = None
        self.after = None
        self.results = []
        self.exc = None
        self.calls = 0


class Monitor(object):
    def __init__(self, ctx, hooks):
        import dendropy
        self.ctx = ctx
        self.intent = None
        for name in HOOKED_TREE:
            hooks.install(dendropy.Tree, name, pre=self._pre, post=self._post)
        hooks.install(dendropy.Node, "extract_subtree", pre=self._pre, post=self._post)

    # -- hook callbacks: snapshots at the call boundary ----------------------------------
    def _pre(self, obj, args, kw):
        it = self.intent
        if it is None:
            return None
        it.calls += 1
        if it.before is None:
            it.before = U.snap(it.tree, it.world.names)
        return it

    def _post(self, it, obj, args, kw, result, exc):
        if it is None:
            return
        try:
            it.after = U.snap(it.tree, it.world.names)
        except U.SnapError as e:
            it.after = e
        it.results.append(result)
        if exc is not None:
            it.exc = exc

    # -- driver interface ----------------------------------------------------------------
    def run(self, intent, thunk):
        """perform the call(s) under observation and judge; returns the canonical agreement
        signature of the result (None when the result was not obtained)."""
        self.intent = intent
        try:
            try:
                thunk()
            except Exception as e:     # reported below through intent.exc / ctx.unexpected
                if intent.exc is None:
                    intent.exc = e
        finally:
            self.intent = None
        return judge(self.ctx, intent)


def disc_of(it):
    if it.container in ONESHOT:
        return "one-shot-iterable"
    if it.kind == "extract":
        return "extraction"
    return "update_bipartitions=%s" % it.upd


def vio(ctx, it, clause, what, extra=None, disc=None):
    w = it.world
    detail = {"tree": ref.to_newick(it.before.spec) if it.before is not None else ref.to_newick(w.spec),
              "filtered_out": sorted(it.excluded), "suppress_unifurcations": it.sup,
              "update_bipartitions": it.upd, "rooted": w.rooted, "container": it.container}
    if it.subnode:
        detail["called_on_node"] = it.subnode
    if extra:
        detail.update(extra)
    key = "%s|%s|%s" % (it.op, clause, disc or disc_of(it))
    ctx.violation(key, "%s: %s" % (it.op, what), detail)
    return key


def expected_for(it, src_spec):
    """(expected spec, merged names, vanished names, surviving leaf names) from the reference model."""
    by_name = dict((U.name_of(n), n) for n in ref.preorder(src_spec))
    if it.model is not None:
        _, accept_names, recursive = it.model
        exp, removed = U.filter_model(src_spec, lambda n: U.name_of(n) in accept_names, recursive, it.sup)
        if exp is None:
            return None, set(), set(), []
        alive = set(U.name_of(n) for n in ref.preorder(exp))
        vanished = set(U.name_of(n) for n in removed)
        merged = set(by_name) - alive - vanished
        return exp, merged, vanished, [U.name_of(n) for n in ref.leaves(exp)]
    excl_ids = set(id(by_name[nm]) for nm in it.excluded if nm in by_name)
    keep = U.surviving_leaf_names(src_spec, excl_ids)
    exp = ref.induced(src_spec, [k for k in keep], it.sup)
    mine, prov, merged, vanished = U.induced_prov(src_spec, excl_ids, it.sup)
    if (exp is None) != (mine is None) or (exp is not None and ref.ordered(exp) != ref.ordered(mine)):
        raise AssertionError("vf.ref.induced and the provenance model disagree on %s / %s"
                             % (ref.to_newick(src_spec), sorted(it.excluded)))
    return exp, set(U.name_of(n) for n in merged), set(U.name_of(n) for n in vanished), keep


def lengths_differ(exp, got, exact):
    le, lg = U.lens_by_name(exp), U.lens_by_name(got)
    bad = [nm for nm in le if nm in lg and not U.close(le[nm], lg[nm], exact)]
    return bad


def paths_differ(a, b, exact, only=None):
    pa, pb = U.pair_paths(a), U.pair_paths(b)
    bad = []
    n = 0
    for k, v in pb.items():
        if k in pa:
            n += 1
            if not U.close(pa[k], v, exact):
                bad.append((sorted(k), pa[k], v))
    return n, bad


def compare_rooted(exp, got, sup, exact):
    """None when got is the expected tree, else (clause, explanation)."""
    le = sorted(map(str, (U.name_of(x) for x in ref.leaves(exp))))
    lg = sorted(map(str, (U.name_of(x) for x in ref.leaves(got))))
    if le != lg:
        if any(x[0] is None for x in ref.leaves(got)):
            return "wrong-leaf-set:taxonless-leaf-left", "leaves %s, expected %s" % (lg, le)
        return "wrong-leaf-set", "leaves %s, expected %s" % (lg, le)
    ue, ug = U.unary_names(exp), U.unary_names(got)
    if sup and ug:
        return "unary-node-left", "outdegree-1 nodes %s remain although suppression was requested" % sorted(ug)
    if not sup and ug != ue:
        se, sg = ref.suppress_unary(exp), ref.suppress_unary(got)
        if ug < ue and ref.canon(se, lengths=False) == ref.canon(sg, lengths=False) \
                and not lengths_differ(se, sg, exact):
            return ("suppression-declined-but-unary-nodes-merged",
                    "suppress_unifurcations=False but nodes %s were merged into their child" % sorted(ue - ug))
    if ref.rooted_clades(exp) != ref.rooted_clades(got) or ref.n_nodes(exp) != ref.n_nodes(got):
        return "clades-differ", "clades are not the non-empty restrictions of the source clades"
    if ref.canon(exp, lengths=False) != ref.canon(got, lengths=False):
        return "wrong-node-survives-merge", "same clades, but node labels/taxa sit on other nodes than expected"
    bad = lengths_differ(exp, got, exact)
    if bad:
        _, pb = paths_differ(exp, got, exact)
        if pb:
            return "path-lengths-changed", "edge lengths of %s differ; e.g. path %s expected %r got %r" % (
                bad[:4], pb[0][0], pb[0][1], pb[0][2])
        if len(le) == 1:
            return "length-not-accumulated", "single survivor has length %r, expected %r" % (
                U.lens_by_name(got).get(bad[0]), U.lens_by_name(exp).get(bad[0]))
        return "edge-lengths-differ", "edge lengths of %s differ (leaf-to-leaf paths equal)" % bad[:4]
    return None


def compare_unrooted(exp, got, sup, exact, judge_lengths):
    le = sorted(map(str, (U.name_of(x) for x in ref.leaves(exp))))
    lg = sorted(map(str, (U.name_of(x) for x in ref.leaves(got))))
    if le != lg:
        if any(x[0] is None for x in ref.leaves(got)):
            return "wrong-leaf-set:taxonless-leaf-left", "leaves %s, expected %s" % (lg, le)
        return "wrong-leaf-set", "leaves %s, expected %s" % (lg, le)
    ug = U.unary_names(got)
    if sup and ug:
        return "unary-node-left", "outdegree-1 nodes %s remain although suppression was requested" % sorted(ug)
    if not sup:
        # the basal collapse of the bipartition update only ever deletes a root child with >= 2 children,
        # never a unary node: every unary node of the expected tree must still be there
        have = set(U.name_of(n) for n in ref.preorder(got))
        gone = U.unary_names(exp) - have
        if gone:
            return ("suppression-declined-but-unary-nodes-merged",
                    "suppress_unifurcations=False but nodes %s were merged into their child" % sorted(gone))
    if ref.unrooted_splits(exp) != ref.unrooted_splits(got):
        return "clades-differ", "unrooted split set differs from that of the induced tree"
    if judge_lengths:
        a, _ = ref.split_lengths(exp, False)
        b, _ = ref.split_lengths(got, False)
        bad = [k for k in a if not U.close(a[k], b.get(k), exact)]
        if bad:
            _, pb = paths_differ(exp, got, exact)
            if pb:
                return "path-lengths-changed", "path %s expected %r got %r" % pb[0]
            return "edge-lengths-differ", "summed split lengths differ (leaf-to-leaf paths equal)"
    return None


def judge(ctx, it):
    """all oracle clauses for one observed operation; returns the agreement signature or None."""
    w = it.world
    op = it.op
    if it.before is None:
        ctx.violation("harness|hook-not-entered|%s" % op, "the hook on %s saw no call" % op)
        return None
    if it.exc is not None:
        import dendropy
        if it.subnode and isinstance(it.exc, ValueError):
            # documented-in-code limitation (TODO in Node.extract_subtree): noted, not judged
            ctx.note("Node.extract_subtree(non-root)-top-node-unary-raises-ValueError")
            return None
        if it.container in ONESHOT and (isinstance(it.exc, dendropy.utility.error.SeedNodeDeletionException)
                                        or (isinstance(it.exc, AttributeError) and "remove_child" in str(it.exc))):
            # every leaf was filtered out although the intent keeps some: the wrong-leaf-set mechanism
            vio(ctx, it, "wrong-leaf-set", "no leaf survived (%s) although %d taxa were to be kept" % (
                core_brief(it.exc), len(it.world.leaf_names) - len(it.excluded)))
            return None
        ctx.unexpected(op, it.exc, {"tree": ref.to_newick(it.before.spec), "filtered_out": sorted(it.excluded),
                                    "suppress_unifurcations": it.sup, "update_bipartitions": it.upd,
                                    "container": it.container})
        return None
    src = it.before
    if src.dup_names:
        ctx.violation("harness|duplicate-node-names", "workload tree has duplicate names %s" % src.dup_names)
        return None
    src_spec = src.spec
    if it.subnode:
        src_spec = [n for n in ref.preorder(src.spec) if U.name_of(n) == it.subnode][0]
    exp, merged, vanished, keep = expected_for(it, src_spec)
    if exp is None:
        ctx.note("no-surviving-leaf:not-judged")
        return None
    # ---- obtain the result -----------------------------------------------------------------
    if isinstance(it.after, U.SnapError):
        vio(ctx, it, "malformed-tree-after-call", str(it.after))
        return None
    if it.kind == "inplace":
        got_snap = it.after
        res_tree = it.tree
    else:
        res = it.results[-1]
        try:
            got_snap = U.snap(res, w.names)
        except U.SnapError as e:
            vio(ctx, it, "malformed-result", str(e))
            return None
        res_tree = res if hasattr(res, "_seed_node") else None
    got = got_snap.spec
    if res_tree is not None:
        probs = arbor.check(res_tree, iterators=False)
        if probs:
            vio(ctx, it, "malformed-result", "; ".join(probs[:3]))
            return None
    if got_snap.dup_names:
        vio(ctx, it, "malformed-result", "names %s occur twice in the result" % got_snap.dup_names[:4])
        return None
    n_removed = len(ref.leaves(src_spec)) - len(keep)
    # ---- (1) induced subtree ------------------------------------------------------------------
    unrooted_mode = it.kind == "inplace" and it.upd and not w.rooted
    ctx.ev("oracle:induced-compared")
    ctx.ev("op:%s" % op)
    single = len(keep) == 1
    if single:
        ctx.ev("oracle:single-survivor-compared")
    if unrooted_mode:
        ctx.ev("oracle:induced-compared:as-unrooted-tree")
        verdict = compare_unrooted(exp, got, it.sup, w.exact, w.all_lengths)
    else:
        verdict = compare_rooted(exp, got, it.sup, w.exact)
    fired = None
    if verdict is not None:
        clause, what = verdict
        if single and clause in ("unary-node-left", "wrong-node-survives-merge", "edge-lengths-differ"):
            clause += ":single-survivor"
        fired = vio(ctx, it, clause, what, {"expected": ref.to_newick(exp), "got": ref.to_newick(got)})
    elif not unrooted_mode and ref.ordered(exp, lengths=False) != ref.ordered(got, lengths=False):
        ctx.note("child-order-differs-from-source-order:%s" % op)

    # ---- (2) path lengths between survivors, source vs result ---------------------------------
    if fired is None and len(keep) >= 2 and (w.all_lengths or not unrooted_mode):
        if len(keep) <= 12 or it.check_paths_fully:
            n, bad = paths_differ(src_spec, got, w.exact)
            ctx.ev("oracle:path-pairs-compared", n)
            if bad:
                fired = vio(ctx, it, "path-lengths-changed",
                            "path %s was %r in the source, is %r" % bad[0],
                            {"expected": ref.to_newick(exp), "got": ref.to_newick(got)})
    # ---- (6) reported removed nodes -------------------------------------------------------------
    if it.judge_removed:
        judge_removed(ctx, it, src, got_snap, exp, merged, vanished, fired, unrooted_mode)
    # ---- (4) (5) extraction: source untouched, no sharing, provenance -----------------------------
    if it.kind == "extract":
        ctx.ev("oracle:source-untouched-compared")
        if it.after.sig != src.sig:
            vio(ctx, it, "source-tree-altered", describe_sig_change(src, it.after))
        shared = got_snap.node_ids & src.node_ids
        if shared or (got_snap.edge_ids & src.edge_ids):
            vio(ctx, it, "result-shares-nodes-with-source", "%d nodes / %d edges of the result are source objects" % (
                len(shared), len(got_snap.edge_ids & src.edge_ids)))
        src_lists = set(e[8] for e in src.sig[1])
        if any(e[8] in src_lists for e in got_snap.sig[1]):
            vio(ctx, it, "result-shares-child-list-with-source", "a result node uses a source node's child list object")
        if fired is None:
            missing = object()
            for sp, nd in got_snap.pairs:
                ctx.ev("oracle:extraction_source-compared")
                want = src.by_name.get(U.name_of(sp))
                if it.attr is None:
                    if getattr(nd, "extraction_source", missing) is not missing:
                        vio(ctx, it, "extraction_source-set-although-declined", "attribute name None was passed")
                        break
                    continue
                have = getattr(nd, it.attr, missing)
                if have is not want:
                    hn = None
                    if have is not missing and have is not None:
                        hn = [U.name_of(s) for s, x in src.pairs if x is have] or ["<not a source node>"]
                    vio(ctx, it, "extraction_source-wrong",
                        "node %r: %s is %s, expected the source node %r" % (
                            U.name_of(sp), it.attr, "missing" if have is missing else hn, U.name_of(sp)),
                        {"got": ref.to_newick(got)})
                    break
    # ---- evidence ---------------------------------------------------------------------------------
    if n_removed >= 1 and (ref.n_nodes(exp) > len(keep) or merged):
        ctx.nontrivial((op, ref.canon(src_spec), sorted(map(str, keep)), it.sup, it.upd, w.rooted, it.container))
    if fired is not None:
        return ("violated", fired)
    if unrooted_mode:
        sl, _ = ref.split_lengths(got, False)
        return ("u", tuple(sorted(lg_name(got))), frozenset((k, repr(v)) for k, v in sl.items()) if w.exact else None)
    return ("r", ref.canon(got) if w.exact else ref.canon(got, lengths=False))


def core_brief(exc):
    return "%s: %s" % (type(exc).__name__, str(exc)[:120])


def lg_name(spec):
    return [str(U.name_of(x)) for x in ref.leaves(spec)]


def describe_sig_change(a, b):
    if a.sig[0] != b.sig[0]:
        return "tree-level state (seed node / rooting / label / namespace / bipartition encoding) changed"
    if len(a.sig[1]) != len(b.sig[1]):
        return "source has %d nodes after the call, had %d" % (len(b.sig[1]), len(a.sig[1]))
    fields = ("node", "edge", "taxon", "label", "length", "edge label", "edge head", "children", "child list object",
              "parent", "instance attributes")
    for x, y in zip(a.sig[1], b.sig[1]):
        for k in range(len(x)):
            if x[k] != y[k]:
                return "source node %r: %s changed (%r -> %r)" % (x[3], fields[k], x[k], y[k])
    return "signature differs"


def judge_removed(ctx, it, src, got_snap, exp, merged, vanished, fired, unrooted_mode):
    ctx.ev("oracle:removed-nodes-compared")
    reported = it.results[-1]
    if not isinstance(reported, list):
        vio(ctx, it, "removed-nodes-not-reported", "returned %r instead of the list of removed nodes" % (reported,))
        return
    name_by_id = dict((id(nd), U.name_of(sp)) for sp, nd in src.pairs)
    rep_ids = [id(x) for x in reported]
    if len(set(rep_ids)) != len(rep_ids):
        vio(ctx, it, "removed-node-reported-twice", "the returned list names a node twice")
        return
    removed = src.node_ids - got_snap.node_ids
    foreign = [i for i in rep_ids if i not in src.node_ids]
    if foreign:
        vio(ctx, it, "reported-node-not-from-tree", "%d reported nodes were never part of the tree" % len(foreign))
        return
    still = sorted(str(name_by_id[i]) for i in rep_ids if i not in removed)
    if still:
        vio(ctx, it, "reported-node-not-removed", "reported as removed but still in the tree: %s" % still)
        return
    extra = set(name_by_id[i] for i in removed - set(rep_ids))
    allowed = set(merged)       # empty when suppression is off
    if unrooted_mode and len(exp[3]) == 2:
        # the bipartition update of an unrooted tree collapses one >=2-child child of a bifurcating root
        allowed.update(U.name_of(c) for c in exp[3] if len(c[3]) >= 2)
    if extra <= allowed:
        return
    if not it.sup and fired is not None and "suppression-declined" in fired:
        # same root cause as the violation already reported for this call: the nodes that went
        # unreported are the unary nodes the library merged although suppression was declined
        ctx.ev("removed-clause:difference-explained-by-suppression-violation")
        return
    vio(ctx, it, "removed-node-not-reported",
        "removed, not reported%s: %s" % (" and not a suppressed unary node" if it.sup else "",
                                          sorted(map(str, extra - allowed))))


# ======================================================================================
# drivers: one (world, surviving set, flags) through every applicable API variant
# ======================================================================================
def maximal_dropped(spec, dropped_leaf_names):
    """names of the maximal nodes all of whose leaves are dropped."""
    dropped = set(dropped_leaf_names)
    full = {}
    for n in ref.postorder(spec):
        if not n[3]:
            full[id(n)] = U.name_of(n) in dropped
        else:
            full[id(n)] = all(full[id(c)] for c in n[3])
    out = []
    stack = [spec]
    while stack:
        n = stack.pop()
        if full[id(n)]:
            out.append(U.name_of(n))
        else:
            stack.extend(reversed(n[3]))
    return out


def run_variant(mon, w, op, keep, sup, upd, cont="list", attr="extraction_source", check_paths=False):
    """apply API variant `op` so that exactly the leaves in `keep` (unique names) survive."""
    keep = set(keep)
    drop = [nm for nm in w.leaf_names if nm not in keep]
    keep_l = [nm for nm in w.leaf_names if nm in keep]
    flags = {"update_bipartitions": upd, "suppress_unifurcations": sup}
    kind = "inplace" if op in INPLACE else "extract"
    tree = w.build()
    kw = {"container": cont if op not in ("filter_leaf_nodes", "prune_subtree", "prune_leaves_without_taxa",
                                          "extract_tree", "Node.extract_subtree") else "list", "attr": attr}
    excluded = drop
    keep_ids = set(id(w.taxa[nm]) for nm in keep_l)
    leaf_filter = lambda nd: nd.taxon is not None and id(nd.taxon) in keep_ids
    if op == "prune_taxa":
        arg = container(cont, [w.taxa[nm] for nm in drop])
        thunk = lambda: tree.prune_taxa(arg, **flags)
    elif op == "prune_taxa_with_labels":
        arg = container(cont, [w.real[nm] for nm in drop])
        thunk = lambda: tree.prune_taxa_with_labels(arg, **flags)
    elif op == "retain_taxa":
        arg = container(cont, [w.taxa[nm] for nm in keep_l])
        thunk = lambda: tree.retain_taxa(arg, **flags)
    elif op == "retain_taxa_with_labels":
        arg = container(cont, [w.real[nm] for nm in keep_l])
        thunk = lambda: tree.retain_taxa_with_labels(arg, **flags)
    elif op == "filter_leaf_nodes":
        kw["judge_removed"] = True
        thunk = lambda: tree.filter_leaf_nodes(leaf_filter, **flags)
    elif op == "prune_nodes":
        by = dict((U.name_of(sp), nd) for sp, nd in U.snap(tree, w.names).pairs)
        arg = container(cont, [by[nm] for nm in drop])
        thunk = lambda: tree.prune_nodes(arg, prune_leaves_without_taxa=True, **flags)
    elif op == "prune_subtree":
        tops = maximal_dropped(w.spec, drop)
        if not tops:
            return None
        if w.has_unary and sup and len(tops) > 1:
            mon.ctx.note("prune_subtree-sequence-skipped:pre-existing-unary-nodes")
            return None
        by = dict((U.name_of(sp), nd) for sp, nd in U.snap(tree, w.names).pairs)

        def thunk():
            for k, nm in enumerate(tops):
                last = k == len(tops) - 1
                tree.prune_subtree(by[nm], update_bipartitions=(upd and last), suppress_unifurcations=sup)
    elif op == "prune_leaves_without_taxa":
        # same tree, but the leaves to go carry no taxon
        spec2 = ref.copy(w.spec)
        for n in ref.leaves(spec2):
            if n[0] not in keep:
                n[1] = "x_%s" % n[0]
                n[0] = None
        tree = bridge.build_tree(spec2, w.ns, w.rooted, taxa_by_label=w.taxa)
        excluded = ["x_%s" % nm for nm in drop]
        kw["judge_removed"] = True
        thunk = lambda: tree.prune_leaves_without_taxa(**flags)
    elif op == "extract_tree_with_taxa":
        arg = container(cont, [w.taxa[nm] for nm in keep_l])
        thunk = lambda: tree.extract_tree_with_taxa(arg, extraction_source_reference_attr_name=attr,
                                                    suppress_unifurcations=sup)
    elif op == "extract_tree_with_taxa_labels":
        arg = container(cont, [w.real[nm] for nm in keep_l])
        thunk = lambda: tree.extract_tree_with_taxa_labels(arg, extraction_source_reference_attr_name=attr,
                                                           suppress_unifurcations=sup)
    elif op == "extract_tree_without_taxa":
        arg = container(cont, [w.taxa[nm] for nm in drop])
        thunk = lambda: tree.extract_tree_without_taxa(arg, extraction_source_reference_attr_name=attr,
                                                       suppress_unifurcations=sup)
    elif op == "extract_tree_without_taxa_labels":
        arg = container(cont, [w.real[nm] for nm in drop])
        thunk = lambda: tree.extract_tree_without_taxa_labels(arg, extraction_source_reference_attr_name=attr,
                                                              suppress_unifurcations=sup)
    elif op == "extract_tree":
        thunk = lambda: tree.extract_tree(extraction_source_reference_attr_name=attr, node_filter_fn=leaf_filter,
                                          suppress_unifurcations=sup)
    elif op == "Node.extract_subtree":
        thunk = lambda: tree.seed_node.extract_subtree(extraction_source_reference_attr_name=attr,
                                                       node_filter_fn=leaf_filter, suppress_unifurcations=sup)
    else:
        raise ValueError(op)
    it = Intent(op, w, tree, sup, upd, excluded, kind, **kw)
    it.check_paths_fully = check_paths
    return mon.run(it, thunk)


def run_all_variants(mon, w, keep, sup, upd_values=(False, True), ops=None, rng=None):
    """every API variant on the same (tree, subset, suppress); then the agreement clause."""
    ctx = mon.ctx
    sigs = {}
    for op in (ops or (EXTRACT + INPLACE)):
        if op in EXTRACT:
            cont = rng.choice(CONTAINERS) if rng else "list"
            attr = "extraction_source"
            if rng is not None and rng.random() < 0.15:
                attr = rng.choice([None, "src_ref"])
            sigs[(op, None)] = run_variant(mon, w, op, keep, sup, False, cont, attr)
        else:
            for upd in upd_values:
                cont = rng.choice(CONTAINERS) if rng else "list"
                sigs[(op, upd)] = run_variant(mon, w, op, keep, sup, upd, cont)
    # ---- (3) agreement: extraction and in-place(upd=False) in rooted form; in-place(upd=True) among themselves
    groups = [[k for k in sigs if k[1] in (None, False)], [k for k in sigs if k[1] is True]]
    for g in groups:
        g = [k for k in g if sigs[k] is not None]
        good = [k for k in g if sigs[k][0] != "violated"]
        for k in g:
            ctx.ev("oracle:agreement-compared")
        if not good:
            continue
        refk = good[0]
        for k in good[1:]:
            if sigs[k] != sigs[refk]:
                ctx.violation("agreement|%s-vs-%s|results-differ-although-each-passed-the-oracle" % (k[0], refk[0]),
                              "API variants disagree on the same (tree, subset, flags)",
                              {"tree": ref.to_newick(w.spec), "keep": sorted(keep), "suppress_unifurcations": sup})
        for k in g:
            if sigs[k][0] == "violated":
                ctx.ev("agreement:deviation-explained-by-oracle-violation")
    return sigs


# ======================================================================================
def biased_subsets(rng, spec, k):
    """k surviving sets: singletons, all-but-one, all, whole clades emptied, root left with one child, random."""
    names = [U.name_of(n) for n in ref.leaves(spec)]
    cl = [(n, [U.name_of(x) for x in ref.leaves(n)]) for n in ref.preorder(spec) if n[3] and n is not spec]
    out = []
    for j in range(k):
        r = rng.random()
        if len(names) == 1 or r < 0.08:
            keep = [rng.choice(names)]
        elif r < 0.16:
            keep = list(names)
            keep.remove(rng.choice(names))
        elif r < 0.2:
            keep = list(names)
        elif r < 0.5 and cl:
            gone = set()
            for _ in range(rng.randint(1, 3)):
                gone.update(rng.choice(cl)[1])
            if rng.random() < 0.5:
                gone.update(x for x in names if rng.random() < 0.15)
            keep = [x for x in names if x not in gone]
        elif r < 0.7 and spec[3]:
            c = rng.choice(spec[3])
            under = [U.name_of(x) for x in ref.leaves(c)]
            keep = [x for x in under if rng.random() < 0.7]
        else:
            p = rng.choice([0.2, 0.5, 0.8])
            keep = [x for x in names if rng.random() < p]
        if not keep:
            keep = [rng.choice(names)]
        out.append(keep)
    return out


def random_world(rng, tier, p_unary=None, real_labels=False):
    sizes = [2, 3, 4, 6, 8, 11, 14] if tier == "quick" else [2, 3, 5, 8, 12, 14, 20, 30, 45, 60]
    n = rng.choice(sizes)
    shape = rng.choice([None, None, None, "caterpillar", "star", "balanced"])
    if p_unary is None:
        p_unary = rng.choice([0, 0, 0.15, 0.3])
    spec = gen.random_spec(rng, n, p_poly=rng.choice([0, 0.3, 0.6]), p_unary=p_unary, shape=shape)
    pat = rng.choice(["ints", "ints", "dyadic", "zeros", "mixed_missing", "mixed_missing", "none", "float", "unit"])
    gen.decorate_lengths(spec, rng, pat, root_length=rng.random() < 0.3)
    label_internal(spec)
    rooted = rng.choice([True, True, False, None])
    rl = None
    if real_labels:
        pool = ["dup%d" % k for k in range(max(1, n // 3))]
        rl = dict((nm, rng.choice(pool) if rng.random() < 0.6 else nm) for nm in ref.leaf_taxa(spec))
    return World(spec, rooted, rl), pat


def run_case(case, ctx):
    rng = random.Random("%s/%s" % (case["seed"], sorted(case.items())))
    kind = case["kind"]
    if kind == "selfcheck":
        return run_selfcheck(case, ctx, rng)
    with Hooks(ctx) as hooks:
        mon = Monitor(ctx, hooks)
        if kind == "directed":
            d = DIRECTED[case["i"]]
            w = World(parse_tiny_newick(d["newick"]), d["rooted"])
            if "container" in d:
                for op in d["ops"]:
                    run_variant(mon, w, op, d["keep"], d["sup"], d["upd"], d["container"])
            else:
                run_all_variants(mon, w, d["keep"], d["sup"], (d["upd"],))
            ctx.sample({"kind": "directed", "name": d["name"], "tree": ref.to_newick(w.spec), "keep": d["keep"],
                        "suppress_unifurcations": d["sup"], "update_bipartitions": d["upd"]})
        elif kind == "shape":
            run_shape(case, ctx, mon, rng)
        elif kind == "random":
            run_random(case, ctx, mon, rng)
        elif kind == "filters":
            run_filters(case, ctx, mon, rng)
        elif kind == "containers":
            run_containers(case, ctx, mon, rng)
        elif kind == "duplabels":
            run_duplabels(case, ctx, mon, rng)
        elif kind == "subnode":
            run_subnode(case, ctx, mon, rng)
        else:
            raise ValueError(kind)


def run_selfcheck(case, ctx, rng):
    """brute-force validation of the oracle itself (no library code involved)."""
    n = case["n"]
    for sh in gen.all_shapes(n):
        base = gen.shape_to_spec(sh)
        variants = [pow2_lengths(label_internal(ref.copy(base)), False),
                    pow2_lengths(label_internal(ref.copy(base)), True)]
        for _ in range(2):
            v = gen.insert_unary(base, rng, 0.4, split_lengths=False)
            pow2_lengths(label_internal(v), rng.random() < 0.5)
            for x in ref.preorder(v):
                if rng.random() < 0.3:
                    x[2] = None
            variants.append(v)
        for v in variants:
            taxa = ref.leaf_taxa(v)
            for r in range(1, len(taxa) + 1):
                for keep in itertools.combinations(taxa, r):
                    ctx.ev("oracle:selfcheck-brute-force")
                    probs = U.brute_check(v, keep)
                    if probs:
                        ctx.violation("harness|oracle-selfcheck-failed", probs[0],
                                      {"tree": ref.to_newick(v), "keep": list(keep), "problems": probs[:5]})


def run_shape(case, ctx, mon, rng):
    n, idx = case["n"], case["idx"]
    base = label_internal(gen.shape_to_spec(gen.all_shapes(n)[idx]))
    worlds = [World(pow2_lengths(ref.copy(base), idx % 2 == 1), True)]
    # second realisation: unrooted (exercises the update_bipartitions route), other lengths
    alt = ref.copy(base)
    gen.decorate_lengths(alt, rng, rng.choice(["mixed_missing", "ints", "dyadic", "none"]), root_length=rng.random() < 0.3)
    worlds.append(World(alt, rng.choice([False, None])))
    taxa = ref.leaf_taxa(base)
    every = EXTRACT + INPLACE
    for wi, w in enumerate(worlds):
        for r in range(1, len(taxa) + 1):
            for keep in itertools.combinations(taxa, r):
                pick = (sum(int(t[1:]) for t in keep) + len(keep) + idx) % 3
                for sup in (True, False):
                    if wi == 0 and n <= 5:
                        # the exhaustive part: every variant, both flags, every subset
                        run_all_variants(mon, w, keep, sup, (False, True))
                    elif wi == 0:
                        # n = 6 (thorough): every subset, a rotating selection of six variants
                        k = (pick + 2 * sup + idx) % len(every)
                        ops = ("prune_taxa",) + tuple(o for o in (every[(k + 3 * j) % len(every)] for j in range(5))
                                                      if o != "prune_taxa")
                        run_all_variants(mon, w, keep, sup, (bool((pick + sup) % 2),), ops=ops)
                    elif n <= 4 or (n == 5 and pick == 0):
                        run_all_variants(mon, w, keep, sup, (True,), ops=INPLACE + ("extract_tree",))
    if idx in (0, 7) and n in (4, 5):
        ctx.sample({"kind": "shape", "tree": ref.to_newick(worlds[0].spec), "subsets": 2 ** len(taxa) - 1,
                    "variants": list(EXTRACT + INPLACE), "flags": "suppress x update_bipartitions"})


def run_random(case, ctx, mon, rng):
    w, pat = random_world(rng, ctx.tier)
    nsub = 20 if len(w.leaf_names) > 2 else 3
    for keep in biased_subsets(rng, w.spec, nsub):
        sup = rng.random() < 0.6
        upd = rng.random() < 0.4
        ops = ["prune_taxa"] + rng.sample(EXTRACT + INPLACE[1:], 5 if len(w.leaf_names) > 20 else 7)
        run_all_variants(mon, w, keep, sup, (upd,), ops=ops, rng=rng)
    if case["i"] < 3:
        ctx.sample({"kind": "random", "tree": ref.to_newick(w.spec), "rooted": w.rooted, "lengths": pat})


def run_filters(case, ctx, mon, rng):
    """node-filter predicates on leaves and internal nodes: extract_tree / extract_subtree with both
    is_apply_* switches; filter_leaf_nodes with predicates that accept some emptied internal nodes and
    with recursive=False (documented semantics, lock-step model); prune_taxa on internal-node taxa."""
    w, pat = random_world(rng, "quick")
    spec = w.spec
    internal = [U.name_of(n) for n in ref.preorder(spec) if n[3] and n is not spec]
    leaves_ = w.leaf_names
    for _ in range(8):
        excl = set(x for x in leaves_ if rng.random() < rng.choice([0.2, 0.5]))
        excl.update(x for x in internal if rng.random() < 0.25)
        L = rng.random() < 0.7
        I = rng.random() < 0.6
        sup = rng.random() < 0.6
        eff = set(x for x in excl if (x in internal and I) or (x not in internal and L))
        by_name = dict((U.name_of(n), n) for n in ref.preorder(spec))
        if not U.surviving_leaf_names(spec, set(id(by_name[x]) for x in eff)):
            ctx.note("filters:no-surviving-leaf-skipped")
            continue
        tree = w.build()
        names = w.names
        excl_f = frozenset(excl)

        def fn(nd, names=names, excl_f=excl_f):
            nm = names[id(nd.taxon)] if nd.taxon is not None else nd.label
            return nm not in excl_f
        via_node = rng.random() < 0.3
        attr = rng.choice(["extraction_source", "extraction_source", "src_ref", None])
        if via_node:
            thunk = lambda: tree.seed_node.extract_subtree(
                extraction_source_reference_attr_name=attr, node_filter_fn=fn, suppress_unifurcations=sup,
                is_apply_filter_to_leaf_nodes=L, is_apply_filter_to_internal_nodes=I)
        else:
            thunk = lambda: tree.extract_tree(
                extraction_source_reference_attr_name=attr, node_filter_fn=fn, suppress_unifurcations=sup,
                is_apply_filter_to_leaf_nodes=L, is_apply_filter_to_internal_nodes=I)
        it = Intent("Node.extract_subtree" if via_node else "extract_tree", w, tree, sup, False, eff, "extract", attr=attr)
        it.check_paths_fully = False
        ctx.ev("filters:extract leaf-filter=%s internal-filter=%s" % (L, I))
        mon.run(it, thunk)
    # filter_leaf_nodes: general predicates, recursive on/off
    for _ in range(6):
        accept = set(x for x in leaves_ if rng.random() < 0.6)
        accept.update(x for x in internal if rng.random() < 0.2)
        recursive = rng.random() < 0.6
        sup = rng.random() < 0.5
        upd = rng.random() < 0.3
        exp, _ = U.filter_model(spec, lambda n: U.name_of(n) in accept, recursive, sup)
        if exp is None or not any(n[0] is not None for n in ref.leaves(exp)):
            ctx.note("filters:no-surviving-leaf-skipped")
            continue
        tree = w.build()
        names = w.names
        acc_f = frozenset(accept)

        def ffn(nd, names=names, acc_f=acc_f):
            nm = names[id(nd.taxon)] if nd.taxon is not None else nd.label
            return nm in acc_f
        it = Intent("filter_leaf_nodes", w, tree, sup, upd, [x for x in leaves_ if x not in accept], "inplace",
                    model=("filter", acc_f, recursive), judge_removed=True)
        it.check_paths_fully = False
        ctx.ev("filters:filter_leaf_nodes recursive=%s" % recursive)
        mon.run(it, lambda: tree.filter_leaf_nodes(ffn, recursive=recursive, update_bipartitions=upd,
                                                   suppress_unifurcations=sup))
    # prune_taxa / prune_taxa_with_labels on taxa sitting on *internal* nodes (whole subtree goes)
    if internal:
        for _ in range(3):
            tops = rng.sample(internal, min(len(internal), rng.randint(1, 2)))
            by_name = dict((U.name_of(n), n) for n in ref.preorder(spec))
            if not U.surviving_leaf_names(spec, set(id(by_name[x]) for x in tops)):
                continue
            spec2 = ref.copy(spec)
            for n2 in ref.preorder(spec2):
                if n2[3] and n2[1] in tops:
                    n2[0] = "tx_%s" % n2[1]
                    n2[1] = None
            w2 = World(spec2, w.rooted)
            tree = w2.build()
            sup = rng.random() < 0.6
            upd = rng.random() < 0.3
            bylab = rng.random() < 0.4
            taxa = [w2.taxa["tx_%s" % x] for x in tops]
            it = Intent("prune_taxa_with_labels" if bylab else "prune_taxa", w2, tree, sup, upd,
                        ["tx_%s" % x for x in tops], "inplace")
            it.check_paths_fully = False
            ctx.ev("filters:prune_taxa is_apply_filter_to_internal_nodes=True")
            if bylab:
                mon.run(it, lambda: tree.prune_taxa_with_labels([t.label for t in taxa], update_bipartitions=upd,
                                                                suppress_unifurcations=sup,
                                                                is_apply_filter_to_internal_nodes=True))
            else:
                mon.run(it, lambda: tree.prune_taxa(taxa, update_bipartitions=upd, suppress_unifurcations=sup,
                                                    is_apply_filter_to_internal_nodes=True))


def run_containers(case, ctx, mon, rng):
    """the taxa / labels argument as every kind of iterable the docstrings allow."""
    if case.get("fixed"):
        explore_casefold(ctx)
        w = World(parse_tiny_newick("((A:1,B:2)ab:4,(C:8,D:16)cd:32)r"), True)
        subsets = [["A", "C", "D"], ["B", "D"]]
    else:
        w, _ = random_world(rng, "quick", p_unary=0)
        subsets = biased_subsets(rng, w.spec, 4)
    ops = ("prune_taxa", "prune_taxa_with_labels", "retain_taxa", "retain_taxa_with_labels", "prune_nodes",
           "extract_tree_with_taxa", "extract_tree_with_taxa_labels", "extract_tree_without_taxa",
           "extract_tree_without_taxa_labels")
    for keep in subsets:
        for op in ops:
            for cont in ("iterator", "generator", "namespace", "set", "dictkeys"):
                if cont == "namespace" and (op in LABEL_OPS or op == "prune_nodes"):
                    continue
                ctx.ev("containers:%s" % cont)
                run_variant(mon, w, op, keep, True, False, cont)


def explore_casefold(ctx):
    """recorded, not judged: taxa whose labels differ only by case.  TaxonNamespace lookups are
    case-insensitive by default (documented), the extract_*_labels wrappers compare labels exactly."""
    w = World(parse_tiny_newick("((A:1,B:2)ab:4,(C:8,D:16)cd:32)r"), True, {"A": "x", "B": "X", "C": "c", "D": "d"})
    t1 = w.build()
    t1.prune_taxa_with_labels(["x"])
    t2 = w.build().extract_tree_without_taxa_labels(["x"])
    a = sorted(ref.leaf_taxa(U.snap(t1, w.names).spec))
    b = sorted(ref.leaf_taxa(U.snap(t2, w.names).spec))
    ctx.note("casefold-labels:prune_taxa_with_labels-and-extract_tree_without_taxa_labels-%s" % (
        "agree" if a == b else "disagree(case-insensitive-namespace-lookup-vs-exact-match)"))


def run_duplabels(case, ctx, mon, rng):
    """distinct Taxon objects sharing a label: object-based variants go by identity, label-based by label."""
    w, _ = random_world(rng, "quick", real_labels=True)
    for keep in biased_subsets(rng, w.spec, 6):
        sup = rng.random() < 0.7
        upd = rng.random() < 0.3
        for op in ("prune_taxa", "retain_taxa", "filter_leaf_nodes", "extract_tree_with_taxa",
                   "extract_tree_without_taxa", "extract_tree"):
            ctx.ev("duplabels:by-identity")
            run_variant(mon, w, op, keep, sup, upd if op in INPLACE else False, rng.choice(CONTAINERS))
        # label semantics: the surviving set is closed under 'same label'
        keep_labels = set(w.real[nm] for nm in keep)
        keep_lab = [nm for nm in w.leaf_names if w.real[nm] in keep_labels]
        drop_labels = set(w.real[nm] for nm in w.leaf_names if nm not in keep)
        keep_lab2 = [nm for nm in w.leaf_names if w.real[nm] not in drop_labels]
        for op in ("retain_taxa_with_labels", "extract_tree_with_taxa_labels"):
            ctx.ev("duplabels:by-label")
            run_variant(mon, w, op, keep_lab, sup, upd if op in INPLACE else False, rng.choice(CONTAINERS))
        if keep_lab2:
            for op in ("prune_taxa_with_labels", "extract_tree_without_taxa_labels"):
                ctx.ev("duplabels:by-label")
                run_variant(mon, w, op, keep_lab2, sup, upd if op in INPLACE else False, rng.choice(CONTAINERS))


def run_subnode(case, ctx, mon, rng):
    """Node.extract_subtree called on a non-root node; prune_subtree of a single node."""
    w, _ = random_world(rng, "quick")
    spec = w.spec
    internal = [n for n in ref.preorder(spec) if n[3] and n is not spec]
    for _ in range(6):
        if not internal:
            break
        top = rng.choice(internal)
        under = [U.name_of(x) for x in ref.leaves(top)]
        keep = [x for x in under if rng.random() < 0.7] or [rng.choice(under)]
        sup = rng.random() < 0.6
        tree = w.build()
        live = dict((U.name_of(sp), nd) for sp, nd in U.snap(tree, w.names).pairs)
        keep_ids = set(id(w.taxa[nm]) for nm in keep)
        fn = lambda nd: nd.taxon is not None and id(nd.taxon) in keep_ids
        it = Intent("Node.extract_subtree", w, tree, sup, False, [x for x in under if x not in keep], "extract",
                    subnode=U.name_of(top))
        it.check_paths_fully = False
        ctx.ev("subnode:extract_subtree-on-internal-node")
        mon.run(it, lambda: live[U.name_of(top)].extract_subtree(node_filter_fn=fn, suppress_unifurcations=sup))
    # pure clone (no filter at all): the documented 'clone of the structure'
    tree = w.build()
    it = Intent("extract_tree", w, tree, True, False, [], "extract")
    it.check_paths_fully = False
    ctx.ev("subnode:pure-clone")
    mon.run(it, lambda: tree.extract_tree())
    # prune_subtree of one arbitrary non-root node (leaf or internal)
    nodes = [n for n in ref.preorder(spec) if n is not spec]
    for _ in range(6):
        if not nodes:
            break
        top = rng.choice(nodes)
        gone = set(U.name_of(x) for x in ref.leaves(top))
        keep = [x for x in w.leaf_names if x not in gone]
        if not keep:
            continue
        if maximal_dropped(spec, gone) != [U.name_of(top)]:
            continue     # parent would be left as a taxon-less leaf: not a leaf-removal in the property's sense
        ctx.ev("subnode:prune_subtree-single")
        run_variant(mon, w, "prune_subtree", keep, rng.random() < 0.6, rng.random() < 0.4)
