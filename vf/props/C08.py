"""C08  Pruning, retaining and extracting yield exactly the induced subtree.

Runtime monitoring of the real pruning / extraction API.  Hooks around every anchored entry
point take a raw-field snapshot of the source tree (spec + node identities + full signature)
when the call starts and again when it returns or raises; the driver states its *intent*
(which leaves are meant to survive, which flags were passed) and the monitor judges the
observed result against a DendroPy-free oracle.

Oracle clauses (each evaluation is counted with ctx.ev):
 (1) induced        result == vf.ref.induced(source spec, surviving leaves, suppress): same leaf set,
                    clades = non-empty restrictions, no unary node when suppression is on / every
                    unary node kept when it is declined, the *child* survives a merge (node names),
                    per-node lengths (merged lengths added, None = nothing to add).  ref.induced is
                    validated by brute force from the set-theoretic definition in the 'selfcheck'
                    cases and cross-checked against a second, provenance-tracking implementation
                    at every evaluation.
 (2) paths          path length between every pair of surviving leaves unchanged (vf.ref.leaf_paths
                    on source vs result; None counted as 0).
 (3) agreement      all API variants applied to the same (tree, subset, suppress) give the same tree.
 (4) source         extraction leaves the source untouched: full ordered signature incl. identities of
                    nodes, edges, child lists, taxa, namespace; result shares no node / edge / child list.
 (5) provenance     every node of an extracted tree carries `extraction_source` (or the requested
                    attribute name) pointing at *the* corresponding source node (same unique name).
 (6) removed        filter_leaf_nodes / prune_leaves_without_taxa: reported nodes vs id-set difference.
 (7) single         a single survivor is a lone leaf carrying the accumulated root-to-leaf length
                    (judged by (1); clauses 'length-not-accumulated' and '...:single-survivor').

Soundness limits actually implemented:
 * child order is compared order-free (canonical form); an order difference is only *noted*.
 * removed-nodes clause with suppression on: reported <= removed and removed - reported <= nodes that
   the model says became unary (plus, for unrooted trees with update_bipartitions=True, the root child
   that the bipartition update collapses); exact equality only with suppression off.
 * unrooted tree + update_bipartitions=True: the bipartition update collapses the basal bifurcation,
   so the result is compared as an *unrooted* tree (leaf set, split set, summed split lengths, leaf
   paths); lengths only when the source has no missing non-root length.
 * Node.extract_subtree on a non-root node whose top becomes unary raises ValueError (a TODO in the
   library); Tree-level statement, so this is noted, not judged -- but ONLY when suppression was requested
   and the reference model says that the called-on node is merged into its child; any other ValueError is
   an unexpected exception (violation).
 * nothing excluded at all (every leaf kept, no node filtered out): the STATEMENT speaks of nodes *left*
   with a single child and the extract_* docstrings say suppression "only will be done if some nodes are
   excluded", so pre-existing unary nodes may be kept or suppressed: both forms are accepted.
 * leaves that carry no taxon are leaves like any other: they survive unless the call names them (filter
   function / node list / subtree) or the call is one whose documented purpose is to remove them
   (prune_leaves_without_taxa, prune_nodes(prune_leaves_without_taxa=True): not driven on such trees).
   Taxa sitting on internal nodes are neither kept nor dropped by a leaf subset: the expected tree is the one
   induced by the surviving *leaves*.  When a result deviates from that only by (a) a taxon-less source leaf
   removed or (b) an emptied taxon-bearing internal node left behind as a new leaf, the violation gets its own
   clause (wrong-leaf-set:taxonless-source-leaf-removed / :emptied-internal-node-with-taxon-left) and the
   result is then judged against the tree induced by the leaf set the library actually produced, so that
   every other clause keeps its power on these input classes.
 * label-based variants are judged by label semantics, object-based ones by Taxon identity
   (they are compared with each other only in worlds without duplicate labels); labels that differ
   only by case are not generated (namespace lookups are case-insensitive by default, the
   extract_*_labels wrappers match exactly: the two routes resolve the *argument* to different taxon
   sets, which is a matter of label lookup, not of the induced-subtree statement; one fixed probe records
   the disagreement as a note).  Labels with blanks / underscores / non-ASCII letters / the empty label are
   generated ('odd labels' worlds).
 * filter predicates answer with arbitrary truthy / falsy objects (None, 0, '', (), 1, 'x', an object ...):
   the documented "returns True / False" is read with Python truth semantics.
 * the taxa / labels argument may name taxa that are in the namespace but not on the tree, taxa outside the
   namespace and unknown labels: they select no leaf.
 * every call keeps >= 1 leaf (quantifier); lengths are ints / dyadics (exact comparison) except the
   'float' pattern (1e-9 relative).
 * the taxa / labels argument is normally a re-iterable container (list, tuple, set, frozenset, dict keys,
   TaxonNamespace); one-shot iterators / generators -- allowed by the docstrings ("any iterable") -- are a
   separate workload whose violations carry the discriminator 'one-shot-iterable' (an exception caused by
   every leaf having been filtered out is folded into the same 'wrong-leaf-set' key).
 * bipartition encodings produced by update_bipartitions=True are not inspected (that is C01's oracle).

Violation keys: <api function>|<failed clause>|<discriminator>, discriminator = 'extraction' |
'update_bipartitions=<flag>' | 'one-shot-iterable'.  prune_nodes with its default
prune_leaves_without_taxa=False is its own api function name 'prune_nodes(prune_leaves_without_taxa=False)'
(its own code path in the library); the dendropy.legacy.treemanip wrappers are 'legacy.<name>'.
"""
import itertools
import random
import warnings

from .. import ref, gen, bridge
from ..mon.hooks import Hooks
from ..mon import arbor
from . import _c08_util as U

PROP = "C08"
LEVEL = "exploration"
TECHNIQUE = "hooked API calls judged against an induced-subtree reference model"
RULE = ("cases = (every rooted shape with n<=5 (thorough: n<=6) x every non-empty leaf subset x suppress x "
        "update_bipartitions x every API variant incl. prune_nodes with and without prune_leaves_without_taxa) + "
        "random trees (polytomies, pre-existing unary nodes, missing / zero / int-float-mixed lengths, duplicate "
        "and odd labels, taxa on internal nodes, leaves without taxa, namespaces larger than the tree) x biased "
        "subsets x node-filter predicates (answering with arbitrary truthy / falsy objects) x argument containers "
        "(padded with taxa / labels that are not on the tree) x option values (recursive, is_apply_filter_*, "
        "factories, legacy wrappers) + histories (2-4 operations chained on one tree, with or without an existing "
        "bipartition encoding, extraction of extracted trees, clones re-inspected after the source was pruned); "
        "a case is non-trivial when at least one leaf is removed and at least one "
        "internal node survives or is merged; distinct = distinct (canonical source tree with lengths, "
        "surviving set, operation, flags)")
REACH = ["_tree:Tree.prune_taxa", "_tree:Tree.prune_taxa_with_labels", "_tree:Tree.retain_taxa",
         "_tree:Tree.retain_taxa_with_labels", "_tree:Tree.filter_leaf_nodes", "_tree:Tree.prune_subtree",
         "_tree:Tree.prune_leaves_without_taxa", "_tree:Tree.prune_nodes", "_tree:Tree.suppress_unifurcations",
         "_tree:Tree.encode_bipartitions", "_tree:Tree.collapse_basal_bifurcation",
         "_tree:Tree.extract_tree", "_tree:Tree.extract_tree_with_taxa", "_tree:Tree.extract_tree_with_taxa_labels",
         "_tree:Tree.extract_tree_without_taxa", "_tree:Tree.extract_tree_without_taxa_labels",
         "_node:Node.extract_subtree"]
MIN_EVENTS = {"oracle:induced-compared": (120000, 600000),
              "oracle:path-pairs-compared": (400000, 2500000),
              "oracle:agreement-compared": (120000, 500000),
              "oracle:source-untouched-compared": (35000, 200000),
              "oracle:extraction_source-compared": (190000, 1300000),
              "oracle:removed-nodes-compared": (20000, 80000),
              "oracle:single-survivor-compared": (25000, 100000),
              "oracle:selfcheck-brute-force": (1000, 1000),
              "hook:Tree.prune_taxa:return": (10000, 50000),
              "hook:Tree.prune_taxa_with_labels:return": (10000, 50000),
              "hook:Tree.retain_taxa:return": (10000, 50000),
              "hook:Tree.retain_taxa_with_labels:return": (10000, 50000),
              "hook:Tree.filter_leaf_nodes:return": (10000, 50000),
              "hook:Tree.prune_subtree:return": (10000, 50000),
              "hook:Tree.prune_leaves_without_taxa:return": (10000, 50000),
              "hook:Tree.extract_tree:return": (5000, 25000),
              "hook:Tree.extract_tree_with_taxa:return": (5000, 25000),
              "hook:Tree.extract_tree_with_taxa_labels:return": (5000, 25000),
              "hook:Tree.extract_tree_without_taxa:return": (5000, 25000),
              "hook:Tree.extract_tree_without_taxa_labels:return": (5000, 25000),
              "hook:Node.extract_subtree:return": (5000, 25000),
              # ---- monitors added after the audit ----
              "hook:Tree.prune_nodes:return": (35000, 180000),
              "op:prune_nodes": (18000, 90000),
              "op:prune_nodes(prune_leaves_without_taxa=False)": (18000, 90000),
              "class:taxa-on-internal-nodes": (9000, 90000),
              "class:leaves-without-taxon": (4000, 50000),
              "class:boundary-lengths": (8000, 100000),
              "class:namespace-larger-than-tree": (18000, 190000),
              "class:odd-labels": (6000, 65000),
              "arg:padded-with-taxa-or-labels-not-on-the-tree": (5500, 55000),
              "predicate:answers-with-non-bool-objects": (20000, 140000),
              "oracle:nothing-excluded-compared": (10000, 60000),
              "history:step-1-judged": (450, 3000),
              "history:step-2+-judged": (650, 4500),
              "history:tree-carries-a-bipartition-encoding": (180, 1100),
              "history:continues-on-the-extracted-tree": (120, 800),
              "oracle:clone-independent-of-later-source-pruning-compared": (180, 1200),
              "subnode:extract_subtree-judged": (150, 2000),
              "legacy:wrapper-judged": (1800, 14000),
              "option:extract_tree-with-tree-and-node-factory": (750, 7000),
              "option:extract_subtree-with-node-factory": (700, 7000),
              "filters:prune_leaves_without_taxa recursive=False": (190, 2300),
              "filters:prune_leaves_without_taxa recursive=True": (190, 2300),
              "filters:prune_taxa is_apply_filter_to_leaf_nodes=default is_apply_filter_to_internal_nodes=default": (110, 1300),
              "filters:prune_taxa is_apply_filter_to_leaf_nodes=False is_apply_filter_to_internal_nodes=default": (55, 650),
              "filters:prune_taxa is_apply_filter_to_leaf_nodes=default is_apply_filter_to_internal_nodes=True": (60, 700)}
ASSUMPTIONS = ["trees are built through the node API (Node.add_child) and read back from the raw child lists",
               "every node of a workload tree carries a unique name (its taxon if it has one, else its node label) so "
               "that 'which node survives a merge' and extraction_source can be judged",
               "'the surviving leaves' are the source leaves that the call does not name: a leaf without taxon is a leaf, "
               "a taxon on an internal node does not make that node a leaf",
               "a filter function's answer is read with Python truth semantics",
               "Taxon identity is the given notion of 'the same taxon'; label-based variants are judged by label",
               "a missing edge length contributes nothing to a merged length or to a path length"]
LEVEL_TEXT = ("exhaustive small shapes x all subsets plus seeded random trees (incl. taxa on internal nodes, leaves "
              "without taxon, boundary lengths, larger namespaces) and operation histories, real API under hooks")
LEVEL_NOTE = "held = no oracle clause failed on the executions listed; not a proof for larger trees"
CASE_TIMEOUT = 120

PN_DEFAULT = "prune_nodes(prune_leaves_without_taxa=False)"
INPLACE = ("prune_taxa", "prune_taxa_with_labels", "retain_taxa", "retain_taxa_with_labels",
           "filter_leaf_nodes", "prune_nodes", PN_DEFAULT, "prune_subtree", "prune_leaves_without_taxa")
LEGACY = ("legacy.prune_taxa", "legacy.retain_taxa", "legacy.prune_subtree", "legacy.prune_leaves_without_taxa")
# operations whose documented purpose is to remove every taxon-less leaf: not a 'keep this subset' route on
# trees that contain such leaves
REMOVES_TAXONLESS = ("prune_nodes", "prune_leaves_without_taxa", "legacy.prune_leaves_without_taxa")
NO_CONTAINER = ("filter_leaf_nodes", "prune_subtree", "prune_leaves_without_taxa", "extract_tree",
                "Node.extract_subtree", "legacy.prune_subtree", "legacy.prune_leaves_without_taxa")
EXTRACT = ("extract_tree_with_taxa", "extract_tree_with_taxa_labels", "extract_tree_without_taxa",
           "extract_tree_without_taxa_labels", "extract_tree", "Node.extract_subtree")
LABEL_OPS = ("prune_taxa_with_labels", "retain_taxa_with_labels", "extract_tree_with_taxa_labels",
             "extract_tree_without_taxa_labels")
HOOKED_TREE = ("prune_taxa", "prune_taxa_with_labels", "retain_taxa", "retain_taxa_with_labels",
               "filter_leaf_nodes", "prune_nodes", "prune_subtree", "prune_leaves_without_taxa",
               "extract_tree", "extract_tree_with_taxa", "extract_tree_with_taxa_labels",
               "extract_tree_without_taxa", "extract_tree_without_taxa_labels")

# smallest witnesses of the defects confirmed on the pinned tree (always run first)
DIRECTED = [
    # extract_tree_with(out)_taxa(_labels) do not forward suppress_unifurcations (smallest: 2 leaves)
    {"name": "wrapper-ignores-suppress-2", "newick": "(A:2,B:4)r", "keep": ["A"],
     "sup": False, "upd": False, "rooted": True},
    {"name": "wrapper-ignores-suppress-4", "newick": "((A:1,B:2)ab:4,(C:8,D:16)cd:32)r", "keep": ["A", "C", "D"],
     "sup": False, "upd": False, "rooted": True},
    # in-place routes: update_bipartitions=True re-suppresses although suppression was declined
    {"name": "update-bipartitions-resuppresses-2", "newick": "(A:2,B:4)r", "keep": ["A"],
     "sup": False, "upd": True, "rooted": True},
    {"name": "update-bipartitions-resuppresses-4", "newick": "((A:1,B:2)ab:4,(C:8,D:16)cd:32)r", "keep": ["A", "C", "D"],
     "sup": False, "upd": True, "rooted": True},
    # taxa / labels handed over as a one-shot iterator (consumed by the first membership test)
    {"name": "one-shot-iterable", "newick": "((A:1,B:2)ab:4,(C:8,D:16)cd:32)r", "keep": ["A", "C", "D"],
     "sup": True, "upd": False, "rooted": True, "container": "iterator",
     "ops": ["retain_taxa", "extract_tree_with_taxa", "extract_tree_with_taxa_labels",
             "extract_tree_without_taxa", "extract_tree_without_taxa_labels", "prune_taxa",
             "prune_taxa_with_labels", "retain_taxa_with_labels"]},
    {"name": "single-survivor", "newick": "((A:1,B:2)ab:4,(C:8,D:16)cd:32)r:64", "keep": ["A"],
     "sup": True, "upd": False, "rooted": True},
    {"name": "root-left-with-one-child", "newick": "((A:1,B:2)ab:4,(C:8,D:16)cd:32)r", "keep": ["C", "D"],
     "sup": True, "upd": True, "rooted": False},
    # ---- smallest members of the input classes added after the audit ----
    # taxa on internal nodes: a leaf subset neither keeps nor drops them (retain_taxa hands them to prune_taxa)
    {"name": "internal-node-taxa-survivor-below", "newick": "((A:1,B:2)X:4,(C:8,D:16)cd:32)R", "keep": ["A", "C"],
     "sup": True, "upd": False, "rooted": True, "internal_taxa": ["X", "R"]},
    {"name": "internal-node-taxa-emptied", "newick": "((A:1,B:2)X:4,(C:8,D:16)cd:32)R", "keep": ["C", "D"],
     "sup": True, "upd": False, "rooted": True, "internal_taxa": ["X", "R"]},
    # a leaf without taxon among the leaves: not named by any taxon list, so it survives
    {"name": "taxonless-leaf-in-source", "newick": "((A:1,B:2,x:3)ab:4,(C:8,D:16)cd:32)r", "keep": ["A", "C"],
     "sup": True, "upd": False, "rooted": True, "taxonless": ["x"]},
    # zero length on a node that becomes unary, above a child without length (and the mirror image)
    {"name": "zero-length-meets-missing-length", "newick": "((A,B:2)ab:0,(C:0,D:16)cd,E:1)r", "keep": ["A", "C", "E"],
     "sup": True, "upd": False, "rooted": True},
    # predicates answering None / '' / () for 'reject' and 1 / 'x' / an object for 'accept'
    {"name": "predicate-answers-none", "newick": "((A:1,B:2)ab:4,(C:8,D:16)cd:32)r", "keep": ["A", "C", "D"],
     "sup": True, "upd": False, "rooted": True, "costume": 7},
    {"name": "predicate-answers-empty-string", "newick": "((A:1,B:2)ab:4,(C:8,D:16)cd:32)r", "keep": ["A", "C", "D"],
     "sup": False, "upd": True, "rooted": True, "costume": 20},
]


def cases(tier, seed):
    for i in range(len(DIRECTED)):
        yield {"kind": "directed", "i": i, "seed": seed}
    for n in (1, 2, 3, 4):
        yield {"kind": "selfcheck", "n": n, "seed": seed}
    yield {"kind": "containers", "i": 0, "seed": seed, "fixed": True}
    nmax = 5 if tier == "quick" else 6
    for n in range(1, nmax + 1):
        for idx in range(len(gen.all_shapes(n))):
            yield {"kind": "shape", "n": n, "idx": idx, "seed": seed}
    nrand = 700 if tier == "quick" else 8000
    for i in range(nrand):
        yield {"kind": "random", "i": i, "seed": seed}
    nflt = 250 if tier == "quick" else 3000
    for i in range(nflt):
        yield {"kind": "filters", "i": i, "seed": seed}
    ncont = 60 if tier == "quick" else 600
    for i in range(1, ncont):
        yield {"kind": "containers", "i": i, "seed": seed}
    ndup = 120 if tier == "quick" else 1500
    for i in range(ndup):
        yield {"kind": "duplabels", "i": i, "seed": seed}
    nsub = 120 if tier == "quick" else 1500
    for i in range(nsub):
        yield {"kind": "subnode", "i": i, "seed": seed}
    nhist = 1200 if tier == "quick" else 8000
    for i in range(nhist):
        yield {"kind": "history", "i": i, "seed": seed}
    nopt = 120 if tier == "quick" else 1000
    for i in range(nopt):
        yield {"kind": "options", "i": i, "seed": seed}


# ======================================================================================
# worlds: a source spec + one namespace realisation; fresh live trees on demand
# ======================================================================================
def label_internal(spec):
    for k, n in enumerate(ref.preorder(spec)):
        if n[3]:
            n[1] = "i%d" % k
    return spec


def pow2_lengths(spec, root_length):
    """edge k gets 2**k: every subset sum is unique, so any mis-added length shows."""
    for k, n in enumerate(ref.preorder(spec)):
        n[2] = 1 << k
    if not root_length:
        spec[2] = None
    return spec


def parse_tiny_newick(s, internal_taxa=(), taxonless=()):
    """'((A:1,B:2)ab:4,C:8)r:16' -> spec (for the directed witnesses only).  Internal names are node labels
    unless listed in internal_taxa; leaf names are taxa unless listed in taxonless (then node labels)."""
    pos = [0]

    def node():
        kids = []
        if s[pos[0]] == "(":
            pos[0] += 1
            kids.append(node())
            while s[pos[0]] == ",":
                pos[0] += 1
                kids.append(node())
            assert s[pos[0]] == ")"
            pos[0] += 1
        j = pos[0]
        while j < len(s) and s[j] not in ",():":
            j += 1
        name = s[pos[0]:j] or None
        pos[0] = j
        ln = None
        if j < len(s) and s[j] == ":":
            k = j + 1
            while k < len(s) and s[k] not in ",()":
                k += 1
            ln = int(s[j + 1:k])
            pos[0] = k
        if kids:
            if name in internal_taxa:
                return ref.S(name, kids, ln, None)
            return ref.S(None, kids, ln, name)
        if name in taxonless:
            return ref.S(None, [], ln, name)
        return ref.S(name, [], ln, None)
    return node()


class World(object):
    def __init__(self, spec, rooted, real_labels=None, n_extra=0, flavours=()):
        import dendropy
        self.spec = spec
        self.rooted = rooted
        self.flavours = tuple(flavours)
        self.taxon_names = [n[0] for n in ref.preorder(spec) if n[0] is not None]
        self.ns = dendropy.TaxonNamespace()
        self.taxa = {}
        self.names = {}
        self.real = {}
        # taxa that are in the namespace but on no node (interleaved with the tree's taxa), taxa that are in
        # no namespace at all, labels that nothing carries: an argument may name them, they select no leaf
        self.ns_only = []
        self.foreign = []
        self.unknown_labels = ["zz~nowhere%d" % k for k in range(2)] if n_extra else []
        every = max(1, len(self.taxon_names) // (n_extra + 1)) if n_extra else 0
        for k, nm in enumerate(self.taxon_names):
            if n_extra and k % every == 0 and len(self.ns_only) < n_extra:
                t = dendropy.Taxon(label="Nq~%d" % len(self.ns_only))
                self.ns.add_taxon(t)
                self.ns_only.append(t)
                self.names[id(t)] = "?ns-only-%d" % len(self.ns_only)
            lbl = real_labels.get(nm, nm) if real_labels else nm
            t = dendropy.Taxon(label=lbl)
            self.ns.add_taxon(t)
            self.taxa[nm] = t
            self.names[id(t)] = nm
            self.real[nm] = lbl
        for k in range(min(n_extra, 2)):
            t = dendropy.Taxon(label="Fq~%d" % k)
            self.foreign.append(t)
            self.names[id(t)] = "?foreign-%d" % k
        if n_extra:
            self.flavours += ("namespace-larger-than-tree",)
        self.leaf_names = [U.name_of(n) for n in ref.leaves(spec)]
        self.leaf_taxon_names = [n[0] for n in ref.leaves(spec) if n[0] is not None]
        self.has_unary = any(len(n[3]) == 1 for n in ref.preorder(spec))
        self.exact = all(n[2] is None or isinstance(n[2], int) or float(n[2] * 64).is_integer()
                         for n in ref.preorder(spec))
        self.all_lengths = ref.has_all_lengths(spec)

    def build(self):
        return bridge.build_tree(self.spec, self.ns, self.rooted, taxa_by_label=self.taxa)


CONTAINERS = ("list", "tuple", "set", "frozenset", "dictkeys")
ONESHOT = ("iterator", "generator")


def container(kind, items):
    items = list(items)
    if kind == "list":
        return items
    if kind == "tuple":
        return tuple(items)
    if kind == "set":
        return set(items)
    if kind == "frozenset":
        return frozenset(items)
    if kind == "dictkeys":
        return dict.fromkeys(items).keys()
    if kind == "iterator":
        return iter(items)
    if kind == "generator":
        return (x for x in items)
    if kind == "namespace":
        import dendropy
        ns = dendropy.TaxonNamespace()
        for t in items:
            ns.add_taxon(t)
        return ns
    raise ValueError(kind)


# ======================================================================================
# the monitor
# ======================================================================================
class Intent(object):
    """what the driver means the next hooked call(s) to do."""

    def __init__(self, op, world, tree, sup, upd, excluded, kind, **kw):
        self.op = op
        self.world = world
        self.tree = tree
        self.sup = sup
        self.upd = upd
        self.excluded = frozenset(excluded)     # names of source nodes that are filtered out
        self.kind = kind                        # 'inplace' | 'extract'
        self.container = kw.get("container", "list")
        self.attr = kw.get("attr", "extraction_source")
        self.subnode = kw.get("subnode")        # name of the non-root node extract_subtree is called on
        self.model = kw.get("model")            # None | ('filter', accept_names, recursive)
        self.judge_removed = kw.get("judge_removed", False)
        self.check_paths_fully = False
        self.tags = tuple(kw.get("tags", ()))   # event names counted when (and only when) the call is judged
        self.before = None
        self.after = None
        self.results = []
        self.exc = None
        self.calls = 0


class Monitor(object):
    def __init__(self, ctx, hooks):
        import dendropy
        self.ctx = ctx
        self.intent = None
        self.last = None
        for name in HOOKED_TREE:
            hooks.install(dendropy.Tree, name, pre=self._pre, post=self._post)
        hooks.install(dendropy.Node, "extract_subtree", pre=self._pre, post=self._post)

    # -- hook callbacks: snapshots at the call boundary ----------------------------------
    def _pre(self, obj, args, kw):
        it = self.intent
        if it is None:
            return None
        it.calls += 1
        if it.before is None:
            it.before = U.snap(it.tree, it.world.names)
        return it

    def _post(self, it, obj, args, kw, result, exc):
        if it is None:
            return
        try:
            it.after = U.snap(it.tree, it.world.names)
        except U.SnapError as e:
            it.after = e
        it.results.append(result)
        if exc is not None:
            it.exc = exc

    # -- driver interface ----------------------------------------------------------------
    def run(self, intent, thunk):
        """perform the call(s) under observation and judge; returns the canonical agreement
        signature of the result (None when the result was not obtained)."""
        self.intent = intent
        self.last = intent
        try:
            try:
                thunk()
            except Exception as e:     # reported below through intent.exc / ctx.unexpected
                if intent.exc is None:
                    intent.exc = e
        finally:
            self.intent = None
        return judge(self.ctx, intent)


def disc_of(it):
    if it.container in ONESHOT:
        return "one-shot-iterable"
    if it.kind == "extract":
        return "extraction"
    return "update_bipartitions=%s" % it.upd


def vio(ctx, it, clause, what, extra=None, disc=None):
    w = it.world
    detail = {"tree": ref.to_newick(it.before.spec) if it.before is not None else ref.to_newick(w.spec),
              "filtered_out": sorted(it.excluded), "suppress_unifurcations": it.sup,
              "update_bipartitions": it.upd, "rooted": w.rooted, "container": it.container}
    if it.subnode:
        detail["called_on_node"] = it.subnode
    if extra:
        detail.update(extra)
    key = "%s|%s|%s" % (it.op, clause, disc or disc_of(it))
    ctx.violation(key, "%s: %s" % (it.op, what), detail)
    return key


def expected_for(it, src_spec, sup=None, excluded=None):
    """(expected spec, merged names, vanished names, surviving leaf names) from the reference model.
    src_spec is a leaf view (U.leafview); sup / excluded override the intent's values."""
    if sup is None:
        sup = it.sup
    if excluded is None:
        excluded = it.excluded
    by_name = dict((U.name_of(n), n) for n in ref.preorder(src_spec))
    if it.model is not None:
        _, accept_names, recursive = it.model
        exp, removed = U.filter_model(src_spec, lambda n: U.name_of(n) in accept_names, recursive, sup)
        if exp is None:
            return None, set(), set(), []
        exp = U.leafview(exp)
        alive = set(U.name_of(n) for n in ref.preorder(exp))
        vanished = set(U.name_of(n) for n in removed)
        merged = set(by_name) - alive - vanished
        return exp, merged, vanished, [U.name_of(n) for n in ref.leaves(exp)]
    excl_ids = set(id(by_name[nm]) for nm in excluded if nm in by_name)
    keep = U.surviving_leaf_names(src_spec, excl_ids)
    exp = ref.induced(src_spec, [k for k in keep], sup)
    mine, prov, merged, vanished = U.induced_prov(src_spec, excl_ids, sup)
    if (exp is None) != (mine is None) or (exp is not None and ref.ordered(exp) != ref.ordered(mine)):
        raise AssertionError("vf.ref.induced and the provenance model disagree on %s / %s"
                             % (ref.to_newick(src_spec), sorted(it.excluded)))
    return exp, set(U.name_of(n) for n in merged), set(U.name_of(n) for n in vanished), keep


def lengths_differ(exp, got, exact):
    le, lg = U.lens_by_name(exp), U.lens_by_name(got)
    bad = [nm for nm in le if nm in lg and not U.close(le[nm], lg[nm], exact)]
    return bad


def paths_differ(a, b, exact, only=None):
    pa, pb = U.pair_paths(a), U.pair_paths(b)
    bad = []
    n = 0
    for k, v in pb.items():
        if k in pa:
            n += 1
            if not U.close(pa[k], v, exact):
                bad.append((sorted(k), pa[k], v))
    return n, bad


def compare_rooted(exp, got, sup, exact):
    """None when got is the expected tree, else (clause, explanation)."""
    le = sorted(map(str, (U.name_of(x) for x in ref.leaves(exp))))
    lg = sorted(map(str, (U.name_of(x) for x in ref.leaves(got))))
    if le != lg:
        if any(x[0] is None for x in ref.leaves(got)):
            return "wrong-leaf-set:taxonless-leaf-left", "leaves %s, expected %s" % (lg, le)
        return "wrong-leaf-set", "leaves %s, expected %s" % (lg, le)
    ue, ug = U.unary_names(exp), U.unary_names(got)
    if sup and ug:
        return "unary-node-left", "outdegree-1 nodes %s remain although suppression was requested" % sorted(ug)
    if not sup and ug != ue:
        se, sg = ref.suppress_unary(exp), ref.suppress_unary(got)
        if ug < ue and ref.canon(se, lengths=False) == ref.canon(sg, lengths=False) \
                and not lengths_differ(se, sg, exact):
            return ("suppression-declined-but-unary-nodes-merged",
                    "suppress_unifurcations=False but nodes %s were merged into their child" % sorted(ue - ug))
    if ref.rooted_clades(exp) != ref.rooted_clades(got) or ref.n_nodes(exp) != ref.n_nodes(got):
        return "clades-differ", "clades are not the non-empty restrictions of the source clades"
    if ref.canon(exp, lengths=False) != ref.canon(got, lengths=False):
        return "wrong-node-survives-merge", "same clades, but node labels/taxa sit on other nodes than expected"
    bad = lengths_differ(exp, got, exact)
    if bad:
        _, pb = paths_differ(exp, got, exact)
        if pb:
            return "path-lengths-changed", "edge lengths of %s differ; e.g. path %s expected %r got %r" % (
                bad[:4], pb[0][0], pb[0][1], pb[0][2])
        if len(le) == 1:
            return "length-not-accumulated", "single survivor has length %r, expected %r" % (
                U.lens_by_name(got).get(bad[0]), U.lens_by_name(exp).get(bad[0]))
        return "edge-lengths-differ", "edge lengths of %s differ (leaf-to-leaf paths equal)" % bad[:4]
    return None


def compare_unrooted(exp, got, sup, exact, judge_lengths):
    """in-place route with update_bipartitions=True on an unrooted tree: the bipartition update collapses a
    basal bifurcation (documented in encode_bipartitions), i.e. it may delete ONE child of a bifurcating root
    that itself has >= 2 children and hang that child's children on the root, adding the deleted edge's length
    to its sibling's.  Everything else is judged by name like in the rooted comparison."""
    le = sorted(map(str, (U.name_of(x) for x in ref.leaves(exp))))
    lg = sorted(map(str, (U.name_of(x) for x in ref.leaves(got))))
    if le != lg:
        return "wrong-leaf-set", "leaves %s, expected %s" % (lg, le)
    ug = U.unary_names(got)
    if sup and ug:
        return "unary-node-left", "outdegree-1 nodes %s remain although suppression was requested" % sorted(ug)
    if not sup:
        # the basal collapse of the bipartition update only ever deletes a root child with >= 2 children,
        # never a unary node: every unary node of the expected tree must still be there
        have = set(U.name_of(n) for n in ref.preorder(got))
        gone = U.unary_names(exp) - have
        if gone:
            return ("suppression-declined-but-unary-nodes-merged",
                    "suppress_unifurcations=False but nodes %s were merged into their child" % sorted(gone))
    if ref.unrooted_splits(exp) != ref.unrooted_splits(got):
        return "clades-differ", "unrooted split set differs from that of the induced tree"
    # ---- by name: which nodes are there, who is whose parent, per-node lengths ---------------------
    pe, pg = U.parent_names(exp), U.parent_names(got)
    root = U.name_of(exp)
    collapsible = set(U.name_of(c) for c in exp[3] if len(c[3]) >= 2) if len(exp[3]) == 2 else set()
    extra = set(pg) - set(pe)
    gone = set(pe) - set(pg)
    if extra or len(gone) > 1 or not gone <= collapsible:
        return ("wrong-node-survives-merge",
                "nodes %s are missing, nodes %s are unexpected (only one >=2-child child of a bifurcating root may "
                "be collapsed by the bipartition update)" % (sorted(map(str, gone)), sorted(map(str, extra))))
    for nm, par in pg.items():
        want = pe[nm]
        if want in gone:
            want = root
        if par != want:
            return "clades-differ", "node %r hangs under %r, expected under %r" % (nm, par, want)
    le_, lg_ = U.lens_by_name(exp), U.lens_by_name(got)
    basal = set(U.name_of(c) for c in exp[3]) if collapsible else set()
    bad = [nm for nm in lg_ if nm not in basal and not U.close(le_[nm], lg_[nm], exact)]
    if basal and not bad:
        se = [le_[nm] for nm in basal if le_[nm] is not None]
        sg = [lg_[nm] for nm in basal if nm in lg_ and lg_[nm] is not None]
        if not gone:
            bad = [nm for nm in basal if not U.close(le_[nm], lg_[nm], exact)]
        elif not U.close(sum(se) if se else None, sum(sg) if sg else None, exact):
            bad = sorted(basal)
    if not bad and judge_lengths:
        a, _ = ref.split_lengths(exp, False)
        b, _ = ref.split_lengths(got, False)
        bad = [sorted(map(sorted, k)) for k in a if not U.close(a[k], b.get(k), exact)]
    if bad:
        _, pb = paths_differ(exp, got, exact)
        if pb:
            return "path-lengths-changed", "path %s expected %r got %r" % pb[0]
        if len(le) == 1:
            return "length-not-accumulated", "single survivor: lengths of %s differ from the accumulated ones" % bad[:4]
        return "edge-lengths-differ", "edge lengths of %s differ (leaf-to-leaf paths equal)" % bad[:4]
    return None


def compare(exp, got, sup, exact, unrooted_mode, judge_lengths):
    if unrooted_mode:
        return compare_unrooted(exp, got, sup, exact, judge_lengths)
    return compare_rooted(exp, got, sup, exact)


def judge(ctx, it):
    """all oracle clauses for one observed operation; returns the agreement signature or None."""
    w = it.world
    op = it.op
    if it.before is None:
        ctx.violation("harness|hook-not-entered|%s" % op, "the hook on %s saw no call" % op)
        return None
    src = it.before
    if src.dup_names:
        ctx.violation("harness|duplicate-node-names", "workload tree has duplicate names %s" % src.dup_names)
        return None
    src_orig = src.spec
    if it.subnode:
        src_orig = [n for n in ref.preorder(src.spec) if U.name_of(n) == it.subnode][0]
    src_spec = U.leafview(src_orig)
    exp, merged, vanished, keep = expected_for(it, src_spec)
    if it.exc is not None:
        import dendropy
        if (it.subnode and isinstance(it.exc, ValueError) and it.sup and exp is not None
                and it.subnode in merged):
            # documented-in-code limitation (TODO in Node.extract_subtree): the called-on node itself would be
            # suppressed.  Noted, not judged -- every other ValueError is judged below.
            ctx.note("Node.extract_subtree(non-root)-top-node-unary-raises-ValueError")
            return None
        if it.container in ONESHOT and (isinstance(it.exc, dendropy.utility.error.SeedNodeDeletionException)
                                        or (isinstance(it.exc, AttributeError) and "remove_child" in str(it.exc))):
            # every leaf was filtered out although the intent keeps some: the wrong-leaf-set mechanism
            vio(ctx, it, "wrong-leaf-set", "no leaf survived (%s) although %d taxa were to be kept" % (
                core_brief(it.exc), len(keep)))
            return None
        ctx.unexpected(op, it.exc, {"tree": ref.to_newick(it.before.spec), "filtered_out": sorted(it.excluded),
                                    "suppress_unifurcations": it.sup, "update_bipartitions": it.upd,
                                    "container": it.container, "called_on_node": it.subnode})
        return None
    if exp is None:
        ctx.note("no-surviving-leaf:not-judged")
        return None
    # ---- obtain the result -----------------------------------------------------------------
    if isinstance(it.after, U.SnapError):
        vio(ctx, it, "malformed-tree-after-call", str(it.after))
        return None
    if it.kind == "inplace":
        got_snap = it.after
        res_tree = it.tree
    else:
        res = it.results[-1]
        try:
            got_snap = U.snap(res, w.names)
        except U.SnapError as e:
            vio(ctx, it, "malformed-result", str(e))
            return None
        res_tree = res if hasattr(res, "_seed_node") else None
    got_orig = got_snap.spec
    got = U.leafview(got_orig)
    if res_tree is not None:
        probs = arbor.check(res_tree, iterators=False)
        if probs:
            vio(ctx, it, "malformed-result", "; ".join(probs[:3]))
            return None
    if got_snap.dup_names:
        vio(ctx, it, "malformed-result", "names %s occur twice in the result" % got_snap.dup_names[:4])
        return None
    n_removed = len(ref.leaves(src_spec)) - len(keep)
    # ---- (1) induced subtree ------------------------------------------------------------------
    unrooted_mode = it.kind == "inplace" and it.upd and not w.rooted
    ctx.ev("oracle:induced-compared")
    ctx.ev("op:%s" % op)
    for tag in it.tags:
        ctx.ev(tag)
    for fl in w.flavours:
        ctx.ev("class:%s" % fl)
    if it.subnode:
        ctx.ev("subnode:extract_subtree-judged")
    single = len(keep) == 1
    if single:
        ctx.ev("oracle:single-survivor-compared")
    if unrooted_mode:
        ctx.ev("oracle:induced-compared:as-unrooted-tree")
    fired = None
    extra_detail = {}
    leafset_ok = True
    # ---- (1a) the leaf set, with the two named deviations on the new input classes -------------------
    exp_leaf = set(U.name_of(x) for x in ref.leaves(exp))
    got_leaf = set(U.name_of(x) for x in ref.leaves(got))
    if exp_leaf != got_leaf:
        missing, extra = exp_leaf - got_leaf, got_leaf - exp_leaf
        tl_src = U.taxonless_leaf_names(src_orig)
        int_tax = U.internal_taxon_names(src_orig)
        if it.model is None and missing <= tl_src and extra <= int_tax:
            if missing:
                fired = vio(ctx, it, "wrong-leaf-set:taxonless-source-leaf-removed",
                            "source leaves without taxon %s were removed although the call does not name them" % sorted(missing),
                            {"expected": ref.to_newick(exp), "got": ref.to_newick(got_orig)})
            if extra and op in REMOVES_TAXONLESS:
                # documented for these calls: only terminal nodes WITHOUT a taxon are cleaned up
                ctx.note("emptied-internal-node-with-taxon-stays-a-leaf:documented-for:%s" % op)
            elif extra:
                k = vio(ctx, it, "wrong-leaf-set:emptied-internal-node-with-taxon-left",
                        "internal nodes %s lost all their children and are left behind as new leaves (they carry a taxon)"
                        % sorted(extra), {"expected": ref.to_newick(exp), "got": ref.to_newick(got_orig)})
                fired = fired or k
            # judge everything else against the tree induced by the leaf set the library produced
            alt = ref.copy(src_spec)
            for n in ref.preorder(alt):
                if U.name_of(n) in extra:
                    n[3] = []
            exp, merged, vanished, keep = expected_for(it, alt, excluded=(set(it.excluded) - extra) | missing)
            extra_detail["judged-against-leaf-set-as-produced"] = True
            ctx.ev("oracle:induced-compared:against-leaf-set-as-produced")
        else:
            clause = "wrong-leaf-set"
            if any(x[0] is None and U.name_of(x) not in exp_leaf for x in ref.leaves(got_orig)):
                clause = "wrong-leaf-set:taxonless-leaf-left"
            fired = vio(ctx, it, clause, "leaves %s, expected %s" % (sorted(map(str, got_leaf)), sorted(map(str, exp_leaf))),
                        {"expected": ref.to_newick(exp), "got": ref.to_newick(got_orig)})
            leafset_ok = False
    verdict = None
    if leafset_ok:
        verdict = compare(exp, got, it.sup, w.exact, unrooted_mode, w.all_lengths)
        nothing_excluded = n_removed == 0 and not vanished
        if nothing_excluded:
            ctx.ev("oracle:nothing-excluded-compared")
        if verdict is not None and nothing_excluded and it.sup and U.unary_names(src_spec):
            # nothing was excluded: no node was *left* with a single child by this call; pre-existing unary
            # nodes may stay (extract_* docstrings: suppression "only will be done if some nodes are excluded")
            exp0, _, _, _ = expected_for(it, src_spec, sup=False)
            if exp0 is not None and compare(exp0, got, False, w.exact, unrooted_mode, w.all_lengths) is None:
                ctx.note("nothing-excluded:pre-existing-unary-nodes-kept:%s" % op)
                verdict = None
                exp, merged = exp0, set()
    if verdict is not None:
        clause, what = verdict
        if single and clause in ("unary-node-left", "wrong-node-survives-merge", "edge-lengths-differ"):
            clause += ":single-survivor"
        d = {"expected": ref.to_newick(exp), "got": ref.to_newick(got_orig)}
        d.update(extra_detail)
        k = vio(ctx, it, clause, what, d)
        fired = fired or k
    elif leafset_ok and not unrooted_mode and ref.ordered(exp, lengths=False) != ref.ordered(got, lengths=False):
        ctx.note("child-order-differs-from-source-order:%s" % op)

    # ---- (2) path lengths between survivors, source vs result ---------------------------------
    if fired is None and len(keep) >= 2:
        if len(keep) <= 24 or unrooted_mode or it.check_paths_fully:
            # a path between two surviving leaves runs through their ancestors only: on a big source the paths
            # are computed on the source stripped of the other leaves (nothing merged, no length touched)
            src_paths = src_spec
            if len(keep) * 2 < len(ref.leaves(src_spec)):
                src_paths = ref.induced(src_spec, keep, False)
            n, bad = paths_differ(src_paths, got, w.exact)
            ctx.ev("oracle:path-pairs-compared", n)
            if bad:
                fired = vio(ctx, it, "path-lengths-changed",
                            "path %s was %r in the source, is %r" % bad[0],
                            {"expected": ref.to_newick(exp), "got": ref.to_newick(got_orig)})
    # ---- (6) reported removed nodes -------------------------------------------------------------
    if it.judge_removed:
        judge_removed(ctx, it, src, got_snap, exp, merged, vanished, fired, unrooted_mode)
    # ---- (4) (5) extraction: source untouched, no sharing, provenance -----------------------------
    if it.kind == "extract":
        ctx.ev("oracle:source-untouched-compared")
        if it.after.sig != src.sig:
            vio(ctx, it, "source-tree-altered", describe_sig_change(src, it.after))
        shared = got_snap.node_ids & src.node_ids
        if shared or (got_snap.edge_ids & src.edge_ids):
            vio(ctx, it, "result-shares-nodes-with-source", "%d nodes / %d edges of the result are source objects" % (
                len(shared), len(got_snap.edge_ids & src.edge_ids)))
        src_lists = set(e[8] for e in src.sig[1])
        if any(e[8] in src_lists for e in got_snap.sig[1]):
            vio(ctx, it, "result-shares-child-list-with-source", "a result node uses a source node's child list object")
        if fired is None:
            missing = object()
            for sp, nd in got_snap.pairs:
                ctx.ev("oracle:extraction_source-compared")
                want = src.by_name.get(U.name_of(sp))
                if it.attr is None:
                    if getattr(nd, "extraction_source", missing) is not missing:
                        vio(ctx, it, "extraction_source-set-although-declined", "attribute name None was passed")
                        break
                    continue
                have = getattr(nd, it.attr, missing)
                if have is not want:
                    hn = None
                    if have is not missing and have is not None:
                        hn = [U.name_of(s) for s, x in src.pairs if x is have] or ["<not a source node>"]
                    vio(ctx, it, "extraction_source-wrong",
                        "node %r: %s is %s, expected the source node %r" % (
                            U.name_of(sp), it.attr, "missing" if have is missing else hn, U.name_of(sp)),
                        {"got": ref.to_newick(got_orig)})
                    break
    # ---- evidence ---------------------------------------------------------------------------------
    if n_removed >= 1 and (ref.n_nodes(exp) > len(keep) or merged):
        ctx.nontrivial((op, ref.canon(src_spec), sorted(map(str, keep)), it.sup, it.upd, w.rooted, it.container))
    if fired is not None:
        return ("violated", fired)
    if extra_detail:
        return None         # judged against the leaf set as produced: takes no part in the agreement clause
    # 1 and 1.0 are the same length: only worlds that mix ints and floats need the normalisation
    sig_spec = U.float_lengths(got) if "boundary-lengths" in w.flavours else got
    if unrooted_mode:
        sl, _ = ref.split_lengths(sig_spec, False)
        return ("u", tuple(sorted(lg_name(got))), frozenset((k, repr(v)) for k, v in sl.items()) if w.exact else None)
    return ("r", ref.canon(sig_spec) if w.exact else ref.canon(got, lengths=False))


def core_brief(exc):
    return "%s: %s" % (type(exc).__name__, str(exc)[:120])


def lg_name(spec):
    return [str(U.name_of(x)) for x in ref.leaves(spec)]


def describe_sig_change(a, b):
    if a.sig[0] != b.sig[0]:
        return "tree-level state (seed node / rooting / label / namespace / bipartition encoding) changed"
    if len(a.sig[1]) != len(b.sig[1]):
        return "source has %d nodes after the call, had %d" % (len(b.sig[1]), len(a.sig[1]))
    fields = ("node", "edge", "taxon", "label", "length", "edge label", "edge head", "children", "child list object",
              "parent", "instance attributes")
    for x, y in zip(a.sig[1], b.sig[1]):
        for k in range(len(x)):
            if x[k] != y[k]:
                return "source node %r: %s changed (%r -> %r)" % (x[3], fields[k], x[k], y[k])
    return "signature differs"


def judge_removed(ctx, it, src, got_snap, exp, merged, vanished, fired, unrooted_mode):
    ctx.ev("oracle:removed-nodes-compared")
    reported = it.results[-1]
    if not isinstance(reported, list):
        vio(ctx, it, "removed-nodes-not-reported", "returned %r instead of the list of removed nodes" % (reported,))
        return
    name_by_id = dict((id(nd), U.name_of(sp)) for sp, nd in src.pairs)
    rep_ids = [id(x) for x in reported]
    if len(set(rep_ids)) != len(rep_ids):
        vio(ctx, it, "removed-node-reported-twice", "the returned list names a node twice")
        return
    removed = src.node_ids - got_snap.node_ids
    foreign = [i for i in rep_ids if i not in src.node_ids]
    if foreign:
        vio(ctx, it, "reported-node-not-from-tree", "%d reported nodes were never part of the tree" % len(foreign))
        return
    still = sorted(str(name_by_id[i]) for i in rep_ids if i not in removed)
    if still:
        vio(ctx, it, "reported-node-not-removed", "reported as removed but still in the tree: %s" % still)
        return
    extra = set(name_by_id[i] for i in removed - set(rep_ids))
    allowed = set(merged)       # empty when suppression is off
    if unrooted_mode and len(exp[3]) == 2:
        # the bipartition update of an unrooted tree collapses one >=2-child child of a bifurcating root
        allowed.update(U.name_of(c) for c in exp[3] if len(c[3]) >= 2)
    if extra <= allowed:
        return
    if not it.sup and fired is not None and "suppression-declined" in fired:
        # same root cause as the violation already reported for this call: the nodes that went
        # unreported are the unary nodes the library merged although suppression was declined
        ctx.ev("removed-clause:difference-explained-by-suppression-violation")
        return
    vio(ctx, it, "removed-node-not-reported",
        "removed, not reported%s: %s" % (" and not a suppressed unary node" if it.sup else "",
                                          sorted(map(str, extra - allowed))))


# ======================================================================================
# drivers: one (world, surviving set, flags) through every applicable API variant
# ======================================================================================
def maximal_dropped(spec, dropped_leaf_names):
    """names of the maximal nodes all of whose leaves are dropped."""
    dropped = set(dropped_leaf_names)
    full = {}
    for n in ref.postorder(spec):
        if not n[3]:
            full[id(n)] = U.name_of(n) in dropped
        else:
            full[id(n)] = all(full[id(c)] for c in n[3])
    out = []
    stack = [spec]
    while stack:
        n = stack.pop()
        if full[id(n)]:
            out.append(U.name_of(n))
        else:
            stack.extend(reversed(n[3]))
    return out


def name_filter(w, keep_names, costume=0):
    """predicate on live nodes: 'this node's unique name (taxon name, else node label) is in keep_names',
    answering with the costume's truthy / falsy objects."""
    keep_f = frozenset(keep_names)
    names = w.names

    def base(nd):
        nm = names.get(id(nd.taxon)) if nd.taxon is not None else nd.label
        return nm in keep_f
    return U.costumed(base, costume)


_SUBCLASSES = []


def subclasses():
    """a Tree and a Node subclass (extract_tree's tree_factory / node_factory)."""
    if not _SUBCLASSES:
        import dendropy

        class NodeSub(dendropy.Node):
            pass

        class TreeSub(dendropy.Tree):
            pass
        _SUBCLASSES.extend([TreeSub, NodeSub])
    return _SUBCLASSES


def quiet(fn, *a, **kw):
    """call a deprecated wrapper without its deprecation warning on stderr."""
    with warnings.catch_warnings():
        warnings.simplefilter("ignore")
        # the library re-installs its own filter for its deprecation category on first use
        warnings.showwarning = lambda *args, **kwargs: None
        return fn(*a, **kw)


def run_variant(mon, w, op, keep, sup, upd, cont="list", attr="extraction_source", check_paths=False,
                tree=None, costume=0, pad=False, factories=False, tags=()):
    """apply API variant `op` so that exactly the leaves in `keep` (unique names) survive -- on a fresh tree of
    world w, or on the given live tree (histories).  Leaves without a taxon always survive (no taxon list
    names them).  Returns the agreement signature (None: not applicable / not obtained)."""
    ctx = mon.ctx
    if tree is None:
        fresh = True
        spec = w.spec
        tree = w.build()
    else:
        fresh = False
        spec = U.snap(tree, w.names).spec
    leaf_names = [U.name_of(n) for n in ref.leaves(spec)]
    taxonless = U.taxonless_leaf_names(spec)
    if taxonless and op in REMOVES_TAXONLESS:
        ctx.ev("not-applicable:%s-on-a-tree-with-taxonless-leaves" % op)
        return None
    keep = set(keep) | taxonless
    drop = [nm for nm in leaf_names if nm not in keep]
    keep_l = [nm for nm in leaf_names if nm in keep and nm not in taxonless]
    if not keep_l:
        # quantifier: every call keeps at least one leaf that a taxon list can name
        ctx.ev("not-applicable:no-surviving-leaf-with-a-taxon")
        return None
    flags = {"update_bipartitions": upd, "suppress_unifurcations": sup}
    kind = "extract" if op in EXTRACT else "inplace"
    tags = list(tags)
    kw = {"container": cont if op not in NO_CONTAINER else "list", "attr": attr}
    excluded = drop
    pad_taxa, pad_labels = [], []
    if pad and (w.ns_only or w.foreign):
        pad_taxa = w.ns_only + w.foreign
        pad_labels = [t.label for t in w.ns_only] + w.unknown_labels
        if op not in NO_CONTAINER:
            tags.append("arg:padded-with-taxa-or-labels-not-on-the-tree")
    uses_predicate = op in ("filter_leaf_nodes", "extract_tree", "Node.extract_subtree")
    leaf_filter = name_filter(w, keep, costume if uses_predicate else 0)
    if uses_predicate and costume % U.N_COSTUMES:
        tags.append("predicate:answers-with-non-bool-objects")

    def live_nodes():
        return dict((U.name_of(sp), nd) for sp, nd in U.snap(tree, w.names).pairs)
    if op in ("prune_taxa", "legacy.prune_taxa"):
        arg = container(cont, [w.taxa[nm] for nm in drop] + pad_taxa)
        if op == "prune_taxa":
            thunk = lambda: tree.prune_taxa(arg, **flags)
        else:
            from dendropy.legacy import treemanip
            thunk = lambda: quiet(treemanip.prune_taxa, tree, arg, suppress_unifurcations=sup)
    elif op == "prune_taxa_with_labels":
        arg = container(cont, [w.real[nm] for nm in drop] + pad_labels)
        thunk = lambda: tree.prune_taxa_with_labels(arg, **flags)
    elif op in ("retain_taxa", "legacy.retain_taxa"):
        arg = container(cont, [w.taxa[nm] for nm in keep_l] + pad_taxa)
        if op == "retain_taxa":
            thunk = lambda: tree.retain_taxa(arg, **flags)
        else:
            from dendropy.legacy import treemanip
            thunk = lambda: quiet(treemanip.retain_taxa, tree, arg, suppress_unifurcations=sup)
    elif op == "retain_taxa_with_labels":
        arg = container(cont, [w.real[nm] for nm in keep_l] + pad_labels)
        thunk = lambda: tree.retain_taxa_with_labels(arg, **flags)
    elif op == "filter_leaf_nodes":
        kw["judge_removed"] = True
        thunk = lambda: tree.filter_leaf_nodes(leaf_filter, **flags)
    elif op == "prune_nodes":
        by = live_nodes()
        arg = container(cont, [by[nm] for nm in drop])
        thunk = lambda: tree.prune_nodes(arg, prune_leaves_without_taxa=True, **flags)
    elif op == PN_DEFAULT:
        # the default leaves emptied parents behind: hand over the maximal dropped nodes (as for prune_subtree)
        by = live_nodes()
        arg = container(cont, [by[nm] for nm in maximal_dropped(spec, drop)])
        thunk = lambda: tree.prune_nodes(arg, **flags)
    elif op in ("prune_subtree", "legacy.prune_subtree"):
        tops = maximal_dropped(spec, drop)
        if not tops or (op == "legacy.prune_subtree" and len(tops) > 1):
            ctx.ev("not-applicable:%s:%s" % (op, "nothing-to-drop" if not tops else "several-subtrees"))
            return None
        if any(len(n[3]) == 1 for n in ref.preorder(spec)) and sup and len(tops) > 1:
            ctx.note("prune_subtree-sequence-skipped:pre-existing-unary-nodes")
            return None
        by = live_nodes()
        if op == "legacy.prune_subtree":
            from dendropy.legacy import treemanip
            thunk = lambda: quiet(treemanip.prune_subtree, tree, by[tops[0]], suppress_unifurcations=sup)
        else:
            def thunk():
                for k, nm in enumerate(tops):
                    last = k == len(tops) - 1
                    tree.prune_subtree(by[nm], update_bipartitions=(upd and last), suppress_unifurcations=sup)
    elif op in ("prune_leaves_without_taxa", "legacy.prune_leaves_without_taxa"):
        if not fresh:
            ctx.ev("not-applicable:%s-in-a-history" % op)
            return None
        # same tree, but the leaves to go carry no taxon
        spec2 = ref.copy(spec)
        for n in ref.leaves(spec2):
            if n[0] not in keep:
                n[1] = "x_%s" % n[0]
                n[0] = None
        tree = bridge.build_tree(spec2, w.ns, w.rooted, taxa_by_label=w.taxa)
        excluded = ["x_%s" % nm for nm in drop]
        if op == "prune_leaves_without_taxa":
            kw["judge_removed"] = True
            thunk = lambda: tree.prune_leaves_without_taxa(**flags)
        else:
            from dendropy.legacy import treemanip
            thunk = lambda: quiet(treemanip.prune_leaves_without_taxa, tree, suppress_unifurcations=sup)
    elif op == "extract_tree_with_taxa":
        arg = container(cont, [w.taxa[nm] for nm in keep_l] + pad_taxa)
        thunk = lambda: tree.extract_tree_with_taxa(arg, extraction_source_reference_attr_name=attr,
                                                    suppress_unifurcations=sup)
    elif op == "extract_tree_with_taxa_labels":
        arg = container(cont, [w.real[nm] for nm in keep_l] + pad_labels)
        thunk = lambda: tree.extract_tree_with_taxa_labels(arg, extraction_source_reference_attr_name=attr,
                                                           suppress_unifurcations=sup)
    elif op == "extract_tree_without_taxa":
        arg = container(cont, [w.taxa[nm] for nm in drop] + pad_taxa)
        thunk = lambda: tree.extract_tree_without_taxa(arg, extraction_source_reference_attr_name=attr,
                                                       suppress_unifurcations=sup)
    elif op == "extract_tree_without_taxa_labels":
        arg = container(cont, [w.real[nm] for nm in drop] + pad_labels)
        thunk = lambda: tree.extract_tree_without_taxa_labels(arg, extraction_source_reference_attr_name=attr,
                                                              suppress_unifurcations=sup)
    elif op == "extract_tree":
        fkw = {}
        if factories:
            tree_sub, node_sub = subclasses()
            fkw = {"tree_factory": tree_sub, "node_factory": node_sub}
            tags.append("option:extract_tree-with-tree-and-node-factory")
        thunk = lambda: tree.extract_tree(extraction_source_reference_attr_name=attr, node_filter_fn=leaf_filter,
                                          suppress_unifurcations=sup, **fkw)
    elif op == "Node.extract_subtree":
        fkw = {}
        if factories:
            fkw = {"node_factory": subclasses()[1]}
            tags.append("option:extract_subtree-with-node-factory")
        thunk = lambda: tree.seed_node.extract_subtree(extraction_source_reference_attr_name=attr,
                                                       node_filter_fn=leaf_filter, suppress_unifurcations=sup, **fkw)
    else:
        raise ValueError(op)
    if op in LEGACY:
        upd = False
        tags.append("legacy:wrapper-judged")
    it = Intent(op, w, tree, sup, upd, excluded, kind, tags=tags, **kw)
    it.check_paths_fully = check_paths
    sig = mon.run(it, thunk)
    if factories and op in ("extract_tree", "Node.extract_subtree") and it.exc is None and it.results:
        # documented, but not part of the STATEMENT: recorded only
        res = it.results[-1]
        tree_sub, node_sub = subclasses()
        nodes = [nd for _, nd in U.snap(res, w.names).pairs]
        ok = all(type(nd) is node_sub for nd in nodes) and (op != "extract_tree" or type(res) is tree_sub)
        ctx.note("factories:%s:result-%s" % (op, "built-by-the-factories" if ok else "NOT-built-by-the-factories"))
    return sig


def run_all_variants(mon, w, keep, sup, upd_values=(False, True), ops=None, rng=None, costume=None):
    """every API variant on the same (tree, subset, suppress); then the agreement clause."""
    ctx = mon.ctx
    sigs = {}
    if costume is None and rng is None:
        # exhaustive part: a deterministic rotation, half of the calls with the strict-bool predicate
        h = len(keep) * 7 + sum(len(str(x)) + ord(str(x)[-1]) for x in keep) + 3 * bool(sup)
        costume = 0 if h % 2 else h // 2
    for op in (ops or (EXTRACT + INPLACE)):
        cost = costume if costume is not None else (0 if rng.random() < 0.4 else rng.randrange(U.N_COSTUMES))
        pad = rng is not None and rng.random() < 0.5
        fact = rng is not None and rng.random() < 0.25
        if op in EXTRACT:
            cont = rng.choice(CONTAINERS) if rng else "list"
            attr = "extraction_source"
            if rng is not None and rng.random() < 0.15:
                attr = rng.choice([None, "src_ref"])
            sigs[(op, None)] = run_variant(mon, w, op, keep, sup, False, cont, attr, costume=cost, pad=pad,
                                           factories=fact)
        else:
            for upd in (upd_values if op not in LEGACY else (False,)):    # the legacy wrappers have no such switch
                cont = rng.choice(CONTAINERS) if rng else "list"
                sigs[(op, upd)] = run_variant(mon, w, op, keep, sup, upd, cont, costume=cost, pad=pad)
    # ---- (3) agreement: extraction and in-place(upd=False) in rooted form; in-place(upd=True) among themselves
    groups = [[k for k in sigs if k[1] in (None, False)], [k for k in sigs if k[1] is True]]
    for g in groups:
        g = [k for k in g if sigs[k] is not None]
        good = [k for k in g if sigs[k][0] != "violated"]
        for k in g:
            ctx.ev("oracle:agreement-compared")
        if not good:
            continue
        refk = good[0]
        for k in good[1:]:
            if sigs[k] != sigs[refk]:
                ctx.violation("agreement|%s-vs-%s|results-differ-although-each-passed-the-oracle" % (k[0], refk[0]),
                              "API variants disagree on the same (tree, subset, flags)",
                              {"tree": ref.to_newick(w.spec), "keep": sorted(keep), "suppress_unifurcations": sup})
        for k in g:
            if sigs[k][0] == "violated":
                ctx.ev("agreement:deviation-explained-by-oracle-violation")
    return sigs


# ======================================================================================
def biased_subsets(rng, spec, k):
    """k surviving sets: singletons, all-but-one, all, whole clades emptied, root left with one child, random."""
    names = [U.name_of(n) for n in ref.leaves(spec)]
    cl = [(n, [U.name_of(x) for x in ref.leaves(n)]) for n in ref.preorder(spec) if n[3] and n is not spec]
    out = []
    for j in range(k):
        r = rng.random()
        if len(names) == 1 or r < 0.08:
            keep = [rng.choice(names)]
        elif r < 0.16:
            keep = list(names)
            keep.remove(rng.choice(names))
        elif r < 0.2:
            keep = list(names)
        elif r < 0.5 and cl:
            gone = set()
            for _ in range(rng.randint(1, 3)):
                gone.update(rng.choice(cl)[1])
            if rng.random() < 0.5:
                gone.update(x for x in names if rng.random() < 0.15)
            keep = [x for x in names if x not in gone]
        elif r < 0.7 and spec[3]:
            c = rng.choice(spec[3])
            under = [U.name_of(x) for x in ref.leaves(c)]
            keep = [x for x in under if rng.random() < 0.7]
        else:
            p = rng.choice([0.2, 0.5, 0.8])
            keep = [x for x in names if rng.random() < p]
        if not keep:
            keep = [rng.choice(names)]
        out.append(keep)
    return out


ODD_LABELS = ("sp %d", "sp_%d", "'q%d'", "été %d", "%d", " lead%d", "x.y-%d", "a'b%d")


def random_world(rng, tier, p_unary=None, real_labels=False, flavours=True):
    """flavours: False = the plain class only (every leaf has a taxon, no taxon on internal nodes);
    True = sometimes taxa on internal nodes / leaves without taxon / odd labels.  A namespace larger than
    the tree and the 'boundary' length pattern may come with either."""
    sizes = [2, 3, 4, 6, 8, 11, 14] if tier == "quick" else [2, 3, 5, 8, 12, 14, 20, 30, 45, 60]
    n = rng.choice(sizes)
    shape = rng.choice([None, None, None, "caterpillar", "star", "balanced"])
    if p_unary is None:
        p_unary = rng.choice([0, 0, 0.15, 0.3])
    spec = gen.random_spec(rng, n, p_poly=rng.choice([0, 0.3, 0.6]), p_unary=p_unary, shape=shape)
    pat = rng.choice(["ints", "ints", "dyadic", "zeros", "mixed_missing", "mixed_missing", "none", "float", "unit",
                      "boundary", "boundary"])
    fl = []
    if pat == "boundary":
        U.boundary_lengths(spec, rng)
        fl.append("boundary-lengths")
    else:
        gen.decorate_lengths(spec, rng, pat, root_length=rng.random() < 0.3)
    label_internal(spec)
    rooted = rng.choice([True, True, False, None])
    rl = None
    if real_labels:
        pool = ["dup%d" % k for k in range(max(1, n // 3))]
        rl = dict((nm, rng.choice(pool) if rng.random() < 0.6 else nm) for nm in ref.leaf_taxa(spec))
    elif flavours:
        r = rng.random()
        if r < 0.22:
            # taxa on internal nodes (sometimes the seed too); about half of them keep their node label as well
            inner = [x for x in ref.preorder(spec) if x[3]]
            for k, x in enumerate(inner):
                if rng.random() < (0.5 if x is not spec else 0.3):
                    x[0] = "X%d" % k
                    if rng.random() < 0.5:
                        x[1] = None
            if any(x[0] is not None for x in inner):
                fl.append("taxa-on-internal-nodes")
        elif r < 0.37 and n >= 3:
            lv = ref.leaves(spec)
            for k, x in enumerate(lv[1:]):       # the first leaf keeps its taxon: a taxon route can keep >= 1 leaf
                if rng.random() < 0.3:
                    x[1] = "x%d" % k
                    x[0] = None
            if any(x[0] is None for x in lv):
                fl.append("leaves-without-taxon")
        elif r < 0.5:
            rl = dict((nm, "") for nm in ref.leaf_taxa(spec)[:1] if rng.random() < 0.5)
            for k, nm in enumerate(ref.leaf_taxa(spec)):
                if nm not in rl:
                    rl[nm] = (rng.choice(ODD_LABELS) % k) if rng.random() < 0.7 else nm
            fl.append("odd-labels")
    n_extra = rng.randint(1, 4) if rng.random() < 0.35 else 0
    return World(spec, rooted, rl, n_extra=n_extra, flavours=fl), pat


def run_case(case, ctx):
    rng = random.Random("%s/%s" % (case["seed"], sorted(case.items())))
    kind = case["kind"]
    if kind == "selfcheck":
        return run_selfcheck(case, ctx, rng)
    with Hooks(ctx) as hooks:
        mon = Monitor(ctx, hooks)
        if kind == "directed":
            d = DIRECTED[case["i"]]
            fl = [k for k in ("internal_taxa", "taxonless") if k in d]
            w = World(parse_tiny_newick(d["newick"], d.get("internal_taxa", ()), d.get("taxonless", ())), d["rooted"],
                      flavours=["taxa-on-internal-nodes" if k == "internal_taxa" else "leaves-without-taxon" for k in fl])
            if "container" in d:
                for op in d["ops"]:
                    run_variant(mon, w, op, d["keep"], d["sup"], d["upd"], d["container"])
            else:
                run_all_variants(mon, w, d["keep"], d["sup"], (d["upd"],), costume=d.get("costume", 0))
            ctx.sample({"kind": "directed", "name": d["name"], "tree": ref.to_newick(w.spec), "keep": d["keep"],
                        "suppress_unifurcations": d["sup"], "update_bipartitions": d["upd"]})
        elif kind == "shape":
            run_shape(case, ctx, mon, rng)
        elif kind == "random":
            run_random(case, ctx, mon, rng)
        elif kind == "filters":
            run_filters(case, ctx, mon, rng)
        elif kind == "containers":
            run_containers(case, ctx, mon, rng)
        elif kind == "duplabels":
            run_duplabels(case, ctx, mon, rng)
        elif kind == "subnode":
            run_subnode(case, ctx, mon, rng)
        elif kind == "history":
            run_history(case, ctx, mon, rng)
        elif kind == "options":
            run_options(case, ctx, mon, rng)
        else:
            raise ValueError(kind)


def run_selfcheck(case, ctx, rng):
    """brute-force validation of the oracle itself (no library code involved)."""
    n = case["n"]
    for sh in gen.all_shapes(n):
        base = gen.shape_to_spec(sh)
        variants = [pow2_lengths(label_internal(ref.copy(base)), False),
                    pow2_lengths(label_internal(ref.copy(base)), True)]
        for _ in range(2):
            v = gen.insert_unary(base, rng, 0.4, split_lengths=False)
            pow2_lengths(label_internal(v), rng.random() < 0.5)
            for x in ref.preorder(v):
                if rng.random() < 0.3:
                    x[2] = None
            variants.append(v)
        for v in variants:
            taxa = ref.leaf_taxa(v)
            for r in range(1, len(taxa) + 1):
                for keep in itertools.combinations(taxa, r):
                    ctx.ev("oracle:selfcheck-brute-force")
                    probs = U.brute_check(v, keep)
                    if probs:
                        ctx.violation("harness|oracle-selfcheck-failed", probs[0],
                                      {"tree": ref.to_newick(v), "keep": list(keep), "problems": probs[:5]})


def run_shape(case, ctx, mon, rng):
    n, idx = case["n"], case["idx"]
    base = label_internal(gen.shape_to_spec(gen.all_shapes(n)[idx]))
    worlds = [World(pow2_lengths(ref.copy(base), idx % 2 == 1), True)]
    # second realisation: unrooted (exercises the update_bipartitions route), other lengths
    alt = ref.copy(base)
    gen.decorate_lengths(alt, rng, rng.choice(["mixed_missing", "ints", "dyadic", "none"]), root_length=rng.random() < 0.3)
    worlds.append(World(alt, rng.choice([False, None])))
    taxa = ref.leaf_taxa(base)
    every = EXTRACT + INPLACE
    for wi, w in enumerate(worlds):
        for r in range(1, len(taxa) + 1):
            for keep in itertools.combinations(taxa, r):
                pick = (sum(int(t[1:]) for t in keep) + len(keep) + idx) % 3
                for sup in (True, False):
                    if wi == 0 and n <= 5:
                        # the exhaustive part: every variant, both flags, every subset
                        run_all_variants(mon, w, keep, sup, (False, True))
                    elif wi == 0:
                        # n = 6 (thorough): every subset, a rotating selection of six variants
                        k = (pick + 2 * sup + idx) % len(every)
                        ops = ("prune_taxa",) + tuple(o for o in (every[(k + 3 * j) % len(every)] for j in range(5))
                                                      if o != "prune_taxa")
                        run_all_variants(mon, w, keep, sup, (bool((pick + sup) % 2),), ops=ops)
                    elif n <= 4:
                        # unrooted / is_rooted=None realisation: every variant, both update settings
                        run_all_variants(mon, w, keep, sup, (False, True))
                    elif n == 5 and pick == 0:
                        run_all_variants(mon, w, keep, sup, (True,), ops=INPLACE + ("extract_tree",))
    if idx in (0, 7) and n in (4, 5):
        ctx.sample({"kind": "shape", "tree": ref.to_newick(worlds[0].spec), "subsets": 2 ** len(taxa) - 1,
                    "variants": list(EXTRACT + INPLACE), "flags": "suppress x update_bipartitions"})


def run_random(case, ctx, mon, rng):
    w, pat = random_world(rng, ctx.tier)
    nsub = 20 if len(w.leaf_names) > 2 else 3
    for keep in biased_subsets(rng, w.spec, nsub):
        sup = rng.random() < 0.6
        upd = rng.random() < 0.4
        ops = ["prune_taxa"] + rng.sample(EXTRACT + INPLACE[1:], 5 if len(w.leaf_names) > 20 else 7)
        if rng.random() < 0.3:
            ops.append(rng.choice(LEGACY))
        run_all_variants(mon, w, keep, sup, (upd,), ops=ops, rng=rng)
    if case["i"] < 3:
        ctx.sample({"kind": "random", "tree": ref.to_newick(w.spec), "rooted": w.rooted, "lengths": pat,
                    "classes": list(w.flavours)})


def run_filters(case, ctx, mon, rng):
    """node-filter predicates on leaves and internal nodes: extract_tree / extract_subtree with both
    is_apply_* switches; filter_leaf_nodes with predicates that accept some emptied internal nodes and
    with recursive=False (documented semantics, lock-step model); prune_leaves_without_taxa with recursive
    on / off; prune_taxa(_with_labels) on taxa sitting on leaves AND internal nodes with every setting
    (given / left at its default) of is_apply_filter_to_leaf_nodes / is_apply_filter_to_internal_nodes.
    All predicates answer with truthy / falsy objects of the case's costume."""
    w, pat = random_world(rng, "quick", flavours=False)
    spec = w.spec
    internal = [U.name_of(n) for n in ref.preorder(spec) if n[3] and n is not spec]
    leaves_ = w.leaf_names
    for _ in range(8):
        excl = set(x for x in leaves_ if rng.random() < rng.choice([0.2, 0.5]))
        excl.update(x for x in internal if rng.random() < 0.25)
        L = rng.random() < 0.7
        I = rng.random() < 0.6
        sup = rng.random() < 0.6
        eff = set(x for x in excl if (x in internal and I) or (x not in internal and L))
        by_name = dict((U.name_of(n), n) for n in ref.preorder(spec))
        if not U.surviving_leaf_names(spec, set(id(by_name[x]) for x in eff)):
            ctx.note("filters:no-surviving-leaf-skipped")
            continue
        tree = w.build()
        cost = 0 if rng.random() < 0.4 else rng.randrange(U.N_COSTUMES)
        fn = name_filter(w, set(by_name) - excl, cost)
        via_node = rng.random() < 0.3
        attr = rng.choice(["extraction_source", "extraction_source", "src_ref", None])
        # the two switches are handed over explicitly, or left out when they have their default value
        okw = {}
        if not L or rng.random() < 0.5:
            okw["is_apply_filter_to_leaf_nodes"] = L
        if I or rng.random() < 0.5:
            okw["is_apply_filter_to_internal_nodes"] = I
        if via_node:
            thunk = lambda: tree.seed_node.extract_subtree(
                extraction_source_reference_attr_name=attr, node_filter_fn=fn, suppress_unifurcations=sup, **okw)
        else:
            thunk = lambda: tree.extract_tree(
                extraction_source_reference_attr_name=attr, node_filter_fn=fn, suppress_unifurcations=sup, **okw)
        tags = ["predicate:answers-with-non-bool-objects"] if cost else []
        it = Intent("Node.extract_subtree" if via_node else "extract_tree", w, tree, sup, False, eff, "extract", attr=attr,
                    tags=tags)
        ctx.ev("filters:extract leaf-filter=%s internal-filter=%s" % (L, I))
        mon.run(it, thunk)
    # filter_leaf_nodes: general predicates, recursive on/off
    for _ in range(6):
        accept = set(x for x in leaves_ if rng.random() < 0.6)
        accept.update(x for x in internal if rng.random() < 0.2)
        recursive = rng.random() < 0.6
        sup = rng.random() < 0.5
        upd = rng.random() < 0.3
        exp, _ = U.filter_model(spec, lambda n: U.name_of(n) in accept, recursive, sup)
        if exp is None or not any(n[0] is not None for n in ref.leaves(exp)):
            ctx.note("filters:no-surviving-leaf-skipped")
            continue
        tree = w.build()
        acc_f = frozenset(accept)
        cost = 0 if rng.random() < 0.4 else rng.randrange(U.N_COSTUMES)
        ffn = name_filter(w, acc_f, cost)
        tags = ["predicate:answers-with-non-bool-objects"] if cost else []
        it = Intent("filter_leaf_nodes", w, tree, sup, upd, [x for x in leaves_ if x not in accept], "inplace",
                    model=("filter", acc_f, recursive), judge_removed=True, tags=tags)
        ctx.ev("filters:filter_leaf_nodes recursive=%s" % recursive)
        rkw = {} if (recursive and rng.random() < 0.5) else {"recursive": recursive}
        mon.run(it, lambda: tree.filter_leaf_nodes(ffn, update_bipartitions=upd, suppress_unifurcations=sup, **rkw))
    # prune_leaves_without_taxa, recursive on / off: the documented single pass leaves emptied parents behind
    for _ in range(4):
        gone = set(x for x in leaves_ if rng.random() < rng.choice([0.3, 0.6]))
        if len(gone) == len(leaves_):
            gone.discard(rng.choice(leaves_))
        recursive = rng.random() < 0.5
        sup = rng.random() < 0.5
        upd = rng.random() < 0.3
        spec2 = ref.copy(spec)
        for n in ref.leaves(spec2):
            if n[0] in gone:
                n[1] = "x_%s" % n[0]
                n[0] = None
        acc_f = frozenset(n[0] for n in ref.preorder(spec2) if n[0] is not None)
        tree = bridge.build_tree(spec2, w.ns, w.rooted, taxa_by_label=w.taxa)
        it = Intent("prune_leaves_without_taxa", w, tree, sup, upd, ["x_%s" % x for x in gone], "inplace",
                    model=("filter", acc_f, recursive), judge_removed=True)
        ctx.ev("filters:prune_leaves_without_taxa recursive=%s" % recursive)
        rkw = {} if (recursive and rng.random() < 0.5) else {"recursive": recursive}
        mon.run(it, lambda: tree.prune_leaves_without_taxa(update_bipartitions=upd, suppress_unifurcations=sup, **rkw))
    # prune_taxa / prune_taxa_with_labels, taxa on leaves and on internal nodes, both is_apply_* switches
    for _ in range(5):
        tops = rng.sample(internal, min(len(internal), rng.randint(0, 2))) if internal else []
        spec2 = ref.copy(spec)
        for n2 in ref.preorder(spec2):
            if n2[3] and n2[1] in tops:
                n2[0] = "tx_%s" % n2[1]
                n2[1] = None
        w2 = World(spec2, w.rooted, n_extra=len(w.ns_only), flavours=["taxa-on-internal-nodes"] if tops else [])
        listed_leaves = [x for x in leaves_ if rng.random() < 0.3]
        L = rng.choice([None, None, True, False])      # None: the switch is left at its default (True)
        I = rng.choice([None, None, True, False])      # None: left at its default (False)
        eff = (listed_leaves if L in (None, True) else []) + (["tx_%s" % x for x in tops] if I else [])
        by_name = dict((U.name_of(n), n) for n in ref.preorder(spec2))
        if not U.surviving_leaf_names(spec2, set(id(by_name[x]) for x in eff)):
            ctx.note("filters:no-surviving-leaf-skipped")
            continue
        tree = w2.build()
        sup = rng.random() < 0.6
        upd = rng.random() < 0.3
        bylab = rng.random() < 0.4
        taxa = [w2.taxa["tx_%s" % x] for x in tops] + [w2.taxa[x] for x in listed_leaves]
        rng.shuffle(taxa)
        okw = {}
        if L is not None:
            okw["is_apply_filter_to_leaf_nodes"] = L
        if I is not None:
            okw["is_apply_filter_to_internal_nodes"] = I
        it = Intent("prune_taxa_with_labels" if bylab else "prune_taxa", w2, tree, sup, upd, eff, "inplace")
        ctx.ev("filters:prune_taxa is_apply_filter_to_leaf_nodes=%s is_apply_filter_to_internal_nodes=%s" % (
            "default" if L is None else L, "default" if I is None else I))
        if bylab:
            mon.run(it, lambda: tree.prune_taxa_with_labels([t.label for t in taxa], update_bipartitions=upd,
                                                            suppress_unifurcations=sup, **okw))
        else:
            mon.run(it, lambda: tree.prune_taxa(taxa, update_bipartitions=upd, suppress_unifurcations=sup, **okw))


def run_containers(case, ctx, mon, rng):
    """the taxa / labels argument as every kind of iterable the docstrings allow."""
    if case.get("fixed"):
        explore_casefold(ctx)
        w = World(parse_tiny_newick("((A:1,B:2)ab:4,(C:8,D:16)cd:32)r"), True)
        subsets = [["A", "C", "D"], ["B", "D"]]
    else:
        w, _ = random_world(rng, "quick", p_unary=0)
        subsets = biased_subsets(rng, w.spec, 4)
    ops = ("prune_taxa", "prune_taxa_with_labels", "retain_taxa", "retain_taxa_with_labels", "prune_nodes", PN_DEFAULT,
           "extract_tree_with_taxa", "extract_tree_with_taxa_labels", "extract_tree_without_taxa",
           "extract_tree_without_taxa_labels")
    for keep in subsets:
        for op in ops:
            for cont in ("iterator", "generator", "namespace", "set", "dictkeys"):
                if cont == "namespace" and (op in LABEL_OPS or op in ("prune_nodes", PN_DEFAULT)):
                    continue
                ctx.ev("containers:%s" % cont)
                if case.get("fixed"):
                    sup, upd = True, False
                else:
                    sup, upd = rng.random() < 0.6, rng.random() < 0.4
                run_variant(mon, w, op, keep, sup, upd if op in INPLACE else False, cont, pad=rng.random() < 0.3)


def explore_casefold(ctx):
    """recorded, not judged: taxa whose labels differ only by case.  TaxonNamespace lookups are
    case-insensitive by default (documented), the extract_*_labels wrappers compare labels exactly."""
    w = World(parse_tiny_newick("((A:1,B:2)ab:4,(C:8,D:16)cd:32)r"), True, {"A": "x", "B": "X", "C": "c", "D": "d"})
    t1 = w.build()
    t1.prune_taxa_with_labels(["x"])
    t2 = w.build().extract_tree_without_taxa_labels(["x"])
    a = sorted(ref.leaf_taxa(U.snap(t1, w.names).spec))
    b = sorted(ref.leaf_taxa(U.snap(t2, w.names).spec))
    ctx.note("casefold-labels:prune_taxa_with_labels-and-extract_tree_without_taxa_labels-%s" % (
        "agree" if a == b else "disagree(case-insensitive-namespace-lookup-vs-exact-match)"))


def run_duplabels(case, ctx, mon, rng):
    """distinct Taxon objects sharing a label: object-based variants go by identity, label-based by label."""
    w, _ = random_world(rng, "quick", real_labels=True)
    for keep in biased_subsets(rng, w.spec, 6):
        sup = rng.random() < 0.7
        upd = rng.random() < 0.3
        for op in ("prune_taxa", "retain_taxa", "filter_leaf_nodes", "extract_tree_with_taxa",
                   "extract_tree_without_taxa", "extract_tree"):
            ctx.ev("duplabels:by-identity")
            run_variant(mon, w, op, keep, sup, upd if op in INPLACE else False, rng.choice(CONTAINERS))
        # label semantics: the surviving set is closed under 'same label'
        keep_labels = set(w.real[nm] for nm in keep)
        keep_lab = [nm for nm in w.leaf_names if w.real[nm] in keep_labels]
        drop_labels = set(w.real[nm] for nm in w.leaf_names if nm not in keep)
        keep_lab2 = [nm for nm in w.leaf_names if w.real[nm] not in drop_labels]
        for op in ("retain_taxa_with_labels", "extract_tree_with_taxa_labels"):
            ctx.ev("duplabels:by-label")
            run_variant(mon, w, op, keep_lab, sup, upd if op in INPLACE else False, rng.choice(CONTAINERS))
        if keep_lab2:
            for op in ("prune_taxa_with_labels", "extract_tree_without_taxa_labels"):
                ctx.ev("duplabels:by-label")
                run_variant(mon, w, op, keep_lab2, sup, upd if op in INPLACE else False, rng.choice(CONTAINERS))


def run_subnode(case, ctx, mon, rng):
    """Node.extract_subtree called on a non-root node; prune_subtree of a single node."""
    w, _ = random_world(rng, "quick")
    spec = w.spec
    internal = [n for n in ref.preorder(spec) if n[3] and n is not spec]
    for _ in range(6):
        if not internal:
            break
        top = rng.choice(internal)
        under = [U.name_of(x) for x in ref.leaves(top)]
        keep = [x for x in under if rng.random() < rng.choice([0.7, 0.7, 1.0])] or [rng.choice(under)]
        sup = rng.random() < 0.6
        tree = w.build()
        live = dict((U.name_of(sp), nd) for sp, nd in U.snap(tree, w.names).pairs)
        cost = 0 if rng.random() < 0.4 else rng.randrange(U.N_COSTUMES)
        fn = name_filter(w, keep, cost)
        attr = rng.choice(["extraction_source", "extraction_source", "src_ref", None])
        it = Intent("Node.extract_subtree", w, tree, sup, False, [x for x in under if x not in keep], "extract",
                    subnode=U.name_of(top), attr=attr, tags=["predicate:answers-with-non-bool-objects"] if cost else [])
        ctx.ev("subnode:extract_subtree-on-internal-node")
        mon.run(it, lambda: live[U.name_of(top)].extract_subtree(node_filter_fn=fn, suppress_unifurcations=sup,
                                                                  extraction_source_reference_attr_name=attr))
    # pure clone (no filter at all): the documented 'clone of the structure'
    tree = w.build()
    it = Intent("extract_tree", w, tree, True, False, [], "extract")
    ctx.ev("subnode:pure-clone")
    mon.run(it, lambda: tree.extract_tree())
    # prune_subtree of one arbitrary non-root node (leaf or internal)
    nodes = [n for n in ref.preorder(spec) if n is not spec]
    for _ in range(6):
        if not nodes:
            break
        top = rng.choice(nodes)
        gone = set(U.name_of(x) for x in ref.leaves(top))
        keep = [x for x in w.leaf_names if x not in gone]
        if not keep:
            continue
        if maximal_dropped(spec, gone) != [U.name_of(top)]:
            continue     # parent would be left as a taxon-less leaf: not a leaf-removal in the property's sense
        if gone & U.taxonless_leaf_names(spec):
            continue     # run_variant keeps every leaf without taxon
        ctx.ev("subnode:prune_subtree-single")
        run_variant(mon, w, "prune_subtree", keep, rng.random() < 0.6, rng.random() < 0.4)


HISTORY_INPLACE = tuple(o for o in INPLACE if o != "prune_leaves_without_taxa") + ("legacy.prune_taxa", "legacy.retain_taxa")
HISTORY_OPS = HISTORY_INPLACE + EXTRACT


def run_history(case, ctx, mon, rng):
    """2-4 operations chained on ONE live tree; every step is judged against the reference model of the tree
    as it stood when the step began (the hooks snapshot it).  Covers: a second prune / retain of an already
    pruned tree, pruning a tree that carries a bipartition encoding, extraction from an extracted tree (whose
    nodes already carry the provenance attribute), and the independence of earlier clones from later in-place
    operations on their source."""
    w, pat = random_world(rng, "quick")
    tree = w.build()
    if rng.random() < 0.35:
        tree.encode_bipartitions()
        ctx.ev("history:tree-carries-a-bipartition-encoding")
    clones = []           # (extracted tree, its snapshot) taken from the current tree in earlier steps
    for step in range(rng.randint(2, 5)):
        cur = U.snap(tree, w.names).spec
        names = [U.name_of(x) for x in ref.leaves(cur)]
        if len(names) < 2:
            break
        if rng.random() < 0.5:
            keep = [x for x in names if rng.random() < 0.8] or names[:1]      # long chains: most leaves stay
        else:
            keep = biased_subsets(rng, cur, 1)[0]
        sup = rng.random() < 0.6
        upd = rng.random() < 0.4
        if clones and rng.random() < 0.6:
            op = rng.choice(HISTORY_INPLACE)     # an earlier clone is being watched: prune its source
        else:
            op = rng.choice(HISTORY_OPS)
        attr = rng.choice(["extraction_source", "extraction_source", "extraction_source", "src_ref"])
        cost = 0 if rng.random() < 0.4 else rng.randrange(U.N_COSTUMES)
        tags = ["history:step-%s-judged" % ("1" if step == 0 else "2+")]
        sig = run_variant(mon, w, op, keep, sup, upd if op in INPLACE else False, rng.choice(CONTAINERS), attr,
                          tree=tree, costume=cost, pad=rng.random() < 0.4, tags=tags)
        it = mon.last
        if sig is None or sig[0] == "violated" or it is None or it.exc is not None:
            if sig is not None and sig[0] == "violated":
                break
            continue
        if op in EXTRACT:
            res = it.results[-1]
            if op == "Node.extract_subtree":
                continue
            clones.append((op, res, U.snap(res, w.names)))
            if rng.random() < 0.4:
                tree = res           # go on with the clone: its nodes already carry the provenance attribute
                clones = []
                ctx.ev("history:continues-on-the-extracted-tree")
        else:
            for cop, ctree, csnap in clones:
                ctx.ev("oracle:clone-independent-of-later-source-pruning-compared")
                try:
                    now = U.snap(ctree, w.names)
                except U.SnapError as e:
                    now = None
                if now is None or now.sig != csnap.sig:
                    ctx.violation("%s|extracted-tree-altered-by-later-pruning-of-its-source|extraction" % cop,
                                  "a tree extracted earlier changed when its source was pruned in place (%s)" % op,
                                  {"source_then": ref.to_newick(it.before.spec), "operation": op,
                                   "change": describe_sig_change(csnap, now) if now is not None else "malformed"})
    if case["i"] < 2:
        ctx.sample({"kind": "history", "tree": ref.to_newick(w.spec), "classes": list(w.flavours)})


def run_options(case, ctx, mon, rng):
    """option values and aliases on one random tree: the dendropy.legacy.treemanip wrappers, extract_tree /
    extract_subtree with tree_factory / node_factory, all agreeing with the plain routes."""
    w, pat = random_world(rng, "quick")
    for keep in biased_subsets(rng, w.spec, 3):
        sup = rng.random() < 0.6
        ops = ("prune_taxa", "extract_tree", "Node.extract_subtree") + LEGACY
        sigs = {}
        for op in ops:
            sigs[op] = run_variant(mon, w, op, keep, sup, False, rng.choice(CONTAINERS),
                                   costume=rng.randrange(U.N_COSTUMES), pad=rng.random() < 0.5,
                                   factories=op in EXTRACT)
        good = [k for k in ops if sigs[k] is not None and sigs[k][0] != "violated"]
        for k in good[1:]:
            ctx.ev("oracle:agreement-compared")
            if sigs[k] != sigs[good[0]]:
                ctx.violation("agreement|%s-vs-%s|results-differ-although-each-passed-the-oracle" % (k, good[0]),
                              "API variants disagree on the same (tree, subset, flags)",
                              {"tree": ref.to_newick(w.spec), "keep": sorted(keep), "suppress_unifurcations": sup})
