"""Library-independent oracles of C20 that need no hook: the matrix walker, the dimensions a document declares read from
the TEXT, what a parse error must carry to 'identify the failure', input-class discriminators for the classifier keys.
Nothing here imports the library under test; objects of the library are read through their raw fields only."""
import numbers
import re


# ---------------------------------------------------------------------------------------------------
# matrix walker (the counterpart of mon/arbor.py for character matrices)
def _alphabet_state_ids(m):
    ids = set()
    alphabets = []
    for a in getattr(m, "state_alphabets", None) or []:
        alphabets.append(a)
    d = getattr(m, "_default_state_alphabet", None)
    if d is not None:
        alphabets.append(d)
    d = getattr(type(m), "datatype_alphabet", None)
    if d is not None:
        alphabets.append(d)
    for a in alphabets:
        for field in ("_fundamental_states", "_ambiguous_states", "_polymorphic_states"):
            for st in getattr(a, field, None) or ():
                ids.add(id(st))
    return ids, len(alphabets)


def walk_matrix(m):
    """returns (problems, ncells); a problem is (clause, human text).  Raw fields read: _taxon_sequence_map,
    taxon_namespace._taxa, <sequence>._character_values, <alphabet>._fundamental/_ambiguous/_polymorphic_states."""
    probs = []
    ns = getattr(m, "taxon_namespace", None)
    if ns is None or not hasattr(ns, "_taxa"):
        return [("matrix-without-taxon-namespace", "matrix.taxon_namespace is %r" % type(ns).__name__)], 0
    member = set(id(t) for t in ns._taxa)
    tsm = m._taxon_sequence_map
    continuous = getattr(m, "data_type", None) == "continuous"
    states, nalpha = (set(), 0) if continuous else _alphabet_state_ids(m)
    ncells = 0
    seen_seq = set()
    for k, seq in tsm.items():
        if type(k).__name__ != "Taxon":
            probs.append(("row-key-not-a-taxon", "a row is keyed by a %s" % type(k).__name__))
        elif id(k) not in member:
            probs.append(("row-taxon-not-in-namespace", "row taxon %r is not a member of the matrix's taxon namespace" % (k.label,)))
        if id(seq) in seen_seq:
            probs.append(("sequence-shared-by-two-rows", "two rows hold the same sequence object"))
        seen_seq.add(id(seq))
        vals = getattr(seq, "_character_values", None)
        if not isinstance(vals, list):
            probs.append(("row-not-a-sequence", "row value is a %s" % type(seq).__name__))
            continue
        for v in vals:
            ncells += 1
            if continuous:
                if isinstance(v, bool) or not isinstance(v, numbers.Real):
                    probs.append(("cell-not-a-number|%s" % type(v).__name__, "continuous matrix holds a cell %r" % (v,)))
                    break
            elif id(v) not in states:
                probs.append(("cell-not-a-state-of-the-matrix-alphabets|%s" % type(v).__name__,
                              "discrete matrix holds a cell %r (%s) that is no state of its %d state alphabet(s)" % (
                                  v, type(v).__name__, nalpha)))
                break
    out = []
    for p in probs:
        if p not in out:
            out.append(p)
    return out, ncells


# ---------------------------------------------------------------------------------------------------
# declared dimensions, from the text
_PHYLIP_HEAD = re.compile(r"[ \t]*([0-9]{1,9})[ \t]+([0-9]{1,9})[ \t]*\Z")
_BREAK = re.compile(r"\r\n|\n|\r")


def phylip_text_dims(text):
    """(ntax, nchar) of a PHYLIP text whose first line is plainly '<int> <int>' (ASCII digits, blanks), else None."""
    first = _BREAK.split(text, maxsplit=1)[0]
    m = _PHYLIP_HEAD.match(first)
    if m is None:
        return None
    return int(m.group(1)), int(m.group(2))


def nexus_single_declaration(text, word):
    """value of the only '<word> = <int>' of a NEXUS text, or None when the text does not hold <word> exactly once or
    the one occurrence is not plainly '<delimiter><word> = <ASCII digits><delimiter>' (then nothing is demanded).
    A reader that delivers a matrix must have read its NCHAR (NTAX) from that one place."""
    if len(re.findall(word, text, re.I | re.A)) != 1:
        return None
    if any(ord(c) > 127 for c in text):
        return None
    m = re.search(r"(?:\A|(?<=[\s;\]]))" + word + r"[ \t\n]*=[ \t\n]*([0-9]{1,9})(?=[ \t\n;\[]|\Z)", text, re.I | re.A)
    if m is None:
        return None
    return int(m.group(1))


# ---------------------------------------------------------------------------------------------------
# 'an error ... that identifies the failure'
def line_bound(text):
    """an upper bound of every line number a reader can mean, whatever line-end convention it counts."""
    return text.count("\n") + text.count("\r") + 2


def error_identification_problems(e, text):
    """what a data-parse error must carry so that it identifies the failure: it can be printed, it has a non-empty
    message, and where it names a line / column these are positions that exist in the text."""
    probs = []
    try:
        s = str(e)
        if not isinstance(s, str) or not s.strip():
            probs.append(("str-is-empty", "str(error) is %r" % (s,)))
    except Exception as x:  # the error cannot even be reported
        probs.append(("str-raises|%s" % type(x).__name__, "str(error) raised %s: %s" % (type(x).__name__, str(x)[:120])))
    msg = getattr(e, "message", None)
    if not isinstance(msg, str) or not msg.strip():
        probs.append(("no-message", "error.message is %r" % (msg,)))
    ln = getattr(e, "line_num", None)
    if ln is not None:
        if isinstance(ln, bool) or not isinstance(ln, int):
            probs.append(("line-not-an-integer", "error.line_num is %r" % (ln,)))
        elif not (0 <= ln <= line_bound(text)):
            probs.append(("line-outside-the-text", "error.line_num is %d, the text has at most %d lines" % (ln, line_bound(text) - 1)))
    cn = getattr(e, "col_num", None)
    if cn is not None:
        if isinstance(cn, bool) or not isinstance(cn, int):
            probs.append(("column-not-an-integer", "error.col_num is %r" % (cn,)))
        elif not (0 <= cn <= len(text) + 2):
            probs.append(("column-outside-the-text", "error.col_num is %d, the text has %d characters" % (cn, len(text))))
    return probs


# ---------------------------------------------------------------------------------------------------
# input classes for classifier keys
DEEP_TOKENS = 300


def nesting_class(text):
    """'deep-input' when the text holds more nesting / comment openers than any generated (non depth-stress) input can."""
    return "deep-input" if text.count("(") + text.count("[") > DEEP_TOKENS else "shallow-input"


_PLAIN_TREE = re.compile(r"\([^()]*\)[^();]*;")


def newick_plainly_holds_a_tree(text):
    """True only for a Newick text without comments / quotes / braces that holds a closed '( ... ) ... ;' group:
    such a source is not 'a source with no data', whatever else is wrong with it."""
    if any(c in text for c in "[]'\"{}"):
        return False
    return _PLAIN_TREE.search(text) is not None


_BIGNUM = re.compile(r"[0-9]{6,}")


def shrink_numbers(text):
    """the text with every run of six or more digits replaced by 0...07 of the same length: same tokens, same length,
    small values (probe: does the work follow the VALUE of a number?)."""
    return _BIGNUM.sub(lambda m: "0" * (len(m.group()) - 1) + "7", text)
