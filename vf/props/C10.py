"""C10  Taxon namespaces keep a stable one-to-one taxon/bit map and exact label lookups.

Method: runtime monitoring with a lock-step reference model.  Every case is an operation
history executed on REAL ``TaxonNamespace`` / ``Taxon`` objects; a DendroPy-free namespace
model (``_c10_util.NSModel``: ordered member list, taxon-id -> bit fixed when first
observed and never re-assigned while the taxon stays a member, case-sensitivity flag,
mutability flag) is advanced on every operation, and after EVERY operation each live
namespace (the current one, the originals it was copied from, its copies) is compared with
its model.  Hooks (vf.mon.hooks) around the real methods count what was really called.

Oracle clauses (exactly the sentences of the property statement)
  members   iteration of the namespace == model member list (an operation that raised must
            leave it unchanged); labels() == model labels            [needed by all others]
  bits      taxon_bitmask(t) is a single bit; equal to the bit first observed for t as a
            member of this namespace; no two members share a bit
  roundtrip for subsets S of members (all subsets while n <= 4, a sample otherwise, the empty
            set included): taxa_bitmask(taxa=S) (S given as list / tuple / set / iterator;
            legacy alias get_taxa_bitmask; taxa_bipartition(taxa=S).leafset_bitmask)
            == OR of model bits, bitmask_taxa_list(mask) (Bipartition.leafset_taxa) == S as
            a set without repeats; taxa_bitmask(labels=.. [, first_match_only=True]) == OR
            over the (first) members the model matches
  render    bitmask_as_bitstring(mask) (legacy alias split_as_string): '1' positions == bit
            positions of S; bitmask_as_newick_string / split_as_newick_string(mask)
            (default options, preserve_spaces=True, quote_underscores=False;
            Bipartition.leafset_as_newick_string), tokenised by our own Newick reader:
            "((L), (R));" must have multiset(L) == labels of S and multiset(R) == labels of
            members-S; the star form "(all);" is accepted for S == all members (and for the
            empty mask, where the code documents "do not do the root") and must then list
            the labels of all members.  An unlabelled member (label None) has no name: it
            and unnamed slots of the rendering are left out of the comparison.  A member
            labelled "" must appear as a token (''): an empty slot is no token for any
            reader following NEXUS/Newick token rules (the library's own reader included)
  lookup    findall / get_taxon / has_taxon_label / get_taxa (both first_match_only) /
            has_taxa_labels / label_taxon_map, for the namespace default and per-call
            overrides (keyword or positional; True / False and their truthy / falsy
            non-bool twins 1 / 0): exactly the matching members in membership order
            (get_taxa with several labels - list, tuple, set, iterator, empty: per label in
            membership order, no repeats; label_taxon_map: a matching member -- collisions
            are documented as unhandled)
  require   require_taxon returns the first match and changes nothing, else creates exactly
            one member with that label (mutable) or raises and creates none (immutable)
  immutable no operation makes an immutable namespace gain a member (key
            ``immutable|gained-member|..`` only when a member is present that was not there
            before the operation; any other membership difference is ``members|differ|..``)
  copy      copy.copy, TaxonNamespace(ns), TaxonNamespace(ns, label=..), TaxonSet(ns),
            copy.deepcopy, clone(0/1/2): the i-th taxon of the copy has the bit of the i-th
            taxon of the original; the copy is then monitored (and mutated) like any
            namespace, and the original keeps being compared with its own model.  In lazy
            histories the clause is usually DEFERRED: neither namespace's bits are read at
            copy time, the pairing is remembered and judged at the next bit reading for the
            taxa that stayed members of both (copy, then sort / remove / re-add, then the
            first bit read)

Soundness limits actually implemented
  * no particular bit value is demanded for a new member, only single/unshared/stable;
  * order after sort() is adopted from the real object once it is a permutation of the
    members (the statement says nothing about the sort key); every other operation's
    effect on membership order is predicted from the documentation (new members are
    appended, reverse reverses); a difference in ORDER ONLY is reported under
    ``documented-behaviour|membership-order|..`` and the real order is adopted;
  * growth of an immutable namespace must raise TypeError (what the documentation says;
    the library's ImmutableTaxonNamespaceError is a subclass) -- what is judged is that
    nothing was gained;
  * all_taxa_bitmask(), ``taxon in ns``, ns[i], reversed(ns) are not named by the statement:
    disagreements are reported under ``documented-behaviour|..`` keys (all_taxa_bitmask
    covering the member bits, container protocol agreeing with iteration); all_taxa_bitmask
    having bits of no member, has_taxon_label returning a non-bool, a copy being deeper or
    shallower than documented are only recorded;
  * case-insensitive matching is judged only for label pairs on which lower(), upper() and
    casefold() agree; queries touching an ambiguous pair are recorded, not judged, and
    mutating operations are never generated with such a label;
  * labels are strings (the empty string, blank-padded strings and special characters
    included) or None (unlabelled taxon); queries are always strings; sort() with the
    default key is not generated while an unlabelled taxon is a member (None < str raises);
    renderings are read with standard Newick quoting rules; with quote_underscores=False
    underscore and blank are the same character on both sides of the comparison;
  * an exception outside the documented set (TypeError for growth of an immutable
    namespace, ValueError for a non-member, LookupError for an unmatched label, IndexError)
    raised by one of the operations the property quantifies over is reported under its own
    key ``<op>|unexpected-exception|..`` -- the operation could not be monitored;
  * "lazy" histories run the bit-reading comparisons only now and then, because
    taxon_bitmask() fills a cache and so perturbs the state being watched; membership and
    lookups (which do not touch the cache) are still compared after every operation.

Workload: directed witnesses (one case, always first); exhaustive histories over the label
alphabet {a, A, b}, both case-sensitivity settings: every history of length <= 3 (quick) /
<= 4 (thorough) over the 18-operation alphabet FULL, <= 4 / <= 5 over the 12-operation CORE,
<= 6 over the 7-operation MINI (thorough), <= 6 / <= 8 over the 5-operation MICRO (8 only
for the case-insensitive namespace); every history of length <= 3 / <= 4 over the
15-operation OPTS alphabet (per-call overrides True/False/1/0 x first_match_only x
immutability x flag toggle x list/legacy routes) started from the namespace [a, A, b] with
flag False and 1, and over the 14-operation EDGE alphabet (labels "", "a", " a", None and
blank-padded queries) with flag 0 and True; a history of length k gets the membership/bit
comparison after every operation and the full comparison after its last one, every proper
prefix being itself an enumerated history; a lazy replica of the FULL layer up to length 3;
random histories of length 50 (half of them start from a namespace filled by the
constructor from strings and Taxon objects; one in eight namespaces is a legacy TaxonSet)
over label pools with duplicates, case variants, special characters, non-ASCII case pairs
and the boundary labels, per-call overrides and flag values from {True, False, 1, 0},
flag toggles, relabelling of taxa held by another namespace only, copies at random points;
two histories on a namespace of 300+ members (bits beyond one machine word)."""
import copy
import itertools
import random
import warnings
from operator import is_ as _is

from . import _c10_util as U
from ..mon.hooks import Hooks

PROP = "C10"
LEVEL = "exploration"
TECHNIQUE = "runtime monitoring: lock-step namespace model compared with the real object after every operation of generated histories"
LEVEL_TEXT = ("Lock-step reference-model monitor: real TaxonNamespace objects are driven through exhaustive short and "
              "random long operation histories (label boundary classes, non-bool flag values, legacy routes and aliases "
              "included); after every operation bits, round trips, renderings and label lookups "
              "are compared with a DendroPy-free model. The property held (or not) on the executions listed in the "
              "evidence file, nothing more.")
LEVEL_NOTE = ("Trusted: the namespace model and rendering parsers in vf/props/_c10_util.py and the comparison code of "
              "vf/props/C10.py; CPython. Case-insensitive matches are judged only where lower/upper/casefold agree. "
              "Coverage is what the workload reached (see evidence).")
RULE = ("cases = directed witnesses + all operation histories up to a tier-dependent length over alphabets of "
        "add/new/require/remove/discard/del/sort/reverse/relabel/re-add/clear/copy operations on labels {a,A,b} x both "
        "case-sensitivity settings (+ an option alphabet: per-call overrides True/False/1/0 x first_match_only x "
        "immutability, started from [a,A,b]; + a boundary alphabet: labels '', ' a', None) + random histories of "
        "length 50 over label pools + two histories on 300+ members; a history is non-trivial when at "
        "some step the membership order differs from the bit order (after a removal, sort, reverse) or two members' "
        "labels match case-insensitively; distinct = distinct (operation sequence, initial flags, label pool)")
REACH = ["taxonmodel:TaxonNamespace.add_taxon", "taxonmodel:TaxonNamespace.remove_taxon",
         "taxonmodel:TaxonNamespace.taxon_bitmask", "taxonmodel:TaxonNamespace.taxa_bitmask",
         "taxonmodel:TaxonNamespace.all_taxa_bitmask", "taxonmodel:TaxonNamespace.bitmask_taxa_list",
         "taxonmodel:TaxonNamespace.bitmask_as_newick_string", "taxonmodel:TaxonNamespace.split_as_newick_string",
         "taxonmodel:TaxonNamespace.bitmask_as_bitstring", "nexusprocessing:bitmask_as_newick_string",
         "taxonmodel:TaxonNamespace._lookup_label", "taxonmodel:TaxonNamespace.get_taxon",
         "taxonmodel:TaxonNamespace.get_taxa", "taxonmodel:TaxonNamespace.findall",
         "taxonmodel:TaxonNamespace.has_taxon_label", "taxonmodel:TaxonNamespace.has_taxa_labels",
         "taxonmodel:TaxonNamespace.require_taxon", "taxonmodel:TaxonNamespace.remove_taxon_label",
         "taxonmodel:TaxonNamespace.discard_taxon_label", "taxonmodel:TaxonNamespace.sort",
         "taxonmodel:TaxonNamespace.reverse", "taxonmodel:TaxonNamespace.clear",
         "taxonmodel:TaxonNamespace.__delitem__", "taxonmodel:TaxonNamespace.__copy__",
         "taxonmodel:TaxonNamespace.__deepcopy__", "taxonmodel:TaxonNamespace.label_taxon_map",
         "container:CaseInsensitiveDict.__setitem__",
         "taxonmodel:TaxonNamespace.get_taxa_bitmask", "taxonmodel:TaxonNamespace.split_as_string",
         "taxonmodel:TaxonNamespace.taxa_bipartition", "taxonmodel:TaxonNamespace.__contains__",
         "taxonmodel:TaxonNamespace.__getitem__", "taxonmodel:TaxonNamespace.__reversed__",
         "taxonmodel:TaxonNamespace.new_taxa", "taxonmodel:TaxonNamespace.add_taxa",
         "taxonmodel:TaxonNamespace.append", "taxonmodel:TaxonNamespace.remove",
         "taxonmodel:TaxonSet.__init__", "taxonmodel:Taxon._get_lower_cased_label",
         "_bipartition:Bipartition.leafset_taxa", "_bipartition:Bipartition.leafset_as_newick_string"]
MIN_EVENTS = {"op-applied": (100000, 2500000), "state-compared": (100000, 3000000),
              "bits-checked": (150000, 5000000), "roundtrip-checked": (500000, 10000000),
              "render-newick-checked": (250000, 5000000), "render-bitstring-checked": (150000, 3000000),
              "lookup-checked": (3000000, 50000000), "require-checked": (200000, 5000000),
              "immutable-op-checked": (1000, 30000), "copy-checked": (4000, 150000),
              "history-run": (50000, 800000),
              "hook:TaxonNamespace.taxon_bitmask:return": (150000, 5000000),
              "hook:TaxonNamespace.sort:return": (15000, 300000),
              "hook:TaxonNamespace.remove_taxon:return": (8000, 200000),
              "hook:TaxonNamespace.require_taxon:return": (200000, 5000000),
              "hook:TaxonNamespace.findall:return": (500000, 10000000),
              "hook:TaxonNamespace.bitmask_taxa_list:return": (150000, 3000000),
              "hook:TaxonNamespace.bitmask_as_newick_string:return": (150000, 3000000),
              "hook:nexusprocessing.bitmask_as_newick_string:return": (250000, 5000000),
              "hook:TaxonNamespace.__deepcopy__:return": (1000, 50000),
              "hook:TaxonNamespace.__copy__:return": (3000, 50000),
              # input classes / routes added after the audit (thorough minima: 10 x quick, conservative)
              "boundary-label-namespace-compared": (9000, 90000), "boundary-query-checked": (100000, 1000000),
              "non-bool-flag-namespace-compared": (20000, 200000), "non-bool-override-checked": (45000, 450000),
              "contains-checked": (60000, 600000), "reversed-checked": (500, 5000),
              "copy-checked-deferred": (800, 8000), "big-namespace-compared": (70, 70),
              "relabel-of-a-bystander-member": (70, 700), "route:empty-label-list": (18000, 180000),
              "route:get_taxa_bitmask": (70000, 700000), "route:label-collection-not-a-list": (350000, 3500000),
              "route:legacy-TaxonSet": (80, 800), "route:positional-override": (35000, 350000),
              "route:split_as_string": (35000, 350000), "route:taxa_bipartition": (22000, 220000),
              "route:taxa_bitmask-labels-first_match_only": (90000, 900000),
              "hook:TaxonNamespace.get_taxa_bitmask:return": (70000, 700000),
              "hook:TaxonNamespace.split_as_string:return": (35000, 350000),
              "hook:TaxonNamespace.taxa_bipartition:return": (22000, 220000),
              "hook:TaxonNamespace.remove:return": (40, 400),
              "hook:TaxonNamespace.new_taxa:return": (700, 7000), "hook:TaxonNamespace.add_taxa:return": (700, 7000),
              "hook:TaxonNamespace.append:return": (600, 6000),
              "hook:TaxonNamespace.remove_taxon_label:return": (1500, 15000),
              "hook:TaxonNamespace.discard_taxon_label:return": (12000, 120000)}
ASSUMPTIONS = ["membership of a namespace is what iterating it yields; Taxon identity is object identity",
               "case-insensitive matching is judged only where str.lower, str.upper and str.casefold agree",
               "renderings are read back with standard Newick token rules (quotes, '' escape, unquoted _ == blank; "
               "an empty slot is an unnamed leaf, not the label '')",
               "a flag value means what bool() of it is (1 == case-sensitive / mutable, 0 == not)",
               "deterministic library behaviour: a prefix of an exhaustive history reaches the same state as the "
               "shorter enumerated history"]
CASE_TIMEOUT = 120

HOOKED = ["add_taxon", "append", "add_taxa", "new_taxon", "new_taxa", "remove_taxon", "remove_taxon_label",
          "discard_taxon_label", "clear", "findall", "has_taxon_label", "has_taxa_labels", "get_taxon", "get_taxa",
          "require_taxon", "sort", "reverse", "labels", "label_taxon_map", "all_taxa_bitmask", "taxon_bitmask",
          "taxa_bitmask", "bitmask_taxa_list", "bitmask_as_newick_string", "split_as_newick_string",
          "bitmask_as_bitstring", "__delitem__", "__copy__", "__deepcopy__", "__init__",
          "get_taxa_bitmask", "split_as_string", "taxa_bipartition", "remove"]

BOUNDARY = ["", " ", " a", "a ", "a", "A", " A", "\ta", "a\n", None, "", "a", "A "]
POOLS = {
    "case": ["a", "A", "b", "B", "ab", "Ab", "AB", "aB"],
    "dups": ["a", "a", "A", "b"],
    "words": ["Homo sapiens", "homo sapiens", "HOMO SAPIENS", "Pan", "pan", "Pan troglodytes", "t1", "T1", "t10"],
    "special": ["a b", "a_b", "A B", "it's", "x,y", "(p)", "a:b", "A_B", "q", "Q", "a  b", "a'b'", "[c]", "c;d"],
    "unicode": ["é", "É", "ß", "SS", "ss", "σ", "ς", "Σ", "İ", "i", "I", "ǆ", "ǅ", "a"],
    "boundary": BOUNDARY,
}
# flag values: the bools and, now and then, their truthy / falsy non-bool twins
TRUTHY = (True, True, True, 1)
FALSY = (False, False, False, 0)

_HOOKS = None


def shard_setup(ctx):
    global _HOOKS
    import dendropy
    # the legacy aliases (TaxonNamespace.remove, TaxonSet) warn through dendropy's own filter set-up; keep stderr quiet
    dendropy.utility.deprecate.configure_deprecation_warning_behavior("ignore")
    _HOOKS = Hooks(ctx)
    for name in HOOKED:
        _HOOKS.install(dendropy.TaxonNamespace, name)
    from dendropy.dataio import nexusprocessing
    _HOOKS.install(nexusprocessing, "bitmask_as_newick_string", outermost_only=False)


def shard_teardown(ctx):
    global _HOOKS
    if _HOOKS is not None:
        _HOOKS.uninstall()
        _HOOKS = None


# ---------------------------------------------------------------------------------------
# case stream
# ---------------------------------------------------------------------------------------
DIRECTED = [
    # confirmed (DESIGN): newick rendering indexes labels by list position
    {"name": "render-after-remove-first", "cs": False,
     "ops": [["new", "a"], ["new", "b"], ["new", "c"], ["new", "d"], ["remove_at", 0]]},
    {"name": "render-after-sort", "cs": False, "ops": [["new", "b"], ["new", "a"], ["sort", None, False]]},
    {"name": "render-after-reverse", "cs": True, "ops": [["new", "a"], ["new", "b"], ["new", "c"], ["reverse"]]},
    # smallest witnesses: label removal restricted to the first match
    {"name": "remove-label-first-match", "cs": False,
     "ops": [["new", "a"], ["new", "A"], ["remove_label", "a", None, True]]},
    {"name": "discard-label-first-match", "cs": False,
     "ops": [["new", "a"], ["new", "A"], ["discard", "a", None, True]]},
    # plain sanity walks through every operation kind
    {"name": "tour", "cs": False,
     "ops": [["new", "a"], ["new", "A"], ["new", "b"], ["require", "B", None], ["require", "B", True],
             ["add_fresh", "a", True], ["new_taxa", ["c", "C"]], ["remove_label", "c", True, False],
             ["discard", "zz", None, False], ["remove_label", "zz", None, False], ["del", 1], ["del", 99],
             ["remove_nonmember"], ["readd"], ["add_member", 0], ["add_taxa", 2], ["sort", "lower", True],
             ["reverse"], ["relabel", 0, "Q"], ["set_cs", True], ["require", "q", None], ["set_mutable", False],
             ["new", "x"], ["require", "x", None], ["require", "Q", None], ["add_fresh", "y", False],
             ["readd"], ["remove_at", 0], ["copy", "copy", False], ["copy", "ctor_label", False],
             ["copy", "deepcopy", False], ["copy", "clone0", False], ["copy", "clone1", False],
             ["copy", "clone2", True], ["set_mutable", True], ["new", "n"], ["clear"], ["new", "m"]]},
    # label boundary classes: empty string, blank-padded labels, unlabelled taxon
    {"name": "boundary-labels", "cs": False,
     "ops": [["new", ""], ["new", "a"], ["new", " a"], ["new", "a "], ["add_fresh", None, False], ["new", "b"],
             ["require", "", None], ["require", " A", None], ["require", "A", True], ["remove_at", 1],
             ["relabel", 0, None], ["relabel", 1, ""], ["sort", None, False], ["discard", "", None, False],
             ["copy", "deepcopy", True], ["require", "", True], ["relabel", 0, "\ta"], ["reverse"]]},
    # labels whose case folding is not plain ASCII (each must at least match itself)
    {"name": "non-ascii-labels", "cs": False,
     "ops": [["new", "\u00df"], ["new", "\u0130"], ["new", "\u01c5"], ["new", "\u03c3"], ["new", "\u00c9"],
             ["require", "\u00e9", None], ["reverse"], ["remove_at", 0]]},
    # flag values that are truthy / falsy without being bools
    {"name": "non-bool-flags", "cs": 1,
     "ops": [["new", "a"], ["new", "A"], ["new", "b"], ["require", "B", None], ["set_cs", 0], ["require", "B", None],
             ["require", "C", 1], ["set_mutable", 0], ["new", "x"], ["require", "c", 0], ["set_mutable", 1],
             ["discard", "A", 1, False], ["set_cs", 1], ["copy", "copy", True], ["require", "c", None],
             ["copy", "taxonset", True], ["remove_label", "b", 0, True]]},
]


def cases(tier, seed):
    # ONE case holds all directed witnesses (case 0 -> shard 0 -> its witnesses are reported first)
    yield {"kind": "directed", "mode": "eager", "seed": seed}
    yield {"kind": "directed", "mode": "lazy", "seed": seed}
    # a namespace of 300+ members (tier-independent): bits beyond one machine word, removals at both ends
    yield {"kind": "big", "mode": "eager", "seed": seed}
    yield {"kind": "big", "mode": "lazy", "seed": seed}
    # exhaustive short histories.  (alphabet, max length) per tier; a case = one 2-op prefix
    # (alphabet, max length with a case-insensitive namespace, max length with a case-sensitive one)
    if tier == "quick":
        plan = [("full", 3, 3), ("core", 4, 4), ("micro", 6, 6), ("opts", 3, 3), ("edge", 3, 3)]
    else:
        plan = [("full", 4, 4), ("core", 5, 5), ("mini", 6, 6), ("micro", 8, 7), ("opts", 4, 4), ("edge", 4, 4)]
    for alpha, maxlen_ci, maxlen_cs in plan:
        k = len(U.ALPHABETS[alpha])
        for cs in U.ALPHABET_CS.get(alpha, (False, True)):
            maxlen = maxlen_cs if cs else maxlen_ci
            yield {"kind": "exh", "alpha": alpha, "cs": cs, "prefix": [], "lens": [1, 2], "seed": seed}
            for i in range(k):
                for j in range(k):
                    if maxlen <= 5 or alpha != "micro":
                        yield {"kind": "exh", "alpha": alpha, "cs": cs, "prefix": [i, j],
                               "lens": list(range(3, maxlen + 1)), "seed": seed}
                    else:
                        # deep micro histories: split further so that one case stays small
                        yield {"kind": "exh", "alpha": alpha, "cs": cs, "prefix": [i, j],
                               "lens": list(range(3, 6)), "seed": seed}
                        for l in range(k):
                            yield {"kind": "exh", "alpha": alpha, "cs": cs, "prefix": [i, j, l],
                                   "lens": list(range(6, maxlen + 1)), "seed": seed}
    # lazy variant of the shortest exhaustive layer (bit cache not filled between operations)
    k = len(U.FULL)
    for cs in (False, True):
        for i in range(k):
            yield {"kind": "exh", "alpha": "full", "cs": cs, "prefix": [i], "lens": [2, 3], "mode": "lazy",
                   "seed": seed}
    nrand = 384 if tier == "quick" else 12000
    pools = sorted(POOLS)
    for i in range(nrand):
        yield {"kind": "random", "i": i, "pool": pools[i % len(pools)], "len": 50, "seed": seed}


# ---------------------------------------------------------------------------------------
# the lock-step runner
# ---------------------------------------------------------------------------------------
class Abort(Exception):
    """real object and model disagree on membership: the rest of the history is not judged"""


def _is_bool(v):
    return v is True or v is False


def _mode_name(model, override):
    """discriminator of a lookup key: which setting decided, and whether it was given as a real bool"""
    cs = model.eff_cs(override)
    if override is None:
        how = "by-default" if _is_bool(model.cs_raw) else "by-default(non-bool-flag)"
    else:
        how = "by-override" if _is_bool(override) else "by-override(non-bool-value)"
    return "%s-%s" % ("sensitive" if cs else "insensitive", how)


def _show(got):
    return [getattr(t, "label", t) for t in got] if isinstance(got, (list, tuple)) else got


def _under(x):
    return x.replace("_", " ") if isinstance(x, str) else x


class Run(object):
    def __init__(self, ctx, case, cs=False, mutable=True, mode="eager", rng=None, queries=None, initial=None,
                 cls="TaxonNamespace", init_full=True):
        import dendropy
        self.dp = dendropy
        self.ctx = ctx
        self.case = case
        self.mode = mode
        self.lazy_history = (mode == "lazy")     # for keys: a bit change cannot be attributed to one operation
        self.rng = rng or random.Random(0)
        self.fixed_queries = queries
        self.world = U.World()
        self.real = {}          # tid -> Taxon (keeps every Taxon alive: ids are never recycled)
        self.tid_of = {}        # id(Taxon) -> tid
        self.removed = []       # tids that left some namespace, most recent last
        self.history = []
        self.nontrivial = False
        self.ncmp = 0
        model = U.NSModel(self.world, cs, mutable)
        self.cur = 0
        self.last_op = "init"
        nscls = getattr(dendropy, cls)
        if cls != "TaxonNamespace":
            ctx.ev("route:legacy-TaxonSet")
        if not initial:
            ns = nscls(is_case_sensitive=cs, is_mutable=mutable)
            self.pairs = [[ns, model]]
        else:
            # members given to the constructor: ["L", label] -> a string, ["T", label] -> a Taxon object
            self.history.append(["init", initial])
            items = [(self.real[self.fresh(lab)] if k == "T" else lab) for k, lab in initial]
            if self.rng.random() < 0.3:
                items = tuple(items)
            ns = nscls(items, is_case_sensitive=cs, is_mutable=mutable)
            self.pairs = [[ns, model]]
            got = list(ns)
            if len(got) != len(items):
                ctx.violation("members|differ|after-init", "TaxonNamespace(%d items) has %d members" % (len(items), len(got)),
                              self.detail())
                raise Abort()
            for (k, lab), t in zip(initial, got):
                if k == "L":
                    self.expect_new_taxon("init", t, lab)
                model.members.append(self.tid_of.get(id(t)))
            model.mark_pre()
            self.compare_all(init_full)

    # -- bookkeeping --------------------------------------------------------------------
    def register(self, taxon, label):
        tid = self.world.new_tid(label)
        self.real[tid] = taxon
        self.tid_of[id(taxon)] = tid
        return tid

    def fresh(self, label):
        t = self.dp.Taxon() if (label is None and self.rng.random() < 0.5) else self.dp.Taxon(label=label)
        return self.register(t, label)

    def detail(self, **kw):
        d = {"history": self.history[-60:], "cs": self.pairs[self.cur][1].cs_raw}
        d.update(kw)
        return d

    def lab(self, tids):
        return [self.world.labels[t] for t in tids]

    def other_free(self, m):
        return [t for t in reversed(self.removed) if t not in m.members]

    # -- one operation ------------------------------------------------------------------
    def apply(self, op, full=True):
        """execute op on the real current namespace and on its model, then compare every live pair"""
        ctx = self.ctx
        ns, m = self.pairs[self.cur]
        kind = op[0]
        self.history.append(op)
        self.last_op = kind
        if kind in ("require", "remove_label", "discard") and op[2] is not None and not _is_bool(op[2]):
            # own discriminator: a per-call setting given as a truthy / falsy non-bool decides this operation
            self.last_op = "%s(non-bool-override)" % kind
        for _, mm in self.pairs:
            mm.mark_pre()
        snap = m.snapshot()
        pre_state = m.state_sig()
        ctx.ev("op-applied")
        if not m.mutable:
            ctx.ev("immutable-op-checked")
        n = len(m.members)
        expect_raise = None
        call = None
        after = None            # callable(result) run when the real call returned

        def need_mutable_for_growth():
            # documented: "TypeError if this namespace is immutable" (ImmutableTaxonNamespaceError is a subclass)
            return None if m.mutable else TypeError

        if kind == "new":
            L = op[1]
            expect_raise = need_mutable_for_growth()
            call = lambda: ns.new_taxon(L) if self.rng.random() < 0.5 else ns.new_taxon(label=L)

            def after(r):
                self.expect_new_taxon("new_taxon", r, L)
                m.members.append(self.tid_of[id(r)])
        elif kind == "new_taxa":
            Ls = list(op[1])
            expect_raise = need_mutable_for_growth()
            form = self.rng.choice(("list", "list", "tuple", "iter"))
            arg = {"list": list, "tuple": tuple, "iter": iter}[form](Ls)
            call = lambda: ns.new_taxa(arg)

            def after(r):
                if not isinstance(r, list) or len(r) != len(Ls):
                    ctx.violation("new_taxa|wrong-return", "new_taxa returned %r for %d labels" % (type(r).__name__, len(Ls)),
                                  self.detail())
                    raise Abort()
                for t, L in zip(r, Ls):
                    self.expect_new_taxon("new_taxa", t, L)
                    m.members.append(self.tid_of[id(t)])
        elif kind in ("add_fresh", "readd", "add_member"):
            if kind == "add_fresh":
                tid = self.fresh(op[1])
                alias = bool(op[2])
            elif kind == "readd":
                cand = self.other_free(m)
                tid = cand[0] if cand else self.fresh("b")
                alias = False
            else:
                tid = m.members[op[1] % n] if n else self.fresh("a")
                alias = False
            is_member = tid in m.members
            if not is_member:
                expect_raise = need_mutable_for_growth()
            t = self.real[tid]
            call = (lambda: ns.append(t)) if alias else (lambda: ns.add_taxon(t))

            def after(r):
                if not is_member:
                    m.members.append(tid)
        elif kind == "add_taxa":
            # a mixed list: a member, a removed taxon (if any), a fresh one, the fresh one again
            k = op[1]
            tids = []
            if n:
                tids.append(m.members[k % n])
            cand = self.other_free(m)
            if cand:
                tids.append(cand[0])
            f = self.fresh("b")
            tids += [f, f]
            newones = []
            for t in tids:
                if t not in m.members and t not in newones:
                    newones.append(t)
            if newones:
                expect_raise = need_mutable_for_growth()
            objs = [self.real[t] for t in tids]
            form = self.rng.choice(("list", "list", "tuple", "iter"))
            arg = {"list": list, "tuple": tuple, "iter": iter}[form](objs)
            call = lambda: ns.add_taxa(arg)

            def after(r):
                m.members.extend(newones)
        elif kind == "require":
            L, cs = op[1], op[2]
            matches, amb = m.matches(L, cs)
            if amb:
                ctx.note("ambiguous-case-folding-op-skipped")
                self.history.pop()
                return
            if not matches:
                expect_raise = need_mutable_for_growth()
            if cs is None:
                call = lambda: ns.require_taxon(L)
            elif self.rng.random() < 0.2:
                ctx.ev("route:positional-override")
                call = lambda: ns.require_taxon(L, cs)
            else:
                call = lambda: ns.require_taxon(L, is_case_sensitive=cs)
            modename = _mode_name(m, cs)

            def after(r):
                ctx.ev("require-checked")
                if matches:
                    if r is not self.real[matches[0]]:
                        ctx.violation("require_taxon|not-the-first-match|%s" % modename,
                                      "require_taxon(%r) returned %r, first matching member is %r" % (
                                          L, getattr(r, "label", r), self.world.labels[matches[0]]),
                                      self.detail(members=self.lab(m.members)))
                    grown = len(ns) - n
                    if grown != 0:
                        ctx.violation("require_taxon|created-members-although-label-present|%s" % modename,
                                      "require_taxon(%r) created %d member(s) although %d member(s) match" % (
                                          L, grown, len(matches)), self.detail(members=self.lab(m.members)))
                        raise Abort()
                else:
                    grown = len(ns) - n
                    if grown != 1 or id(r) in self.tid_of:
                        ctx.violation("require_taxon|absent-label-did-not-create-exactly-one|%s" % modename,
                                      "require_taxon(%r): no member matches, namespace grew by %d, returned %s" % (
                                          L, grown, "an existing taxon" if id(r) in self.tid_of else "a new taxon"),
                                      self.detail(members=self.lab(m.members)))
                        if grown == 0 and id(r) in self.tid_of:
                            return              # nothing was created: real namespace and model still agree
                        raise Abort()
                    self.expect_new_taxon("require_taxon", r, L)
                    m.members.append(self.tid_of[id(r)])
        elif kind in ("remove_at", "remove_nonmember"):
            if kind == "remove_at" and n:
                tid = m.members[op[1] % n]
            else:
                cand = self.other_free(m)
                tid = cand[0] if cand else self.fresh("zz")
            if tid not in m.members:
                expect_raise = ValueError
            t = self.real[tid]
            legacy = len(op) > 2 and op[2]
            call = (lambda: ns.remove(t)) if legacy else (lambda: ns.remove_taxon(t))

            def after(r):
                m.drop(tid)
                self.removed.append(tid)
        elif kind == "del":
            i = op[1]
            if -n <= i < n:
                tid = m.members[i]
            else:
                tid = None
                expect_raise = IndexError

            def call():
                del ns[i]

            def after(r):
                m.drop(tid)
                self.removed.append(tid)
        elif kind in ("remove_label", "discard"):
            L, cs, first = op[1], op[2], op[3]
            matches, amb = m.matches(L, cs)
            if amb:
                ctx.note("ambiguous-case-folding-op-skipped")
                self.history.pop()
                return
            if kind == "remove_label" and not matches:
                expect_raise = LookupError
            victims = matches[:1] if first else matches
            fn = ns.remove_taxon_label if kind == "remove_label" else ns.discard_taxon_label
            if cs is not None and self.rng.random() < 0.2:
                ctx.ev("route:positional-override")
                call = (lambda: fn(L, cs, True)) if first else (lambda: fn(L, cs))
            else:
                kw = {}
                if cs is not None:
                    kw["is_case_sensitive"] = cs
                if first:
                    kw["first_match_only"] = True
                call = lambda: fn(L, **kw)

            def after(r):
                for t in victims:
                    m.drop(t)
                    self.removed.append(t)
        elif kind == "clear":
            call = ns.clear

            def after(r):
                for t in list(m.members):
                    m.drop(t)
                    self.removed.append(t)
        elif kind == "sort":
            keykind, rev = op[1], bool(op[2])
            if keykind is None and any(self.world.labels[t] is None for t in m.members):
                # the default key compares labels: None < str raises TypeError (not a clause of the property)
                ctx.note("default-sort-key-not-used:unlabelled-member")
                keykind = "lower"
            kw = {}
            if keykind == "lower":
                kw["key"] = lambda t: (t.label or "").lower()
            elif keykind == "len":
                kw["key"] = lambda t: len(t.label or "")
            if rev or self.rng.random() < 0.3:
                kw["reverse"] = rev
            call = lambda: ns.sort(**kw)

            def after(r):
                got = [self.tid_of.get(id(t)) for t in ns]
                if sorted(got, key=lambda x: (x is None, x)) != sorted(m.members):
                    ctx.violation("members|differ|after-sort", "sort changed the membership",
                                  self.detail(model=self.lab(m.members), real=[getattr(t, "label", None) for t in ns]))
                    raise Abort()
                kf = {None: (lambda t: self.world.labels[t]), "lower": (lambda t: (self.world.labels[t] or "").lower()),
                      "len": (lambda t: len(self.world.labels[t] or ""))}[keykind]
                if got != sorted(m.members, key=kf, reverse=rev):
                    ctx.note("sort-order-differs-from-stable-sort-by-key")
                m.members[:] = got
        elif kind == "reverse":
            call = ns.reverse

            def after(r):
                m.members.reverse()
        elif kind in ("relabel", "relabel_cycle", "relabel_edge", "relabel_other"):
            if kind == "relabel_other":
                # a taxon that is a member of ANOTHER live namespace only (labels belong to the taxon)
                cand = []
                for k2, (_, m2) in enumerate(self.pairs):
                    if k2 != self.cur:
                        cand += [t for t in m2.members if t not in m.members and t not in cand]
                if not cand:
                    self.history.pop()
                    return
                tid = cand[op[1] % len(cand)]
                ctx.ev("relabel-of-a-bystander-member")
            else:
                if not n:
                    self.history.pop()
                    return
                tid = m.members[op[1] % n]
            if kind == "relabel_cycle":
                L = U.CYCLE.get(self.world.labels[tid], "a")
            elif kind == "relabel_edge":
                L = U.EDGE_CYCLE.get(self.world.labels[tid], "a")
            else:
                L = op[2]
            t = self.real[tid]

            def call():
                t.label = L

            def after(r):
                self.world.labels[tid] = L
        elif kind == "set_cs":
            v = (not m.cs) if op[1] == "toggle" else op[1]

            def call():
                ns.is_case_sensitive = v

            def after(r):
                m.set_cs(v)
        elif kind == "set_mutable":
            v = op[1]

            def call():
                ns.is_mutable = v

            def after(r):
                m.set_mutable(v)
        elif kind == "copy":
            self.do_copy(op[1], bool(op[2]))
            self.compare_all(full)
            self.track(pre_state, kind)
            return
        else:
            raise ValueError("unknown op %r" % (op,))

        # ---- run the real operation -------------------------------------------------
        try:
            with warnings.catch_warnings():
                warnings.simplefilter("ignore")
                result = call()
        except Exception as e:
            from ..core import CaseTimeout
            if isinstance(e, CaseTimeout):
                raise
            m.restore(snap)
            if expect_raise is not None and isinstance(e, expect_raise):
                ctx.ev("documented-error:%s:%s" % (kind, type(e).__name__))
            else:
                opname = {"remove_label": "remove_taxon_label", "discard": "discard_taxon_label"}.get(kind, kind)
                if kind in ("remove_label", "discard") and op[3]:
                    opname = "%s(first_match_only=True)" % opname
                if self.last_op != kind:
                    opname = "%s(non-bool-override)" % opname
                ctx.unexpected(opname, e, self.detail(members=self.lab(m.members)))
            # whatever was raised: the namespace must be as before
            self.compare_all(full, after_raise=True)
            return
        if expect_raise is not None:
            if expect_raise is TypeError:
                # growth of an immutable namespace is reported by the membership comparison below
                ctx.note("immutable-namespace-operation-did-not-raise")
            else:
                ctx.note("documented-%s-not-raised:%s" % (expect_raise.__name__, kind))
                m.restore(snap)
                self.compare_all(full, after_raise=True)
                return
        if after is not None and (expect_raise is None):
            after(result)
        self.compare_all(full)
        self.track(pre_state, kind)

    def track(self, pre_state, kind):
        m = self.pairs[self.cur][1]
        post = m.state_sig()
        self.ctx.state(post)
        self.ctx.transition((pre_state, kind, post))
        if not self.nontrivial:
            if m.order_differs_from_bits():
                self.nontrivial = True
            else:
                low = [x.lower() for x in self.lab(m.members) if x is not None]
                if len(set(low)) < len(low):
                    self.nontrivial = True

    def expect_new_taxon(self, opname, r, L):
        if not isinstance(r, self.dp.Taxon) or id(r) in self.tid_of:
            self.ctx.violation("%s|did-not-return-a-new-taxon" % opname,
                               "%s(%r) returned %r" % (opname, L, r), self.detail())
            raise Abort()
        self.register(r, L)

    # -- copies -------------------------------------------------------------------------
    def do_copy(self, ckind, switch):
        ctx = self.ctx
        ns, m = self.pairs[self.cur]
        try:
            with warnings.catch_warnings():
                warnings.simplefilter("ignore")
                if ckind == "copy":
                    c = copy.copy(ns)
                elif ckind == "ctor":
                    c = self.dp.TaxonNamespace(ns)
                elif ckind == "ctor_label":
                    c = self.dp.TaxonNamespace(ns, label="copy")
                elif ckind == "taxonset":
                    c = self.dp.TaxonSet(ns)
                    ctx.ev("route:legacy-TaxonSet")
                elif ckind == "deepcopy":
                    c = copy.deepcopy(ns)
                elif ckind in ("clone0", "clone1", "clone2"):
                    c = ns.clone(int(ckind[-1]))
                else:
                    raise ValueError(ckind)
        except Exception as e:
            from ..core import CaseTimeout
            if isinstance(e, CaseTimeout):
                raise
            ctx.unexpected("copy:%s" % ckind, e, self.detail())
            return
        if c is ns:
            if ckind == "clone1":
                ctx.note("copy-returned-the-namespace-itself:clone1")   # clone(1): documented reference semantics
            else:
                ctx.violation("copy|returned-the-namespace-itself|%s" % ckind,
                              "the copy is the original object", self.detail())
            return
        documented_deep = ckind in ("deepcopy", "clone2")
        # lazy histories usually DEFER the clause: no bit of either namespace is read now (reading fills the caches)
        deferred = self.mode == "lazy" and self.rng.random() < 0.7
        if not deferred:
            # the original is read first (its own stability is judged here, under its own key), so that a
            # difference found below can only come from the copy
            self.check_bits(ns, m, "copy:%s(original)" % ckind if not self.lazy_history
                            else "some-earlier-operation(lazy-history)")
        ctaxa = list(c)
        if len(ctaxa) != len(m.members):
            ctx.violation("copy|membership-differs|%s" % ckind, "copy has %d members, original %d" % (
                len(ctaxa), len(m.members)), self.detail())
            return
        cm = U.NSModel(self.world, c.is_case_sensitive, c.is_mutable)
        cm.ever_removed = m.ever_removed
        if cm.cs != m.cs or cm.mutable != m.mutable:
            ctx.note("copy-changed-flags:%s" % ckind)
        seen_deep = seen_shallow = False
        for tid, ct in zip(m.members, ctaxa):
            if ct is self.real[tid]:
                seen_shallow = True
                ntid = tid
            elif isinstance(ct, self.dp.Taxon) and id(ct) not in self.tid_of and ct.label == self.world.labels[tid]:
                seen_deep = True
                ntid = self.register(ct, self.world.labels[tid])
            else:
                ctx.violation("copy|member-is-neither-the-original-taxon-nor-a-new-copy-of-it|%s" % ckind,
                              "copy member at the position of %r is %s" % (
                                  self.world.labels[tid], "another existing taxon" if id(ct) in self.tid_of else
                                  "labelled %r" % (getattr(ct, "label", ct),)), self.detail())
                return
            cm.members.append(ntid)
        if (seen_deep and not documented_deep) or (seen_shallow and documented_deep):
            ctx.note("copy-depth-differs-from-documented:%s" % ckind)
        if deferred:
            for tid, ntid in zip(m.members, cm.members):
                self.world.links.append([m, tid, cm, ntid, ckind, m.drops.get(tid, 0), cm.drops.get(ntid, 0)])
            ctx.ev("copy-clause-deferred")
        else:
            # the copy clause itself: bit of the copy == bit of the original (the reference value was read
            # from the original by check_bits above, never from the copy)
            for tid, ntid in zip(m.members, cm.members):
                ctx.ev("copy-checked")
                try:
                    b = c.taxon_bitmask(self.real[ntid])
                except Exception as e:
                    ctx.unexpected("copy:%s:taxon_bitmask" % ckind, e, self.detail())
                    return
                if b != m.bits[tid]:
                    ctx.violation("copy|bit-differs-from-original|%s" % ckind,
                                  "taxon %r has bit %s in the original and %s in the copy" % (
                                      self.world.labels[tid], bin(m.bits[tid]), bin(b) if isinstance(b, int) else b),
                                  self.detail(members=self.lab(m.members),
                                              original_bits=[bin(m.bits.get(t, 0)) for t in m.members]))
                    return
                cm.bits[ntid] = b
        self.pairs.append([c, cm])
        if len(self.pairs) > 3:
            # forget the oldest namespace that is not the current one
            for k in range(len(self.pairs)):
                if k != self.cur and k != len(self.pairs) - 1:
                    gone = self.pairs[k][1]
                    del self.pairs[k]
                    if k < self.cur:
                        self.cur -= 1
                    if self.world.links:
                        kept = [l for l in self.world.links if l[0] is not gone and l[2] is not gone]
                        if len(kept) != len(self.world.links):
                            ctx.note("deferred-copy-clause-dropped:namespace-forgotten")
                        self.world.links = kept
                    break
        if switch:
            self.cur = len(self.pairs) - 1

    def resolve_links(self):
        """deferred copy clauses: judge every pairing whose two bits have been observed by now"""
        ctx = self.ctx
        keep = []
        for link in self.world.links:
            om, tid, cm, ntid, ckind, d0, d1 = link
            if (tid not in om.members or ntid not in cm.members or om.drops.get(tid, 0) != d0
                    or cm.drops.get(ntid, 0) != d1):
                continue        # one of the two left its namespace since the copy: nothing to compare
            if tid not in om.bits or ntid not in cm.bits:
                keep.append(link)
                continue
            ctx.ev("copy-checked")
            ctx.ev("copy-checked-deferred")
            if om.bits[tid] != cm.bits[ntid]:
                ctx.violation("copy|bit-differs-from-original|%s" % ckind,
                              "taxon %r has bit %s in the original and %s in the copy (first read after later operations)" % (
                                  self.world.labels[tid], bin(om.bits[tid]), bin(cm.bits[ntid])),
                              self.detail(original=self.lab(om.members), copy=self.lab(cm.members)))
        self.world.links = keep

    # -- comparison ---------------------------------------------------------------------
    def compare_all(self, full, after_raise=False):
        for k, (ns, m) in enumerate(self.pairs):
            role = "current" if k == self.cur else "bystander"
            self.compare(ns, m, role, full and (k == self.cur or self.rng.random() < 0.34), after_raise)

    def compare(self, ns, m, role, full, after_raise):
        ctx = self.ctx
        op = self.last_op + ("-raised" if after_raise else "")
        if role != "current":
            op = "%s-on-other-namespace" % op
        # lazy histories read bits only now and then: a bit change cannot be attributed to the last operation
        # (membership is compared after every operation in both modes and keeps the operation's name)
        bits_op = "some-earlier-operation(lazy-history)" if self.lazy_history else op
        ctx.ev("state-compared")
        # ---- members --------------------------------------------------------------
        real_taxa = list(ns)
        got = [self.tid_of.get(id(t)) for t in real_taxa]
        if got != m.members or len(ns) != len(m.members):
            if (None not in got and len(got) == len(m.members) == len(ns) and len(set(got)) == len(got)
                    and sorted(got) == sorted(m.members)):
                # the same members in another order: where a new member goes / what reverse does is documented
                # behaviour, not a clause of the statement -- reported under its own key, real order adopted
                ctx.violation("documented-behaviour|membership-order|after-%s" % op,
                              "the members are those expected, their order is not the documented one after %s" % op,
                              self.detail(model=self.lab(m.members), real=self.lab(got)))
                m.members[:] = got
            else:
                gained = [x for x in got if x is None or x not in m.pre_members]
                if not m.pre_mutable and not m.mutable and gained:
                    key = "immutable|gained-member|%s" % op
                else:
                    key = "members|differ|after-%s" % op
                ctx.violation(key, "members of the real namespace differ from the model after %s" % op,
                              self.detail(model=self.lab(m.members),
                                          real=[getattr(t, "label", repr(t)) for t in real_taxa]))
                raise Abort()
        want_labels = self.lab(m.members)
        if ns.labels() != want_labels:
            ctx.violation("members|labels-differ|after-%s" % op, "labels() != labels of the members",
                          self.detail(model=want_labels, real=ns.labels()))
            raise Abort()
        self.ncmp += 1
        if not self.ncmp & 3:
            self.check_container_protocol(ns, m, real_taxa, op)
        if not _is_bool(m.cs_raw) or not _is_bool(m.mutable_raw):
            ctx.ev("non-bool-flag-namespace-compared")
        if any((x is None or x == "" or x != x.strip()) for x in want_labels):
            ctx.ev("boundary-label-namespace-compared")
        if len(want_labels) >= 200:
            ctx.ev("big-namespace-compared")
        lazy = self.mode == "lazy"
        if lazy and not full:
            self.check_lookups(ns, m, light=True)
            return
        if lazy and self.rng.random() < 0.85:
            # lazy histories read bits only now and then (reading fills the cache)
            self.check_lookups(ns, m, light=not full)
            return
        union = self.check_bits(ns, m, bits_op, want_labels)
        if not full:
            return
        self.check_subsets(ns, m, union)
        self.check_lookups(ns, m, light=False)

    def check_container_protocol(self, ns, m, real_taxa, op):
        """``t in ns``, ns[i], reversed(ns) against iteration (membership is DEFINED as iteration; the library
        answers ``in`` from its accession map).  Not clauses of the statement: own key family."""
        ctx = self.ctx
        bad = None
        if real_taxa:
            ctx.ev("contains-checked")
            if not (real_taxa[0] in ns and real_taxa[-1] in ns):
                bad = "member-not-contained"
            elif ns[0] is not real_taxa[0] or ns[-1] is not real_taxa[-1] or ns[len(real_taxa) // 2] is not real_taxa[len(real_taxa) // 2]:
                bad = "getitem-disagrees-with-iteration"
        if bad is None:
            for tid in self.removed[-2:]:
                if tid not in m.members:
                    ctx.ev("contains-checked")
                    if self.real[tid] in ns:
                        bad = "non-member-contained"
        if bad is None and not self.ncmp & 31:
            ctx.ev("reversed-checked")
            rv = list(reversed(ns))
            if len(rv) != len(real_taxa) or any(a is not b for a, b in zip(rv, reversed(real_taxa))):
                bad = "reversed-disagrees-with-iteration"
        if bad:
            ctx.violation("documented-behaviour|container-protocol|%s|after-%s" % (bad, op),
                          "`in` / [] / reversed() disagree with iteration after %s" % op,
                          self.detail(members=self.lab(m.members)))

    def check_bits(self, ns, m, op, want_labels=None):
        """the 'bits' clause for one namespace; returns the OR of the member bits"""
        ctx = self.ctx
        if want_labels is None:
            want_labels = self.lab(m.members)
        seen = {}
        union = 0
        for tid in m.members:
            ctx.ev("bits-checked")
            b = ns.taxon_bitmask(self.real[tid])
            if not U.is_single_bit(b):
                ctx.violation("bits|not-a-single-bit|after-%s" % op, "taxon_bitmask returned %r" % (b,),
                              self.detail(taxon=self.world.labels[tid]))
                raise Abort()
            old = m.bits.get(tid)
            if old is None:
                m.bits[tid] = b
            elif old != b:
                ctx.violation("bits|changed-while-member|after-%s" % op,
                              "bit of member %r was %s, is %s" % (self.world.labels[tid], bin(old), bin(b)),
                              self.detail(members=want_labels))
                raise Abort()
            if b in seen:
                ctx.violation("bits|shared-by-two-members|after-%s" % op,
                              "members %r and %r both have bit %s" % (
                                  self.world.labels[seen[b]], self.world.labels[tid], bin(b)),
                              self.detail(members=want_labels, bits=[bin(m.bits.get(t, 0)) for t in m.members]))
                raise Abort()
            seen[b] = tid
            union |= b
        # all_taxa_bitmask is not named by the statement; documented as "bitmask spanning all Taxon objects in self"
        allm = ns.all_taxa_bitmask()
        if not isinstance(allm, int) or (allm & union) != union:
            ctx.violation("documented-behaviour|all_taxa_bitmask-does-not-cover-members",
                          "all_taxa_bitmask()=%s, OR of member bits=%s" % (
                              bin(allm) if isinstance(allm, int) else allm, bin(union)), self.detail())
        elif not m.ever_removed and allm != union:
            ctx.note("all_taxa_bitmask-has-bits-of-no-member-although-nothing-ever-left")
        if self.world.links:
            self.resolve_links()
        return union

    # ---- subsets: round trip and renderings -------------------------------------------
    def subsets(self, m):
        mem = m.members
        n = len(mem)
        if n <= 4:
            for r in range(n + 1):
                for c in itertools.combinations(mem, r):
                    yield list(c)
            return
        rng = self.rng
        yield list(mem)
        yield [rng.choice(mem)]
        yield [mem[0]]
        yield [mem[-1]]
        for _ in range(3):
            k = rng.randint(1, n - 1)
            s = rng.sample(mem, k)
            if rng.random() < 0.5:
                s.sort(key=mem.index)
            yield s
        if rng.random() < 0.2:
            yield []

    def check_subsets(self, ns, m, union):
        ctx = self.ctx
        rng = self.rng
        mem = m.members
        labels = self.lab(mem)
        for S in self.subsets(m):
            want = 0
            for t in S:
                want |= m.bits[t]
            taxa = [self.real[t] for t in S]
            ctx.ev("roundtrip-checked")
            x = rng.random()
            arg = taxa if x < 0.6 else iter(taxa) if x < 0.8 else tuple(taxa) if x < 0.9 else set(taxa)
            if rng.random() < 0.06:
                ctx.ev("route:get_taxa_bitmask")
                mask = ns.get_taxa_bitmask(taxa=arg)
            else:
                mask = ns.taxa_bitmask(taxa=arg)
            if mask != want:
                ctx.violation("roundtrip|taxa_bitmask-is-not-the-or-of-member-bits",
                              "taxa_bitmask(taxa=%r) = %s, expected %s" % (self.lab(S), bin(mask), bin(want)),
                              self.detail(members=labels))
                continue
            try:
                back = ns.bitmask_taxa_list(mask)
            except Exception as e:
                ctx.unexpected("bitmask_taxa_list", e, self.detail(members=labels, subset=self.lab(S)))
                continue
            bids = [self.tid_of.get(id(t)) for t in back]
            if sorted(bids, key=lambda x: (x is None, x)) != sorted(S):
                ctx.violation("roundtrip|bitmask_taxa_list-returns-other-taxa",
                              "bitmask_taxa_list(taxa_bitmask(%r)) = %r" % (
                                  self.lab(S), [getattr(t, "label", t) for t in back]),
                              self.detail(members=labels, bits=[bin(m.bits[t]) for t in mem]))
            # ---- bit string --------------------------------------------------------
            ctx.ev("render-bitstring-checked")
            legacy = rng.random() < 0.12
            try:
                with warnings.catch_warnings():
                    warnings.simplefilter("ignore")
                    if legacy:
                        ctx.ev("route:split_as_string")
                        s = ns.split_as_string(mask)
                    else:
                        s = ns.bitmask_as_bitstring(mask)
                pos = U.bitstring_positions(s)
            except Exception as e:
                ctx.unexpected("bitmask_as_bitstring", e, self.detail(members=labels, subset=self.lab(S)))
                pos = None
            if pos is not None and pos != U.mask_positions(want):
                ctx.violation("render|bitstring|names-other-taxa",
                              "bitmask_as_bitstring(%s) = %r" % (bin(mask), s), self.detail(members=labels))
            # ---- newick ------------------------------------------------------------
            self.check_newick(ns, m, S, mask, labels)
            # ---- the same round trip through a Bipartition ---------------------------
            # (not on an empty namespace: a Bipartition over an empty leaf set is outside this property)
            if mem and rng.random() < 0.04:
                self.check_bipartition(ns, m, S, taxa, want, labels)

    def check_bipartition(self, ns, m, S, taxa, want, labels):
        """taxa_bipartition(taxa=S): set of member taxa -> bitmask -> taxa / rendering from the tree side"""
        ctx = self.ctx
        ctx.ev("route:taxa_bipartition")
        try:
            bp = ns.taxa_bipartition(taxa=taxa)
            lb = bp.leafset_bitmask
            back = bp.leafset_taxa(ns)
        except Exception as e:
            ctx.unexpected("taxa_bipartition", e, self.detail(members=labels, subset=self.lab(S)))
            return
        if lb != want:
            ctx.violation("roundtrip|taxa_bipartition-leafset-is-not-the-or-of-member-bits",
                          "taxa_bipartition(taxa=%r).leafset_bitmask = %s, expected %s" % (
                              self.lab(S), bin(lb) if isinstance(lb, int) else lb, bin(want)),
                          self.detail(members=labels))
            return
        bids = [self.tid_of.get(id(t)) for t in back]
        if sorted(bids, key=lambda x: (x is None, x)) != sorted(S):
            ctx.violation("roundtrip|bipartition-leafset_taxa-returns-other-taxa",
                          "taxa_bipartition(taxa=%r).leafset_taxa(ns) = %r" % (self.lab(S), _show(back)),
                          self.detail(members=labels))
        self.judge_newick(lambda: bp.leafset_as_newick_string(ns), "Bipartition.leafset_as_newick_string", {},
                          m, S, want, labels)

    def check_newick(self, ns, m, S, mask, labels):
        variants = [("bitmask_as_newick_string", {}), ("split_as_newick_string", {})]
        x = self.rng.random()
        if x < 0.14:
            variants.append(("bitmask_as_newick_string", {"preserve_spaces": True}))
        elif x < 0.22:
            variants.append(("split_as_newick_string", {"preserve_spaces": True}))
        elif x < 0.3:
            variants.append(("bitmask_as_newick_string", {"quote_underscores": False}))
        for fname, kw in variants:
            fn = getattr(ns, fname)
            if not self.judge_newick(lambda: fn(mask, **kw), fname, kw, m, S, mask, labels):
                return   # one report per subset is enough

    def judge_newick(self, render, fname, kw, m, S, mask, labels):
        ctx = self.ctx
        mem = m.members
        inS = set(S)
        wantL = self.lab(S)
        wantR = [self.world.labels[t] for t in mem if t not in inS]
        # quote_underscores=False writes '_' unquoted, which every reader takes for a blank: compare modulo that
        norm = _under if kw.get("quote_underscores") is False else None
        ctx.ev("render-newick-checked")
        try:
            s = render()
        except Exception as e:
            ctx.unexpected(fname, e, self.detail(members=labels, subset=self.lab(S)))
            return True
        try:
            parsed = U.parse_newick_groups(s)
        except ValueError as e:
            ctx.violation("render|newick|unreadable", "%s(%s) = %r: %s" % (fname, bin(mask), s, e),
                          self.detail(members=labels, subset=self.lab(S)))
            return True
        why = None
        if parsed[0] == "star":
            d = U.group_diff(parsed[1], labels, norm)
            if d == "other":
                why = "star-form-does-not-list-the-members"
            elif S and len(S) != len(mem):
                why = "star-form-for-a-proper-subset"
            elif d:
                why = d
        else:
            dl = U.group_diff(parsed[1], wantL, norm)
            dr = U.group_diff(parsed[2], wantR, norm)
            if dl == "other" or dr == "other":
                # diagnostic discriminator (not the oracle): is this what reading the mask by LIST POSITION gives?
                pl, pr = [], []
                mm = mask
                for lab in labels:
                    (pl if mm & 1 else pr).append(lab)
                    mm >>= 1
                if U.group_diff(parsed[1], pl, norm) is None and U.group_diff(parsed[2], pr, norm) is None:
                    why = "labels-indexed-by-list-position"
                else:
                    why = "other"
            elif dl or dr:
                why = dl or dr
        if why:
            ctx.violation("render|newick|names-other-taxa|%s" % why,
                          "%s(mask of %r%s) = %r with members %r" % (
                              fname, self.lab(S), "".join(", %s=%r" % kv for kv in sorted(kw.items())), s, labels),
                          self.detail(members=labels, bits=[bin(m.bits[t]) for t in mem], subset=self.lab(S),
                                      rendering=s))
            return False
        return True

    # ---- lookups ----------------------------------------------------------------------
    def queries(self, m):
        if self.fixed_queries is not None:
            return self.fixed_queries
        rng = self.rng
        labs = list(dict.fromkeys(x for x in self.lab(m.members) if x is not None))
        rng.shuffle(labs)
        q = labs[:3]
        q += [x.swapcase() for x in labs[:2]]
        if labs:
            q.append(labs[-1].upper())
            # near misses in white space: a blank-padded / stripped variant of a present label
            x = labs[0]
            q.append(x.strip() if x != x.strip() and rng.random() < 0.5 else rng.choice((" " + x, x + " ", " " + x + " ")))
            if len(labs) > 1 and rng.random() < 0.3:
                x = labs[1].swapcase()
                q.append(rng.choice((" " + x, x + " ", "\t" + x)))
        q.append("zz~absent")
        if rng.random() < 0.25:
            q.append("")
        return list(dict.fromkeys(q))

    def check_lookups(self, ns, m, light):
        cnt = [0, 0, 0]         # lookup-checked, boundary-query-checked, require-checked (flushed once: cheaper)
        try:
            self._check_lookups(ns, m, light, cnt)
        finally:
            ev = self.ctx.ev
            if cnt[0]:
                ev("lookup-checked", cnt[0])
            if cnt[1]:
                ev("boundary-query-checked", cnt[1])
            if cnt[2]:
                ev("require-checked", cnt[2])

    def _check_lookups(self, ns, m, light, cnt):
        ctx = self.ctx
        rng = self.rng
        real = self.real
        Q = self.queries(m)
        boundary_q = set(q for q in Q if q == "" or q != q.strip())
        n0 = len(ns)
        # per-call settings: None, a truthy and a falsy value (now and then the non-bool twins 1 / 0)
        overrides = (None, rng.choice(TRUTHY), rng.choice(FALSY))
        unlabelled = any(self.world.labels[t] is None for t in m.members)
        if light:
            Q = Q[:2]
        for override in overrides:
            kw = {} if override is None else {"is_case_sensitive": override}
            pos = () if (override is None or rng.random() >= 0.2) else (override,)
            if pos:
                kw = {}
                ctx.ev("route:positional-override")
            if override is not None and not _is_bool(override):
                ctx.ev("non-bool-override-checked")
            mode = _mode_name(m, override)
            per_q = {}
            for q in Q:
                tids, amb = m.matches(q, override)
                if amb:
                    ctx.note("ambiguous-case-folding-lookup-not-judged")
                    continue
                per_q[q] = tids
                want = [real[t] for t in tids]
                cnt[0] += 3
                if q in boundary_q:
                    cnt[1] += 1
                got = ns.findall(q, *pos, **kw)
                if not (type(got) is list and len(got) == len(want) and all(map(_is, got, want))):
                    same_set = isinstance(got, list) and sorted(map(id, got)) == sorted(map(id, want))
                    ctx.violation("lookup|findall|%s|%s" % ("not-in-membership-order" if same_set else "wrong-members", mode),
                                  "findall(%r) = %r, matching members are %r" % (
                                      q, [getattr(t, "label", t) for t in got] if isinstance(got, list) else got,
                                      self.lab(tids)), self.detail(members=self.lab(m.members), query=q))
                g = ns.get_taxon(q, *pos, **kw)
                if (g is not (want[0] if want else None)):
                    ctx.violation("lookup|get_taxon|not-the-first-match|%s" % mode,
                                  "get_taxon(%r) = %r, matching members are %r" % (q, getattr(g, "label", g), self.lab(tids)),
                                  self.detail(members=self.lab(m.members), query=q))
                h = ns.has_taxon_label(q, *pos, **kw)
                if bool(h) != bool(want):
                    ctx.violation("lookup|has_taxon_label|wrong-answer|%s" % mode,
                                  "has_taxon_label(%r) = %r with %d matching members" % (q, h, len(want)),
                                  self.detail(members=self.lab(m.members), query=q))
                elif not _is_bool(h):
                    ctx.note("has_taxon_label-returned-a-non-bool")
                if want and not light:
                    # require_taxon on a present label: returns the first match, creates nothing
                    cnt[2] += 1
                    try:
                        r = ns.require_taxon(q, *pos, **kw)
                    except Exception as e:
                        from ..core import CaseTimeout
                        if isinstance(e, CaseTimeout):
                            raise
                        ctx.violation("require_taxon|raised-although-label-present|%s" % mode,
                                      "require_taxon(%r) raised %s although %d member(s) match" % (
                                          q, type(e).__name__, len(want)), self.detail(members=self.lab(m.members)))
                        raise Abort()
                    if r is not want[0] or len(ns) != n0:
                        ctx.violation("require_taxon|%s|%s" % (
                            "created-members-although-label-present" if len(ns) != n0 else "not-the-first-match", mode),
                            "require_taxon(%r) returned %r, namespace size %d -> %d" % (
                                q, getattr(r, "label", r), n0, len(ns)), self.detail(members=self.lab(m.members)))
                        if len(ns) != n0:
                            raise Abort()       # the model cannot follow; a wrong return alone leaves the state intact
            if light:
                continue
            judged = [q for q in Q if q in per_q]
            if not judged:
                continue
            # ---- multi-label lookups -------------------------------------------------
            lists = [judged[:1], judged[:2], judged[-2:], judged]
            if rng.random() < 0.08:
                lists.append([])
                ctx.ev("route:empty-label-list")
            for ql in lists:
                cnt[0] += 3
                # the label collection in several shapes (sets: iteration order is arbitrary -- the oracle below
                # only uses per-label membership order)
                x = rng.random()
                shape = list if x < 0.6 else tuple if x < 0.75 else iter if x < 0.9 else set
                if shape is not list:
                    ctx.ev("route:label-collection-not-a-list")
                # all matches
                got = ns.get_taxa(shape(ql), *pos, **kw)
                want_set = []
                for q in ql:
                    for t in per_q[q]:
                        if t not in want_set:
                            want_set.append(t)
                bad = None
                if type(got) is list and len(got) == len(want_set) and all(a is real[t] for a, t in zip(got, want_set)):
                    gids = want_set     # quick path: exactly the expected objects, label by label in membership order
                else:
                    gids = [self.tid_of.get(id(t)) for t in got] if isinstance(got, list) else None
                if gids is want_set:
                    pass
                elif gids is None or sorted(gids, key=lambda x: (x is None, x)) != sorted(want_set) or len(set(gids)) != len(gids):
                    bad = "wrong-members"
                else:
                    # members matched by the same label keep membership order
                    for q in ql:
                        sub = [t for t in gids if t in per_q[q]]
                        if sub != [t for t in m.members if t in per_q[q]]:
                            bad = "not-in-membership-order"
                if bad:
                    ctx.violation("lookup|get_taxa|%s|%s" % (bad, mode),
                                  "get_taxa(%r) = %r, expected members %r" % (
                                      ql, [getattr(t, "label", t) for t in got] if isinstance(got, list) else got,
                                      self.lab(want_set)), self.detail(members=self.lab(m.members)))
                # first matches
                if pos:
                    gotf = ns.get_taxa(ql, pos[0], True)
                else:
                    gotf = ns.get_taxa(ql, first_match_only=True, **kw)
                wantf = [real[per_q[q][0]] for q in ql if per_q[q]]
                if not isinstance(gotf, list) or len(gotf) != len(wantf) or any(a is not b for a, b in zip(gotf, wantf)):
                    ctx.violation("lookup|get_taxa(first_match_only)|wrong-members|%s" % mode,
                                  "get_taxa(%r, first_match_only=True) = %r" % (
                                      ql, [getattr(t, "label", t) for t in gotf] if isinstance(gotf, list) else gotf),
                                  self.detail(members=self.lab(m.members)))
                hh = ns.has_taxa_labels(shape(ql), *pos, **kw)
                if bool(hh) != all(bool(per_q[q]) for q in ql):
                    ctx.violation("lookup|has_taxa_labels|wrong-answer|%s" % mode,
                                  "has_taxa_labels(%r) = %r" % (ql, hh), self.detail(members=self.lab(m.members)))
                elif not _is_bool(hh):
                    ctx.note("has_taxa_labels-returned-a-non-bool")
                # labels -> bitmask (keyword route only: taxa_bitmask takes keywords)
                kwl = {} if override is None else {"is_case_sensitive": override}
                if all(t in m.bits for t in want_set):
                    ctx.ev("roundtrip-checked")
                    wantm = 0
                    for t in want_set:
                        wantm |= m.bits[t]
                    if rng.random() < 0.06:
                        ctx.ev("route:get_taxa_bitmask")
                        gm = ns.get_taxa_bitmask(labels=shape(ql), **kwl)
                    else:
                        gm = ns.taxa_bitmask(labels=shape(ql), **kwl)
                    if gm != wantm:
                        ctx.violation("roundtrip|taxa_bitmask(labels)-is-not-the-or-of-matching-members|%s" % mode,
                                      "taxa_bitmask(labels=%r) = %s, expected %s" % (ql, bin(gm), bin(wantm)),
                                      self.detail(members=self.lab(m.members)))
                    if rng.random() < 0.1:
                        ctx.ev("route:taxa_bitmask-labels-first_match_only")
                        wantm = 0
                        for q in ql:
                            if per_q[q]:
                                wantm |= m.bits[per_q[q][0]]
                        gm = ns.taxa_bitmask(labels=ql, first_match_only=True, **kwl)
                        if gm != wantm:
                            ctx.violation("roundtrip|taxa_bitmask(labels,first_match_only)-is-not-the-or-of-first-matches|%s" % mode,
                                          "taxa_bitmask(labels=%r, first_match_only=True) = %s, expected %s" % (
                                              ql, bin(gm), bin(wantm)), self.detail(members=self.lab(m.members)))
                    if ql and m.members and rng.random() < 0.02:
                        ctx.ev("route:taxa_bipartition")
                        try:
                            lb = ns.taxa_bipartition(labels=ql, **kwl).leafset_bitmask
                        except Exception as e:
                            ctx.unexpected("taxa_bipartition(labels)", e, self.detail(members=self.lab(m.members)))
                            lb = None
                        wantm = 0
                        for t in want_set:
                            wantm |= m.bits[t]
                        if lb is not None and lb != wantm:
                            ctx.violation("roundtrip|taxa_bipartition(labels)-leafset-is-not-the-or-of-matching-members|%s" % mode,
                                          "taxa_bipartition(labels=%r).leafset_bitmask = %s, expected %s" % (
                                              ql, bin(lb) if isinstance(lb, int) else lb, bin(wantm)),
                                          self.detail(members=self.lab(m.members)))
            # ---- label -> taxon map (collisions documented as unhandled: any matching member) -----
            cnt[0] += 1
            try:
                d = ns.label_taxon_map(*pos, **kw)
            except Exception as e:
                from ..core import CaseTimeout
                if isinstance(e, CaseTimeout):
                    raise
                ctx.unexpected("label_taxon_map(unlabelled-member)" if unlabelled else "label_taxon_map", e,
                               self.detail(members=self.lab(m.members)))
                d = None
            if d is not None:
                for q in judged:
                    try:
                        v = d[q]
                    except KeyError:
                        v = None
                    tid = self.tid_of.get(id(v)) if v is not None else None
                    okv = (v is None and not per_q[q]) or (tid is not None and tid in per_q[q])
                    if not okv:
                        ctx.violation("lookup|label_taxon_map|wrong-member|%s" % mode,
                                      "label_taxon_map()[%r] = %r, matching members %r" % (
                                          q, getattr(v, "label", v), self.lab(per_q[q])),
                                      self.detail(members=self.lab(m.members)))
        if len(ns) != n0:
            ctx.violation("lookup|changed-the-namespace", "lookups changed the number of members %d -> %d" % (n0, len(ns)),
                          self.detail())
            raise Abort()

    # -- end of a history -----------------------------------------------------------------
    def finish(self):
        # lazy histories: one last complete comparison of every namespace
        if self.mode == "lazy":
            self.mode = "eager"
            self.last_op = "end-of-lazy-history"
            for k, (ns, m) in enumerate(self.pairs):
                self.compare(ns, m, "current" if k == self.cur else "bystander", True, False)
            if self.world.links:
                self.resolve_links()
        if self.nontrivial:
            self.ctx.nontrivial((self.history, self.case.get("cs"), self.case.get("pool")))


# ---------------------------------------------------------------------------------------
# history generators
# ---------------------------------------------------------------------------------------
EXH_QUERIES = ["a", "A", "b", "B", "c"]


def run_history(ctx, case, ops, cs, mode, rng, queries=None, full_every=True, mutable=True, initial=None):
    run = None
    try:
        # (the initial namespace of an exhaustive alphabet is the same for every history: its complete comparison
        # happens in the histories of length 1, whose only operation is also the last one)
        run = Run(ctx, case, cs=cs, mutable=mutable, mode=mode, rng=rng, queries=queries, initial=initial,
                  init_full=full_every)
        last = len(ops) - 1
        for k, op in enumerate(ops):
            run.apply(op, full=(full_every or k == last))
        run.finish()
    except Abort:
        pass
    return run


COPY_KINDS = ["copy", "ctor", "ctor_label", "deepcopy", "clone0", "clone1", "clone2", "taxonset"]


def random_op(run, rng, pool):
    """one operation descriptor, drawn with the current model state in view"""
    m = run.pairs[run.cur][1]
    n = len(m.members)
    L = rng.choice(pool)
    if rng.random() < 0.04:
        L = rng.choice(BOUNDARY)      # every pool meets the boundary labels now and then
    present = run.lab(m.members)
    Lp = rng.choice(present) if present and rng.random() < 0.6 else L
    if Lp is None:
        Lp = ""                       # queries are strings
    x = rng.random()
    if x < 0.3:
        Lp = Lp.swapcase()
    elif x < 0.36:
        Lp = rng.choice((" " + Lp, Lp + " ", Lp.strip()))
    cs = rng.choice([None, None, None, None, True, True, False, False, 1, 0])
    x = rng.random()
    if n < 2 and x < 0.5:
        return ["new", L]
    table = [
        (0.13, lambda: ["new", L]),
        (0.03, lambda: ["new_taxa", [rng.choice(pool) for _ in range(rng.randint(0, 3))]]),
        (0.04, lambda: ["add_fresh", L, rng.random() < 0.3]),
        (0.05, lambda: ["readd"]),
        (0.02, lambda: ["add_member", rng.randint(0, 9)]),
        (0.03, lambda: ["add_taxa", rng.randint(0, 9)]),
        (0.12, lambda: ["require", Lp, cs]),
        (0.08, lambda: ["remove_at", rng.randint(0, 9)] + ([True] if rng.random() < 0.1 else [])),
        (0.01, lambda: ["remove_nonmember"]),
        (0.04, lambda: ["del", rng.randint(-n - 1, n)]),
        (0.05, lambda: ["remove_label", Lp, cs, rng.random() < 0.15]),
        (0.05, lambda: ["discard", Lp, cs, rng.random() < 0.15]),
        (0.01, lambda: ["clear"]),
        (0.07, lambda: ["sort", rng.choice([None, None, "lower", "len"]), rng.random() < 0.4]),
        (0.05, lambda: ["reverse"]),
        (0.06, lambda: ["relabel", rng.randint(0, 9), L]),
        (0.02, lambda: ["relabel_other", rng.randint(0, 9), L]),
        (0.03, lambda: ["set_cs", rng.choice(TRUTHY + FALSY)]),
        (0.04, lambda: ["set_mutable", rng.choice(TRUTHY if rng.random() < 0.6 else FALSY)]),
        (0.09, lambda: ["copy", rng.choice(COPY_KINDS), rng.random() < 0.5]),
    ]
    tot = sum(w for w, _ in table)
    x = rng.random() * tot
    for w, f in table:
        x -= w
        if x <= 0:
            return f()
    return ["reverse"]


def big_history(rng):
    """(constructor items, operations) for a namespace of 300+ members with case-variant pairs"""
    labels = ["T%03d" % i for i in range(300)] + ["t%03d" % i for i in range(0, 300, 37)]
    initial = [["T" if i % 3 == 0 else "L", lab] for i, lab in enumerate(labels)]
    ops = [["remove_at", 0] for _ in range(5)] + [["del", -1] for _ in range(5)]
    ops += [["remove_at", rng.randint(0, 400)] for _ in range(10)]
    ops += [["readd"], ["readd"], ["add_taxa", 7], ["new", "Z1"], ["new", "t100"]]
    ops += [["sort", rng.choice([None, "lower"]), rng.random() < 0.5], ["discard", "t037", False, False],
            ["remove_label", "T074", None, True], ["reverse"], ["copy", "deepcopy", True],
            ["remove_at", 3], ["readd"], ["relabel", 5, "t111"], ["require", "T111", None],
            ["require", "absent", 1], ["copy", "copy", False], ["del", 0], ["new_taxa", ["n1", "N1", "n1"]],
            ["discard", "N1", None, False], ["remove_label", "t148", True, False], ["set_mutable", False],
            ["require", "T200", True], ["new", "nope"], ["set_mutable", True], ["sort", "len", True],
            ["copy", "ctor", True], ["remove_at", 150], ["readd"], ["reverse"]]
    return initial, ops


def run_case(case, ctx):
    global _HOOKS
    if _HOOKS is None:
        shard_setup(ctx)
    rng = random.Random("%s/%s" % (case["seed"], sorted((k, str(v)) for k, v in case.items())))
    kind = case["kind"]
    if kind == "directed":
        for d in DIRECTED:
            run = run_history(ctx, case, d["ops"], d["cs"], case["mode"], random.Random(0))
            ctx.ev("history-run")
            if case["mode"] == "eager" and run is not None:
                ctx.sample({"kind": "directed", "name": d["name"], "ops": d["ops"],
                            "final_members": run.lab(run.pairs[run.cur][1].members)})
    elif kind == "big":
        initial, ops = big_history(rng)
        run = None
        try:
            run = Run(ctx, case, cs=rng.choice((False, True, 1)), mode=case["mode"], rng=rng, initial=initial)
            last = len(ops) - 1
            for k, op in enumerate(ops):
                run.apply(op, full=(k % 4 == 3 or k == last))
            run.finish()
        except Abort:
            pass
        ctx.ev("history-run")
    elif kind == "exh":
        alpha = U.ALPHABETS[case["alpha"]]
        k = len(alpha)
        mode = case.get("mode", "eager")
        pre = [alpha[i] for i in case["prefix"]]
        queries = U.ALPHABET_QUERIES.get(case["alpha"], EXH_QUERIES)
        initial = U.ALPHABET_INIT.get(case["alpha"])
        for length in case["lens"]:
            extra = length - len(pre)
            if extra < 0:
                continue
            for suffix in itertools.product(range(k), repeat=extra):
                ops = pre + [alpha[i] for i in suffix]
                # route choices vary from history to history, reproducibly (int tuples hash deterministically)
                run_history(ctx, case, ops, case["cs"], mode,
                            random.Random(hash(tuple(case["prefix"]) + suffix + (length,)) & 4095), queries=queries,
                            full_every=False, initial=initial)
                ctx.ev("history-run")
    elif kind == "random":
        pool = POOLS[case["pool"]]
        mode = rng.choice(["eager", "eager", "lazy"])
        initial = None
        if rng.random() < 0.5:
            initial = [[rng.choice("LLT"), rng.choice(pool)] for _ in range(rng.randint(1, 5))]
        run = None
        try:
            run = Run(ctx, case, cs=rng.choice(TRUTHY + FALSY), mutable=rng.choice(TRUTHY), mode=mode, rng=rng,
                      initial=initial, cls="TaxonSet" if rng.random() < 0.125 else "TaxonNamespace")
            for _ in range(0 if initial else rng.randint(0, 4)):
                run.apply(["new", rng.choice(pool)])
            for _ in range(case["len"]):
                run.apply(random_op(run, rng, pool))
            run.finish()
        except Abort:
            pass
        ctx.ev("history-run")
        if case["i"] < 5 and run is not None:
            ctx.sample({"kind": "random", "pool": case["pool"], "mode": mode, "first_ops": run.history[:12],
                        "final_members": run.lab(run.pairs[run.cur][1].members)})
    else:
        raise ValueError(kind)
