"""C03  Trees stay well-formed arborescences under every history of mutating operations.

Workload = state-space exploration used as a generator (every admissible operation x target x
flag setting from every small tree, successor states de-duplicated by ordered signature, to a
bounded depth) + long random histories on one live object (hidden state such as bipartition
caches and stale parent pointers of detached nodes is carried along).

After EVERY operation, whether it returned or raised, the monitors judge
  well-formed      arborescence walker on the raw fields + every iterator visits exactly the reachable nodes
  exception        only the operation's documented errors may escape
  leaf-multiset    multiset of taxon-bearing leaves changes exactly by what the operation was asked to remove/add
  bipartitions     if update_bipartitions was requested on a tree whose encoding was current: every edge's
                   (leafset, split) mask equals the reference value for the taxa below it and the encoding list
                   is exactly the edges' bipartition objects (this is what a fresh encoding yields)

Soundness limits (admissible calls only): targets belong to the tree; add/insert/set_child_nodes/parent setter
receive new or detached nodes, never an ancestor; attaching below a taxon-bearing leaf is generated but the
multiset clause is then adjusted (that leaf stops being a leaf); reseed_at/reroot_at_node get internal targets;
reroot_at_edge internal edges; reroot_at_midpoint only with >= 2 leaves, a distinct taxon on every leaf and a length
on every non-root edge; Edge.invert only on edges whose tail is not the seed (the Edge cannot fix the tree's seed
pointer - reseed_at does) and without update_bipartitions (an Edge has no access to the namespace);
seed_node is assigned parentless nodes."""
import random

from .. import ref, gen, bridge, core
from ..mon import arbor
from ..mon.budget import budget, StepBudgetExceeded
from . import C01

PROP = "C03"
LEVEL_TEXT = 'After every operation of explored (all admissible op x target x flags from every small tree, successor states deduplicated, depth 2/3) and random (30 ops on one live object) histories the arborescence walker, the exception allow-list, the leaf-multiset delta and the bipartition-freshness oracle are evaluated - also when the operation raised. Each operation runs under a JUMP step budget, so non-termination is a verdict. Evidence lists distinct states and (state, op) transitions observed.'
LEVEL_NOTE = 'Trusted: the walker (raw fields only), the per-operation documented-error allow-list built from docstrings/raise statements, the admissibility rules listed in the module docstring.'
LEVEL = "exploration"
TECHNIQUE = "runtime monitoring: arborescence walker + leaf-multiset and bipartition-freshness oracles after every operation of explored/random histories"
RULE = ("bounded exploration of operation histories from every tree with <= 3 (quick) / <= 4 (thorough) leaves x rooting x "
        "{no, unit} lengths with all admissible (operation, target, flags), successor states deduplicated by ordered signature; "
        "plus random histories of 30 operations on random trees. non-trivial/distinct = distinct (state signature, operation descriptor) transition")
REACH = ["_node:Node.add_child", "_node:Node.insert_child", "_node:Node.remove_child", "_node:Node._set_parent_node",
         "_tree:Tree.reseed_at", "_tree:Tree.collapse_basal_bifurcation", "_tree:Tree.suppress_unifurcations",
         "_edge:Edge.invert", "_edge:Edge.collapse", "_tree:Tree.prune_taxa", "_tree:Tree.filter_leaf_nodes",
         "_tree:Tree.prune_leaves_without_taxa", "_tree:Tree.resolve_polytomies", "_tree:Tree.encode_bipartitions",
         "_tree:Tree.collapse_unweighted_edges", "_tree:Tree.to_outgroup_position", "_tree:Tree.reroot_at_midpoint",
         "_node:Node.collapse_clade", "_node:Node.collapse_neighborhood", "_node:Node.collapse_conflicting",
         "_tree:Tree.polytomize_root", "_tree:Tree.shuffle_taxa", "_tree:Tree.prune_subtree", "_tree:Tree.retain_taxa"]
MIN_EVENTS = {"op-applied": (20000, 400000), "walker-ok": (20000, 400000), "multiset-judged": (15000, 300000),
              "bipartitions-judged": (3000, 60000), "documented-error-seen": (50, 500), "history-completed": (100, 3000)}
ASSUMPTIONS = ["walker reads only _seed_node/_child_nodes/_parent_node/_edge/_head_node",
               "documented-error allow-list per operation was built from docstrings and explicit raise statements"]
CASE_TIMEOUT = 120


class Skip(Exception):
    pass


# ------------------------------------------------------------------------------------------------
class T(object):
    """live tree + aligned reference view at one quiescent point."""

    def __init__(self, tree):
        self.tree = tree
        self.spec, pairs = bridge.extract(tree, with_nodes=True)
        self.nodes = [nd for s, nd in pairs]          # pre-order
        self.snodes = [s for s, nd in pairs]
        self.idx = dict((id(nd), i) for i, nd in enumerate(self.nodes))

    def clade(self, i):
        return sorted(n[0] for n in ref.leaves(self.snodes[i]) if n[0] is not None)

    def leafbag(self):
        return sorted(ref.leaf_taxa(self.spec))


def _flags(names, exhaustive, rng, cap=2):
    combos = [{}]
    for n in names:
        combos = [dict(c, **{n: v}) for c in combos for v in (False, True)]
    if exhaustive or len(combos) <= cap:
        return combos
    return rng.sample(combos, cap)


USC = ("update_bipartitions", "suppress_unifurcations", "collapse_unrooted_basal_bifurcation")
US = ("update_bipartitions", "suppress_unifurcations")


def enumerate_ops(t, rng, exhaustive):
    """all admissible operation descriptors on the current tree (sampled when not exhaustive)."""
    out = []
    n = len(t.nodes)
    internal = [i for i in range(n) if t.nodes[i]._child_nodes]
    nonroot = list(range(1, n))
    leaves_tax = [i for i in range(n) if not t.nodes[i]._child_nodes and t.nodes[i].taxon is not None]
    labels = t.leafbag()

    def pick(seq, k):
        seq = list(seq)
        return seq if (exhaustive or len(seq) <= k) else rng.sample(seq, k)

    def add(op, **kw):
        d = {"op": op}
        d.update(kw)
        out.append(d)
    for i in pick(internal, 3):
        for f in _flags(USC, exhaustive, rng):
            add("reseed_at", t=i, kw=f)
        for f in _flags(USC, exhaustive, rng, 1):
            add("reroot_at_node", t=i, kw=f)
    for i in pick([i for i in nonroot if t.nodes[i]._child_nodes], 2):
        for f in _flags(US, exhaustive, rng, 1):
            add("reroot_at_edge", t=i, kw=f, lens=rng.choice([None, [1, 1]]) if not exhaustive else None)
            if exhaustive:
                add("reroot_at_edge", t=i, kw=f, lens=[1, 2])
    if midpoint_admissible(t):
        for f in _flags(USC, exhaustive, rng, 1):
            add("reroot_at_midpoint", kw=f)
    for i in pick(nonroot, 3):
        for f in _flags(US, exhaustive, rng, 1):
            add("to_outgroup_position", t=i, kw=f)
        for f in _flags(US, exhaustive, rng, 1):
            add("prune_subtree", t=i, kw=f)
    add("prune_subtree", t=0, kw={})      # documented TypeError
    # taxon-set based removals
    subsets = []
    if labels:
        uniq = sorted(set(labels))
        if exhaustive and len(uniq) <= 4:
            for m in range(1, 2 ** len(uniq)):
                subsets.append([uniq[k] for k in range(len(uniq)) if m >> k & 1])
        else:
            for _ in range(2):
                k = rng.randint(1, len(uniq))
                subsets.append(sorted(rng.sample(uniq, k)))
            subsets.append(uniq)
    subsets.append([])
    for sub in subsets:
        for op in pick(("prune_taxa", "prune_taxa_with_labels", "retain_taxa", "retain_taxa_with_labels"), 2):
            for f in _flags(US, exhaustive and len(sub) == 1, rng, 1):
                add(op, labels=sub, kw=f)
        for f in _flags(US, False, rng, 1):
            add("filter_leaf_nodes", keep=sub, kw=dict(f, recursive=rng.random() < 0.7))
    for f in _flags(US, exhaustive, rng, 1):
        add("prune_leaves_without_taxa", kw=dict(f, recursive=rng.random() < 0.7))
    if nonroot:
        for _ in range(1 if not exhaustive else 2):
            k = rng.randint(1, min(2, len(nonroot)))
            add("prune_nodes", ts=sorted(rng.sample(nonroot, k)),
                kw={"prune_leaves_without_taxa": rng.random() < 0.5, "suppress_unifurcations": rng.random() < 0.5,
                    "update_bipartitions": rng.random() < 0.5})
    for u in (False, True):
        add("collapse_unweighted_edges", kw={"update_bipartitions": u})
        add("suppress_unifurcations", kw={"update_bipartitions": u})
        add("resolve_polytomies", kw={"update_bipartitions": u, "limit": 2}, rng=u)
    add("collapse_unweighted_edges", kw={"threshold": 1})
    add("resolve_polytomies", kw={"limit": 3}, rng=False)
    for v in (False, True):
        add("collapse_basal_bifurcation", kw={"set_as_unrooted_tree": v})
        add("polytomize_root", kw={"set_as_unrooted_tree": v})
        add("ladderize", kw={"ascending": v})
        add("reorder", kw={"ascending": v})
        add("randomly_reorient", kw={"update_bipartitions": v})
        add("shuffle_taxa", kw={"include_internal_nodes": v})
    add("deroot", kw={})
    add("randomly_rotate", kw={})
    for f in _flags(("suppress_unifurcations", "collapse_unrooted_basal_bifurcation"), exhaustive, rng, 2):
        add("encode_bipartitions", kw=f)
    add("update_bipartitions", kw={})
    for v in (True, False, None):
        add("set_is_rooted", v=v)
    add("set_seed_node", kw={})
    # ---- Node level
    # new children are attached only below internal nodes or taxon-less leaves, so that no node with children
    # ever carries a taxon (a taxon-bearing leaf that gets a child stops being a leaf: outside the multiset clause)
    attachable = [i for i in range(n) if t.nodes[i]._child_nodes or t.nodes[i].taxon is None]
    for i in pick(attachable, 3):
        add("add_child", t=i)
        add("new_child", t=i)
        add("insert_child", t=i, pos=rng.randint(0, len(t.nodes[i]._child_nodes)))
        add("insert_new_child", t=i, pos=0)
        add("set_child_nodes", t=i, mode=rng.choice(["reverse", "drop-first", "plus-new"]))
    for i in pick(range(n), 3):
        add("clear_child_nodes", t=i)
        add("collapse_clade", t=i)
        if labels:
            add("collapse_conflicting", t=i, split=rng.sample(sorted(set(labels)), min(len(set(labels)), 2)))
    for i in pick(internal, 3):
        # undocumented helper; only meaningful at internal nodes (at a leaf it asks Edge.collapse to collapse a terminal)
        add("collapse_neighborhood", t=i, dist=rng.choice([0, 1, 2]))
    for i in pick(nonroot, 3):
        p = t.idx[id(t.nodes[i]._parent_node)]
        for s in (False, True):
            add("remove_child", t=p, c=i, kw={"suppress_unifurcations": s})
        add("set_parent_node", t=i, to=None)
        below = set(id(x) for x in t.nodes[i].preorder_iter())
        cands = [j for j in attachable if id(t.nodes[j]) not in below and t.nodes[j] is not t.nodes[i]._parent_node]
        if cands:
            add("set_parent_node", t=i, to=rng.choice(cands))
        if t.nodes[i]._child_nodes:
            for adj in (False, True):
                add("edge_collapse", t=i, kw={"adjust_collapsed_head_children_edge_lengths": adj})
            # Edge.invert is not applied on its own: it is the building block of reseed_at, which alone knows how to
            # complete it (seed pointer, parent of the promoted node); it is exercised through every re-seeding.
        else:
            add("edge_collapse", t=i, kw={})     # documented ValueError (terminal)
    if n >= 2:
        add("remove_child", t=0, c=-1, kw={})    # documented ValueError (not a child)
        # a node that IS in the tree, but under another parent (grandchild, sibling subtree, ancestor, the node itself):
        # the documented ValueError must leave the tree as it was
        for i in pick(range(n), 3):
            kids = set(id(c) for c in t.nodes[i]._child_nodes)
            others = [j for j in range(n) if id(t.nodes[j]) not in kids]
            if others:
                for s_ in (False, True):
                    add("remove_child", t=i, c=rng.choice(others), nonchild=True, kw={"suppress_unifurcations": s_})
    return out


def midpoint_admissible(t):
    lv = [s for s in t.snodes if not s[3]]
    if len(lv) < 2 or any(s[0] is None for s in lv):
        return False
    if len(set(s[0] for s in lv)) != len(lv):
        return False
    return all(s[2] is not None for s in t.snodes[1:])


_counter = [0]


def new_leaf(tree, length=None):
    import dendropy
    _counter[0] += 1
    lbl = "N%d" % _counter[0]
    tx = tree.taxon_namespace.require_taxon(label=lbl)
    return dendropy.Node(taxon=tx, edge_length=length), lbl


def apply_op(t, d, rng):
    """perform the operation described by d on t.tree.  returns an expectation dict:
    removed / added (label lists), allowed (documented exception classes), judge_multiset."""
    import dendropy
    from dendropy.utility import error
    tree = t.tree
    op = d["op"]
    kw = dict(d.get("kw", {}))
    exp = {"removed": [], "added": [], "allowed": (), "judge_multiset": True}
    nd = t.nodes[d["t"]] if "t" in d and d["t"] is not None and d["t"] < len(t.nodes) else None
    SND = error.SeedNodeDeletionException
    if op in ("reseed_at", "reroot_at_node", "to_outgroup_position"):
        fn = getattr(tree, op)
        return exp, lambda: fn(nd, **kw)
    if op == "reroot_at_edge":
        l1, l2 = d.get("lens") or (None, None)
        return exp, lambda: tree.reroot_at_edge(nd.edge, length1=l1, length2=l2, **kw)
    if op == "reroot_at_midpoint":
        return exp, lambda: tree.reroot_at_midpoint(**kw)
    if op == "prune_subtree":
        if nd._parent_node is None:
            exp["allowed"] = (TypeError,)
        else:
            exp["removed"] = t.clade(d["t"])
        return exp, lambda: tree.prune_subtree(nd, **kw)
    if op in ("prune_taxa", "prune_taxa_with_labels", "retain_taxa", "retain_taxa_with_labels"):
        bag = t.leafbag()
        sel = set(d["labels"])
        if op.startswith("prune"):
            exp["removed"] = [x for x in bag if x in sel]
        else:
            exp["removed"] = [x for x in bag if x not in sel]
        exp["allowed"] = (SND,) if len(exp["removed"]) == len(bag) else ()
        if exp["allowed"]:
            exp["judge_multiset"] = False
        taxa = [tx for tx in tree.taxon_namespace if tx.label in sel]
        arg = d["labels"] if op.endswith("labels") else taxa
        fn = getattr(tree, op)
        return exp, lambda: fn(arg, **kw)
    if op == "filter_leaf_nodes":
        keep = set(d["keep"])
        bag = t.leafbag()
        exp["removed"] = [x for x in bag if x not in keep]
        # a pass over the current leaves may ask for the seed itself to be deleted
        exp["allowed"] = (SND,)
        if len(exp["removed"]) == len(bag) or not kw.get("recursive", True):
            pass
        return exp, lambda: tree.filter_leaf_nodes(lambda x: x.taxon is not None and x.taxon.label in keep, **kw)
    if op == "prune_leaves_without_taxa":
        exp["allowed"] = (SND,) if not t.leafbag() else ()
        return exp, lambda: tree.prune_leaves_without_taxa(**kw)
    if op == "prune_nodes":
        nds = [t.nodes[i] for i in d["ts"] if i < len(t.nodes)]
        # drop nodes nested in other selected nodes (removing a node twice is not admissible)
        sel = []
        for x in nds:
            anc = x._parent_node
            nested = False
            while anc is not None:
                if any(anc is y for y in nds):
                    nested = True
                anc = anc._parent_node
            if not nested and x._parent_node is not None:
                sel.append(x)
        if not sel:
            raise Skip()
        rem = []
        for x in sel:
            rem += t.clade(t.idx[id(x)])
        exp["removed"] = rem
        if kw.get("prune_leaves_without_taxa") and len(rem) == len(t.leafbag()):
            exp["allowed"] = (SND,)
            exp["judge_multiset"] = False
        return exp, lambda: tree.prune_nodes(sel, **kw)
    if op in ("collapse_unweighted_edges", "suppress_unifurcations", "collapse_basal_bifurcation", "polytomize_root",
              "ladderize", "reorder", "deroot", "encode_bipartitions", "update_bipartitions"):
        fn = getattr(tree, op)
        return exp, lambda: fn(**kw)
    if op == "resolve_polytomies":
        r = random.Random(rng.random()) if d.get("rng") else None
        return exp, lambda: tree.resolve_polytomies(rng=r, **kw)
    if op in ("randomly_reorient", "randomly_rotate"):
        r = random.Random(rng.random())
        fn = getattr(tree, op)
        return exp, lambda: fn(rng=r, **kw)
    if op == "shuffle_taxa":
        r = random.Random(rng.random())
        # distinct taxa on the shuffled nodes is the method's own stated assumption (it asserts it)
        bag = [x.taxon for x in t.nodes if x.taxon is not None and (kw.get("include_internal_nodes") or not x._child_nodes)]
        if len(set(map(id, bag))) != len(bag):
            raise Skip()
        return exp, lambda: tree.shuffle_taxa(rng=r, **kw)
    if op == "set_is_rooted":
        def f():
            tree.is_rooted = d["v"]
        return exp, f
    if op == "set_seed_node":
        newroot = dendropy.Node()
        a, la = new_leaf(tree, 1)
        b, lb = new_leaf(tree, 1)
        newroot.add_child(a)
        newroot.add_child(b)
        exp["removed"] = t.leafbag()
        exp["added"] = [la, lb]

        def f():
            tree.seed_node = newroot
        return exp, f
    # ---------------- node level
    if nd is None:
        raise Skip()
    parent_is_taxleaf = (not nd._child_nodes) and nd.taxon is not None
    if op in ("add_child", "new_child", "insert_child", "insert_new_child"):
        if parent_is_taxleaf:
            exp["removed"] = [nd.taxon.label]
        if op in ("add_child", "insert_child"):
            ch, lbl = new_leaf(tree, 1)
            exp["added"] = [lbl]
            if op == "add_child":
                return exp, lambda: nd.add_child(ch)
            return exp, lambda: nd.insert_child(d["pos"], ch)
        _counter[0] += 1
        lbl = "N%d" % _counter[0]
        tx = tree.taxon_namespace.require_taxon(label=lbl)
        exp["added"] = [lbl]
        if op == "new_child":
            return exp, lambda: nd.new_child(taxon=tx, edge_length=2)
        return exp, lambda: nd.insert_new_child(d["pos"], taxon=tx, edge_length=2)
    if op == "clear_child_nodes":
        if nd._child_nodes:
            exp["removed"] = t.clade(d["t"])
            if nd.taxon is not None:
                exp["added"] = [nd.taxon.label]
        return exp, lambda: nd.clear_child_nodes()
    if op == "collapse_clade":
        return exp, lambda: nd.collapse_clade()
    if op == "collapse_neighborhood":
        return exp, lambda: nd.collapse_neighborhood(d["dist"])
    if op == "collapse_conflicting":
        # needs a current encoding (it reads edge.bipartition of the subtree): made current by the driver
        if tree.is_rooted is None:
            pass
        ns = tree.taxon_namespace
        m = 0
        for tx in ns:
            if tx.label in d["split"]:
                m |= ns.taxon_bitmask(tx)
        full = 0
        for s in t.snodes:
            if not s[3] and s[0] is not None:
                full |= ns.taxon_bitmask(ns.get_taxon(s[0]))
        bip = dendropy.Bipartition(leafset_bitmask=m, tree_leafset_bitmask=full, is_rooted=bool(tree.is_rooted))
        exp["needs_encoding"] = True
        return exp, lambda: nd.collapse_conflicting(bip)
    if op == "set_child_nodes":
        kids = list(nd._child_nodes)
        mode = d["mode"]
        if mode == "reverse":
            newkids = kids[::-1]
        elif mode == "drop-first":
            if not kids:
                raise Skip()
            newkids = kids[1:]
            exp["removed"] = t.clade(t.idx[id(kids[0])])
            if not newkids and nd.taxon is not None:
                exp["added"] = [nd.taxon.label]
        else:
            ch, lbl = new_leaf(tree, 1)
            newkids = kids + [ch]
            exp["added"] = [lbl]
            if parent_is_taxleaf:
                exp["removed"] = [nd.taxon.label]
        return exp, lambda: nd.set_child_nodes(newkids)
    if op == "remove_child":
        if d["c"] == -1:
            other, _ = new_leaf(tree)
            exp["allowed"] = (ValueError,)
            return exp, lambda: nd.remove_child(other)
        ch = t.nodes[d["c"]]
        if d.get("nonchild"):
            exp["allowed"] = (ValueError,)
            return exp, lambda: nd.remove_child(ch, **kw)
        exp["removed"] = t.clade(d["c"])
        if len(nd._child_nodes) == 1 and nd.taxon is not None:
            exp["added"] = [nd.taxon.label]
        return exp, lambda: nd.remove_child(ch, **kw)
    if op == "set_parent_node":
        if d["to"] is None:
            exp["removed"] = t.clade(d["t"])
            oldp = nd._parent_node
            if len(oldp._child_nodes) == 1 and oldp.taxon is not None:
                exp["added"] = [oldp.taxon.label]

            def f():
                nd.parent_node = None
            return exp, f
        tgt = t.nodes[d["to"]]
        oldp = nd._parent_node
        if (not tgt._child_nodes) and tgt.taxon is not None:
            exp["removed"] = [tgt.taxon.label]
        if len(oldp._child_nodes) == 1 and oldp.taxon is not None:
            exp["added"] = [oldp.taxon.label]

        def f():
            nd.parent_node = tgt
        return exp, f
    if op == "edge_collapse":
        if not nd._child_nodes:
            exp["allowed"] = (ValueError,)
        return exp, lambda: nd.edge.collapse(**kw)
    if op == "edge_invert":
        return exp, lambda: nd.edge.invert()
    raise core.HarnessBug("unknown op %s" % op)


def bag_minus_plus(bag, removed, added):
    out = list(bag)
    for x in removed:
        if x in out:
            out.remove(x)
        else:
            return None
    out += added
    return sorted(out)


def step(ctx, tree, d, rng, history):
    """apply one operation with all monitors.  returns False if the tree must not be used further."""
    t = T(tree)
    try:
        exp, thunk = apply_op(t, d, rng)
    except Skip:
        return True
    op = d["op"]
    wants_bip = bool(d.get("kw", {}).get("update_bipartitions")) or op in ("encode_bipartitions", "update_bipartitions")
    if wants_bip or exp.get("needs_encoding"):
        # make the encoding current without restructuring the tree
        try:
            tree.encode_bipartitions(suppress_unifurcations=False, collapse_unrooted_basal_bifurcation=False)
        except Exception as e:
            ctx.unexpected("encode_bipartitions(pre)", e, {"history": history})
            return False
    before_bag = t.leafbag()
    det = {"state": ref.to_newick(t.spec), "rooted": tree._is_rooted, "op": d, "history": history[-6:]}
    ctx.ev("op-applied")
    ctx.ev("op:%s" % op)
    raised = None
    limit = 50000 + 5000 * len(t.nodes)
    try:
        with budget(limit) as b:
            thunk()
    except core.CaseTimeout:
        raise
    except StepBudgetExceeded as e:
        ctx.violation("%s|does-not-terminate|%s" % (op, e.where.rsplit(":", 1)[0]),
                      "operation exceeded the logical step budget (%d backward jumps for %d nodes) at %s" % (limit, len(t.nodes), e.where), det)
        return False
    except Exception as e:
        raised = e
        if exp["allowed"] and isinstance(e, exp["allowed"]):
            ctx.ev("documented-error-seen")
        else:
            ctx.unexpected(op, e, det)
    else:
        if exp["allowed"] and not exp["judge_multiset"]:
            # a documented refusal was *permitted*, not demanded
            pass
    # ---- well-formedness (returned or raised)
    probs = arbor.check(tree)
    if probs:
        ctx.violation("%s|malformed-tree%s|%s" % (op, "-after-raise" if raised else "", probs[0]), "; ".join(probs), det)
        return False
    ctx.ev("walker-ok")
    so = arbor.second_opinion(tree)
    if so is not None:
        ctx.note("library-self-check-disagrees-with-walker")
    if raised is not None:
        return not isinstance(raised, Exception) or True
    t2 = T(tree)
    det["after"] = ref.to_newick(t2.spec)
    # ---- leaf multiset
    if exp["judge_multiset"]:
        want = bag_minus_plus(before_bag, exp["removed"], exp["added"])
        got = t2.leafbag()
        ctx.ev("multiset-judged")
        if want is None or got != want:
            ctx.violation("%s|leaf-multiset" % op, "leaf taxa %s, expected %s" % (got, want), det)
    # ---- bipartitions
    if wants_bip and tree._seed_node is not None and not t2.leafbag():
        ctx.note("bipartitions-of-taxon-less-tree-not-judged")
    elif wants_bip and tree._seed_node is not None:
        ctx.ev("bipartitions-judged")
        C01.check_encoding(ctx, tree, tree.taxon_namespace, bool(tree._is_rooted), "%s|stale-bipartitions" % op, None, d.get("kw"))
    return True


def start_trees(nmax):
    out = []
    for n in range(1, nmax + 1):
        for shape in gen.all_shapes(n):
            out.append(gen.shape_to_spec(shape))
    # a unary root and a unary inner node, which the shape enumeration never contains
    out.append(ref.S(None, [ref.S(None, [ref.S("T0"), ref.S("T1")])]))
    out.append(ref.S(None, [ref.S("T0"), ref.S(None, [ref.S("T1")])]))
    return out


def make_tree(spec, rooted, unit):
    import dendropy
    spec = ref.copy(spec)
    if unit:
        for n in ref.preorder(spec):
            n[2] = None if n is spec else 1
    ns = dendropy.TaxonNamespace(sorted(ref.leaf_taxa(spec)))
    return bridge.build_tree(spec, ns, rooted), spec


def cases(tier, seed):
    nmax = 3 if tier == "quick" else 4
    starts = start_trees(nmax)
    parts = 8 if tier == "quick" else 16
    for i in range(len(starts)):
        for rooted in (True, False):
            for unit in (False, True):
                for p in range(parts):
                    yield {"kind": "explore", "start": i, "rooted": rooted, "unit": unit, "part": p, "parts": parts,
                           "nmax": nmax, "depth": 2 if tier == "quick" else 3, "seed": seed}
    nh = 400 if tier == "quick" else 12000
    for i in range(nh):
        yield {"kind": "history", "i": i, "seed": seed}


def state_sig(tree):
    spec = bridge.extract(tree)
    return (ref.ordered(spec), tree._is_rooted), spec


def rebuild(spec, rooted):
    import dendropy
    labels = sorted(set(x for x in ref.leaf_taxa(spec)))
    ns = dendropy.TaxonNamespace(labels)
    return bridge.build_tree(spec, ns, rooted)


def explore(ctx, case, rng):
    spec0 = start_trees(case["nmax"])[case["start"]]
    tree0, spec0 = make_tree(spec0, case["rooted"], case["unit"])
    frontier = [(spec0, case["rooted"], [])]
    seen = set()
    budget_states = 250 if ctx.tier == "quick" else 400
    for depth in range(case["depth"]):
        nxt = []
        for spec, rooted, hist in frontier:
            tree = rebuild(spec, rooted)
            ops = enumerate_ops(T(tree), random.Random(rng.random()), True)
            if depth == 0:
                ops = [o for k, o in enumerate(ops) if k % case["parts"] == case["part"]]
            elif depth >= 2:
                ops = [o for k, o in enumerate(ops) if rng.random() < 0.05]
            for d in ops:
                tree = rebuild(spec, rooted)
                h2 = hist + [d]
                ok = step(ctx, tree, d, rng, h2)
                ctx.transition((ref.ordered(spec), rooted, d))
                ctx.nontrivial((ref.ordered(spec), rooted, d))
                if not ok:
                    continue
                try:
                    sig, s2 = state_sig(tree)
                except bridge.ExtractError:
                    continue
                ctx.state(sig)
                if sig not in seen and len(seen) < budget_states and ref.n_nodes(s2) <= 14:
                    seen.add(sig)
                    nxt.append((s2, tree._is_rooted, h2))
        frontier = nxt
    if case["part"] == 0 and case["start"] in (1, 3):
        ctx.sample({"kind": "explore", "start": ref.to_newick(spec0), "rooted": case["rooted"], "depth": case["depth"],
                    "states_expanded": len(seen)})


def history(ctx, case, rng):
    n = rng.choice([2, 3, 5, 8, 12]) if ctx.tier == "quick" else rng.choice([2, 4, 8, 15, 25, 40])
    spec = gen.random_spec(rng, n, p_poly=rng.choice([0, 0.3, 0.6]), p_unary=rng.choice([0, 0.1]))
    gen.decorate_lengths(spec, rng, rng.choice(["none", "unit", "ints", "zeros", "float", "mixed_missing"]))
    rooted = rng.choice([True, False, False, None])
    tree = rebuild(spec, rooted)
    hist = []
    for k in range(30):
        ops = enumerate_ops(T(tree), rng, False)
        d = rng.choice(ops)
        hist.append(d)
        if not step(ctx, tree, d, rng, hist):
            break
        if tree._seed_node is None:
            break
        sig, s2 = state_sig(tree)
        ctx.state(sig)
        ctx.nontrivial((sig, d))
        if ref.n_nodes(s2) > 400:
            break
    else:
        ctx.ev("history-completed")
    if case["i"] < 2:
        ctx.sample({"kind": "history", "start": ref.to_newick(spec), "rooted": rooted, "ops": [h["op"] for h in hist]})


def run_case(case, ctx):
    rng = random.Random("%s/%s" % (case["seed"], sorted((k, str(v)) for k, v in case.items())))
    if case["kind"] == "explore":
        explore(ctx, case, rng)
    else:
        history(ctx, case, rng)
