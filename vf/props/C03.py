"""C03  Trees stay well-formed arborescences under every history of mutating operations.

Workload = state-space exploration used as a generator (every admissible operation x target x
flag setting from every small tree, successor states de-duplicated by ordered signature, to a
bounded depth; a sample of the successors is continued on the LIVE object, always when the operation
left detached nodes or an undo record behind) + long random histories on one live object (hidden state
such as bipartition caches, edge maps a caller has read and stale parent pointers of detached nodes is
carried along; detached nodes are handed back to later operations).

After EVERY operation, whether it returned or raised, the monitors judge
  well-formed      arborescence walker on the raw fields
  traversals       every public node / edge iterator and list accessor of Tree and of the seed Node, without and
                   with a filter_fn, yields exactly the reachable nodes / edges of its class (_c03_lib.traversals;
                   evaluated once per distinct ordered shape and on a random 1% of the other steps - the
                   iterators read nothing but the raw fields the walker has just validated)
  exception        only the operation's documented errors may escape
  leaf-multiset    multiset of taxon-bearing leaves changes exactly by what the operation was asked to remove/add;
                   a node that stays in the tree and merely changes between leaf and internal takes its taxon
                   into / out of the multiset (a taxon leaf may turn internal only where the operation was asked
                   to attach or re-seed)
  bipartitions     if update_bipartitions was requested on a tree whose encoding was current: the encoding list
                   exists, every edge's (leafset, split) mask equals the reference value for the taxa below it and
                   the encoding list is exactly the edges' bipartition objects (this is what a fresh encoding
                   yields); the edge maps are read as a caller reads them (they were read before the operation)

Soundness limits (admissible calls only): targets belong to the tree; add/insert/set_child_nodes/parent setter/
Edge.tail_node setter receive new nodes, new small subtrees, nodes detached earlier in the same history (whole
detached subtrees that share no node with the tree) or a node that already is a child of the target, never an
ancestor; reseed_at/reroot_at_node also get leaf targets and reroot_at_edge terminal edges (own key discriminator:
the docstrings speak of internal nodes/edges, the code has a branch for leaves);
reroot_at_midpoint only with >= 2 leaves, a distinct taxon on every leaf and a length
on every non-root edge; Edge.invert only on edges whose tail is not the seed (the Edge cannot fix the tree's seed
pointer - reseed_at does) and without update_bipartitions (an Edge has no access to the namespace);
seed_node is assigned parentless nodes or (documented splice) a node of the tree itself; reinsert_nodes only directly
after the reversible_remove_child whose record it gets (its documented precondition); shuffle_taxa only with distinct
taxa on the shuffled nodes.  Not driven: assigning a new Edge object to Node.edge / Edge.head_node (a raw attribute
assignment, not one of the statement's operations; see the note in enumerate_ops)."""
import random
import warnings

from .. import ref, gen, bridge, core
from ..mon import arbor
from ..mon.budget import budget, StepBudgetExceeded
from . import C01
from . import _c03_lib as L

PROP = "C03"
LEVEL_TEXT = 'After every operation of explored (all admissible op x target x flags from every small tree incl. trees with taxa on internal nodes, duplicate taxa and a root length, successor states deduplicated, depth 2/3, sampled continuation on the live object) and random (30 ops on one live object, detached nodes re-used) histories the arborescence walker, the traversal battery (every public node/edge iterator against the reachable sets), the exception allow-list, the leaf-multiset delta and the bipartition-freshness oracle (encoding list must exist; edge maps read as a caller would) are evaluated - also when the operation raised. Each operation runs under a JUMP step budget, so non-termination is a verdict. Evidence lists distinct states and (state, op) transitions observed.'
LEVEL_NOTE = 'Trusted: the walker (raw fields only), the per-operation documented-error allow-list built from docstrings/raise statements, the admissibility rules listed in the module docstring.'
LEVEL = "exploration"
TECHNIQUE = "runtime monitoring: arborescence walker + traversal battery + leaf-multiset and bipartition-freshness oracles after every operation of explored/random histories"
RULE = ("bounded exploration of operation histories from every tree with <= 3 (quick) / <= 4 (thorough) leaves (plus trees with taxa on "
        "internal nodes / the root, duplicate leaf taxa, a root edge length) x rooting x "
        "{no, unit} lengths with all admissible (operation, target, flags, argument kind), successor states deduplicated by ordered signature, "
        "a sample continued on the live object (always after a detaching operation); "
        "plus random histories of 30 operations on random trees with a pool of detached nodes. "
        "non-trivial/distinct = distinct (state signature, operation descriptor) transition")
REACH = ["_node:Node.add_child", "_node:Node.insert_child", "_node:Node.remove_child", "_node:Node._set_parent_node",
         "_tree:Tree.reseed_at", "_tree:Tree.collapse_basal_bifurcation", "_tree:Tree.suppress_unifurcations",
         "_edge:Edge.invert", "_edge:Edge.collapse", "_tree:Tree.prune_taxa", "_tree:Tree.filter_leaf_nodes",
         "_tree:Tree.prune_leaves_without_taxa", "_tree:Tree.resolve_polytomies", "_tree:Tree.encode_bipartitions",
         "_tree:Tree.collapse_unweighted_edges", "_tree:Tree.to_outgroup_position", "_tree:Tree.reroot_at_midpoint",
         "_node:Node.collapse_clade", "_node:Node.collapse_neighborhood", "_node:Node.collapse_conflicting",
         "_tree:Tree.polytomize_root", "_tree:Tree.shuffle_taxa", "_tree:Tree.prune_subtree", "_tree:Tree.retain_taxa",
         "_node:Node.reversible_remove_child", "_node:Node.reinsert_nodes", "_node:Node.set_children",
         "_tree:Tree.delete_outdegree_one_nodes", "_tree:Tree.encode_splits", "_tree:Tree.update_splits",
         "_edge:Edge._set_tail_node", "_tree:Tree._set_is_unrooted", "_tree:Tree._set_seed_node",
         "_tree:Tree.preorder_edge_iter", "_tree:Tree.postorder_edge_iter", "_tree:Tree.levelorder_edge_iter",
         "_node:Node.inorder_iter", "_node:Node.apply"]
MIN_EVENTS = {"label-matching-several-taxa-judged": (300, 1500), "encode-basal-bifurcation-clause-checked": (10000, 100000), "op-applied": (20000, 400000), "walker-ok": (20000, 400000), "multiset-judged": (15000, 300000),
              "bipartitions-judged": (3000, 60000), "documented-error-seen": (50, 500), "history-completed": (100, 3000),
              "traversals-judged": (4000, 100000), "traversal-compared": (400000, 9000000),
              "live-continuation-step": (20000, 600000), "op-on-leftovers-of-the-history": (10000, 300000),
              "edge-maps-read-before-op": (80000, 2000000), "reinsert-judged": (1000, 35000),
              "multiset-judged:internal-taxon-node-became-leaf": (1000, 40000),
              "multiset-judged:taxon-leaf-became-internal": (4000, 130000),
              "history-with-internal-or-duplicate-taxa": (60, 2000)}
ASSUMPTIONS = ["walker reads only _seed_node/_child_nodes/_parent_node/_edge/_head_node",
               "documented-error allow-list per operation was built from docstrings and explicit raise statements",
               "the public iterators read only the raw child/parent/edge fields, so a traversal verdict is a function of the ordered shape "
               "(the battery is evaluated once per distinct shape of <= 20 nodes per process, on 30% of the larger new shapes and on a 1% sample of the other steps)"]
CASE_TIMEOUT = 300      # wall-clock watchdog only (a heavy depth-3 part needs ~10 CPU-s; the machine may be loaded 10x)


class Skip(Exception):
    pass


# ------------------------------------------------------------------------------------------------
class T(object):
    """live tree + aligned reference view at one quiescent point."""

    def __init__(self, tree):
        self.tree = tree
        self.spec, pairs = bridge.extract(tree, with_nodes=True)
        self.nodes = [nd for s, nd in pairs]          # pre-order
        self.snodes = [s for s, nd in pairs]
        self.idx = dict((id(nd), i) for i, nd in enumerate(self.nodes))

    def clade(self, i):
        return sorted(n[0] for n in ref.leaves(self.snodes[i]) if n[0] is not None)

    def leafbag(self):
        return sorted(ref.leaf_taxa(self.spec))

    def taxleaves(self):
        return dict((id(nd), s[0]) for s, nd in zip(self.snodes, self.nodes) if not s[3] and s[0] is not None)

    def internal_taxa(self):
        return sorted(s[0] for s in self.snodes if s[3] and s[0] is not None)


def all_taxa(spec):
    return [n[0] for n in ref.preorder(spec) if n[0] is not None]


def _flags(names, exhaustive, rng, cap=2):
    combos = [{}]
    for n in names:
        combos = [dict(c, **{n: v}) for c in combos for v in (False, True)]
    if exhaustive or len(combos) <= cap:
        return combos
    return rng.sample(combos, cap)


USC = ("update_bipartitions", "suppress_unifurcations", "collapse_unrooted_basal_bifurcation")
US = ("update_bipartitions", "suppress_unifurcations")
ARGFORMS = ("list", "set", "tuple", "generator", "namespace")
SETCHILD_MODES = ("reverse", "drop-first", "plus-new", "own-iterator", "tuple-reversed", "generator", "plus-own-child")


def enumerate_ops(t, rng, exhaustive, H=None):
    """all admissible operation descriptors on the current tree (sampled when not exhaustive)."""
    out = []
    n = len(t.nodes)
    internal = [i for i in range(n) if t.nodes[i]._child_nodes]
    leafidx = [i for i in range(1, n) if not t.nodes[i]._child_nodes]
    nonroot = list(range(1, n))
    labels = t.leafbag()
    inttax = t.internal_taxa()

    def pick(seq, k):
        seq = list(seq)
        return seq if (exhaustive or len(seq) <= k) else rng.sample(seq, k)

    def add(op, **kw):
        d = {"op": op}
        d.update(kw)
        out.append(d)
    for i in pick(internal, 3):
        for f in _flags(USC, exhaustive, rng):
            add("reseed_at", t=i, kw=f)
        for f in _flags(USC, exhaustive, rng, 1):
            add("reroot_at_node", t=i, kw=f)
    # leaf targets / terminal edges: the code has an explicit branch for a leaf as the new seed
    for i in (rng.sample(leafidx, 1) if leafidx else []):
        for f in _flags(USC, False, rng, 2 if exhaustive else 1):
            add(rng.choice(["reseed_at", "reroot_at_node"]), t=i, kw=f, key="%s(leaf)")
        for f in _flags(US, False, rng, 1):
            add("reroot_at_edge", t=i, kw=f, lens=rng.choice([None, [1, 2]]), key="%s(terminal)")
    for i in pick([i for i in nonroot if t.nodes[i]._child_nodes], 2):
        for f in _flags(US, exhaustive, rng, 1):
            add("reroot_at_edge", t=i, kw=f, lens=rng.choice([None, [1, 1]]) if not exhaustive else None)
            if exhaustive:
                add("reroot_at_edge", t=i, kw=f, lens=[1, 2])
    if midpoint_admissible(t):
        for f in _flags(USC, exhaustive, rng, 1):
            add("reroot_at_midpoint", kw=f)
    for i in pick(nonroot, 3):
        for f in _flags(US, exhaustive, rng, 1):
            add("to_outgroup_position", t=i, kw=f)
        for f in _flags(US, exhaustive, rng, 1):
            add("prune_subtree", t=i, kw=f)
    add("prune_subtree", t=0, kw={})      # documented TypeError
    # taxon-set based removals
    subsets = []
    uniq = sorted(set(labels) | set(inttax))
    if uniq:
        if exhaustive and len(uniq) <= 4:
            for m in range(1, 2 ** len(uniq)):
                subsets.append([uniq[k] for k in range(len(uniq)) if m >> k & 1])
        else:
            for _ in range(2):
                k = rng.randint(1, len(uniq))
                subsets.append(sorted(rng.sample(uniq, k)))
            subsets.append(uniq)
            if inttax:
                subsets.append(sorted(set(labels)))      # every leaf taxon, no internal one
    subsets.append([])
    for sub in subsets:
        for op in pick(("prune_taxa", "prune_taxa_with_labels", "retain_taxa", "retain_taxa_with_labels"), 2):
            for f in _flags(US, exhaustive and len(sub) == 1 and op in ("prune_taxa", "retain_taxa_with_labels"), rng, 1):
                form = rng.choice(ARGFORMS) if rng.random() < 0.3 else "list"
                if op.endswith("labels") and form == "namespace":
                    form = "tuple"
                add(op, labels=sub, kw=f, form=form)
        if inttax or rng.random() < 0.1:
            # the two filter switches of prune_taxa (only they decide whether an internal taxon-bearing node goes)
            fl = {"is_apply_filter_to_leaf_nodes": rng.random() < 0.6, "is_apply_filter_to_internal_nodes": rng.random() < 0.6}
            add(rng.choice(["prune_taxa", "prune_taxa_with_labels"]), labels=sub, form="list",
                kw=dict(rng.choice(_flags(US, True, rng)), **fl))
        for f in _flags(US, False, rng, 1):
            add("filter_leaf_nodes", keep=sub, kw=dict(f, recursive=rng.random() < 0.7))
    # a label the namespace does not hold (with_labels look-ups ignore it)
    add(rng.choice(["prune_taxa_with_labels", "retain_taxa_with_labels"]), labels=sorted(set(labels))[:1] + ["ZZ-absent"],
        kw=rng.choice(_flags(US, True, rng)), form="list")
    for f in _flags(US, exhaustive, rng, 1):
        add("prune_leaves_without_taxa", kw=dict(f, recursive=rng.random() < 0.7))
    if nonroot:
        for _ in range(1 if not exhaustive else 2):
            k = rng.randint(1, min(2, len(nonroot)))
            add("prune_nodes", ts=sorted(rng.sample(nonroot, k)), form=rng.choice(["list", "list", "tuple", "generator"]),
                kw={"prune_leaves_without_taxa": rng.random() < 0.5, "suppress_unifurcations": rng.random() < 0.5,
                    "update_bipartitions": rng.random() < 0.5})
    for u in (False, True):
        add("collapse_unweighted_edges", kw={"update_bipartitions": u})
        add("suppress_unifurcations", kw={"update_bipartitions": u})
    add("collapse_unweighted_edges", kw={"threshold": 1, "update_bipartitions": rng.random() < 0.5})
    add("delete_outdegree_one_nodes", kw={})
    # rng, update_bipartitions and limit vary independently
    combos = [(u, r, lim) for u in (False, True) for r in (False, True) for lim in (2, 3)]
    for u, r, lim in rng.sample(combos, 4 if exhaustive else 3):
        add("resolve_polytomies", kw={"update_bipartitions": u, "limit": lim}, rng=r)
    add("resolve_polytomies", kw={"limit": 4, "update_bipartitions": rng.random() < 0.5}, rng=rng.random() < 0.5)
    for v in (False, True):
        add("collapse_basal_bifurcation", kw={"set_as_unrooted_tree": v})
        add("polytomize_root", kw={"set_as_unrooted_tree": v})
        add("ladderize", kw={"ascending": v})
        add("reorder", kw={"ascending": v})
        add("randomly_reorient", kw={"update_bipartitions": v})
        add("shuffle_taxa", kw={"include_internal_nodes": v})
        add("set_is_unrooted", v=v)
    add("reorder", kw={"ascending": rng.random() < 0.5}, keyfn=rng.choice(["nchild", "length"]))
    add("deroot", kw={})
    add("randomly_rotate", kw={})
    for f in _flags(("suppress_unifurcations", "collapse_unrooted_basal_bifurcation"), exhaustive, rng, 2):
        add("encode_bipartitions", kw=f)
    add("update_bipartitions", kw={})
    add(rng.choice(["encode_splits", "update_splits"]),
        kw=rng.choice(_flags(("suppress_unifurcations", "collapse_unrooted_basal_bifurcation"), True, rng)))
    for v in (True, False, None):
        add("set_is_rooted", v=v)
    add("set_seed_node", arg="new-cherry")
    for i in (rng.sample(nonroot, 1) if nonroot else []):
        add("set_seed_node", arg="inner", t=i)      # documented splice (warns)
    # ---- Node level
    # new children are attached below internal nodes, taxon-less leaves and (now and then) taxon-bearing leaves
    # (such a leaf stops being a leaf: the multiset clause takes its taxon out)
    attachable = [i for i in range(n) if t.nodes[i]._child_nodes or t.nodes[i].taxon is None or rng.random() < 0.15]
    for i in pick(attachable, 3):
        nk = len(t.nodes[i]._child_nodes)
        own = ["own-child:%d" % rng.randrange(nk)] if nk else []
        add("add_child", t=i, arg=rng.choice(["new-leaf", "new-leaf", "new-cherry"] + own))
        add("new_child", t=i)
        add("insert_child", t=i, pos=rng.randint(0, nk), arg="new-leaf")
        add("insert_child", t=i, pos=rng.choice([-1, 0, nk, nk + 2]), arg=rng.choice(["new-cherry"] + own + own))
        add("insert_new_child", t=i, pos=rng.choice([0, 0, -1, nk + 2]))
        for opn in (("set_child_nodes", "set_children") if rng.random() < 0.5 else ("set_child_nodes",)):
            m = rng.choice(SETCHILD_MODES)
            if m == "own-iterator":
                add(opn, t=i, mode=m, key="%s(own-iterator)")
            else:
                add(opn, t=i, mode=m)
    for i in pick(range(n), 3):
        add("clear_child_nodes", t=i)
        add("collapse_clade", t=i)
        if labels:
            add("collapse_conflicting", t=i, split=rng.sample(sorted(set(labels)), min(len(set(labels)), 2)))
    for i in pick(internal, 3):
        # undocumented helper; only meaningful at internal nodes (at a leaf it asks Edge.collapse to collapse a terminal)
        add("collapse_neighborhood", t=i, dist=rng.choice([0, 1, 2]))
    for i in pick(nonroot, 3):
        p = t.idx[id(t.nodes[i]._parent_node)]
        for s in (False, True):
            add("remove_child", t=p, c=i, kw={"suppress_unifurcations": s})
        add("reversible_remove_child", t=p, c=i, kw={"suppress_unifurcations": rng.random() < 0.5})
        add("set_parent_node", t=i, to=None)
        below = set(id(x) for x in t.nodes[i].preorder_iter())
        cands = [j for j in attachable if id(t.nodes[j]) not in below and t.nodes[j] is not t.nodes[i]._parent_node]
        if cands:
            add("set_parent_node", t=i, to=rng.choice(cands))
            add("set_edge_tail_node", t=i, to=rng.choice(cands))
        if t.nodes[i]._child_nodes:
            for adj in (False, True):
                add("edge_collapse", t=i, kw={"adjust_collapsed_head_children_edge_lengths": adj})
        else:
            add("edge_collapse", t=i, kw={})     # documented ValueError (terminal)
        if p != 0:
            # tail is not the seed: the inversion is complete without touching the tree's seed pointer
            add("edge_invert", t=i)
    # NOT generated: assigning a new Edge object to Node.edge / Edge.head_node.  It is a raw attribute assignment, not one of
    # the structure-changing operations the statement names; the library detaches the node from its parent's child list
    # while node.parent_node keeps naming the parent (observed by the strengthened check, recorded in DESIGN 8.6 as out of scope).
    if n >= 2:
        add("remove_child", t=0, c=-1, kw={})    # documented ValueError (not a child)
        add("reversible_remove_child", t=0, c=-1, kw={})
        # a node that IS in the tree, but under another parent (grandchild, sibling subtree, ancestor, the node itself):
        # the documented ValueError must leave the tree as it was
        for i in pick(range(n), 3):
            kids = set(id(c) for c in t.nodes[i]._child_nodes)
            others = [j for j in range(n) if id(t.nodes[j]) not in kids]
            if others:
                for s_ in (False, True):
                    add(rng.choice(["remove_child", "remove_child", "reversible_remove_child"]), t=i, c=rng.choice(others),
                        nonchild=True, kw={"suppress_unifurcations": s_})
    if H is not None:
        out.extend(history_ops(t, rng, H, attachable))
    return out


ALIAS_OPS = ("set_children", "reversible_remove_child", "set_edge_tail_node", "edge_invert", "delete_outdegree_one_nodes",
             "encode_splits", "update_splits", "set_is_unrooted", "reinsert_nodes")
OLD_MODES = ("reverse", "drop-first", "plus-new")


def widens_only(d):
    """descriptor kinds whose successor states the exploration does not expand further (they are judged like every other
    operation and continued on the live object; their successors are, up to child order and fresh labels, states that the
    plain kinds reach as well - expanding them too would only multiply the frontier)"""
    return bool(d["op"] in ALIAS_OPS or d.get("key") or d.get("keyfn") or d.get("arg", "new-leaf") not in ("new-leaf",)
                or d.get("mode", "reverse") not in OLD_MODES or "is_apply_filter_to_leaf_nodes" in d.get("kw", {})
                or "ZZ-absent" in d.get("labels", ()) or d.get("form", "list") != "list"
                or (d["op"] == "set_seed_node" and d.get("arg") == "inner"))


def history_ops(t, rng, H, attachable=None):
    """descriptors that hand the tree something an earlier operation of this history left behind"""
    out = []
    n = len(t.nodes)
    if attachable is None:
        attachable = [i for i in range(n) if t.nodes[i]._child_nodes or t.nodes[i].taxon is None]
    if H.blob is not None:
        if H.blob["sig"] == ref.ordered(t.spec):
            out.append({"op": "reinsert_nodes", "uses": True})
        else:
            H.blob = None       # the tree has been modified since: reinsert_nodes is no longer admissible
    us = H.usable(set(t.idx))
    for k in range(len(us) - 1, max(-1, len(us) - 4), -1):
        p = us[k]
        tg = []
        stale = p._parent_node
        if stale is not None and id(stale) in t.idx:
            tg.append(t.idx[id(stale)])          # back where it came from (its _parent_node may still say so)
        if attachable:
            tg.append(rng.choice(attachable))
        for i in tg:
            nk = len(t.nodes[i]._child_nodes)
            kind = rng.choice(["add_child", "insert_child", "insert_child", "set_child_nodes", "set_parent_node", "set_edge_tail_node"])
            d = {"op": kind, "t": i, "arg": "pool:%d" % k, "uses": True}
            if kind == "insert_child":
                d["pos"] = rng.choice([0, 0, nk, -1])
            elif kind == "set_child_nodes":
                d["mode"] = "plus-arg"
            out.append(d)
        if rng.random() < 0.2:
            out.append({"op": "set_seed_node", "arg": "pool:%d" % k, "uses": True})
    return out


def midpoint_admissible(t):
    lv = [s for s in t.snodes if not s[3]]
    if len(lv) < 2 or any(s[0] is None for s in lv):
        return False
    if len(set(s[0] for s in lv)) != len(lv):
        return False
    return all(s[2] is not None for s in t.snodes[1:])


_counter = [0]


def new_leaf(tree, length=None):
    import dendropy
    _counter[0] += 1
    lbl = "N%d" % _counter[0]
    tx = tree.taxon_namespace.require_taxon(label=lbl)
    return dendropy.Node(taxon=tx, edge_length=length), lbl


def make_arg(t, H, tree, nd, arg):
    """the node handed to an attaching operation: (node, leaf taxa it brings into the tree, pool entry or None)"""
    import dendropy
    if arg == "new-leaf":
        ch, lbl = new_leaf(tree, 1)
        return ch, [lbl], None
    if arg == "new-cherry":
        top = dendropy.Node(edge_length=1)
        a, la = new_leaf(tree, 1)
        b, lb = new_leaf(tree, 2)
        top.add_child(a)
        top.add_child(b)
        return top, [la, lb], None
    if arg.startswith("pool:"):
        if H is None:
            raise Skip()
        us = H.usable(set(t.idx))
        k = int(arg[5:])
        if k >= len(us):
            raise Skip()
        p = us[k]
        return p, sorted(ref.leaf_taxa(bridge.extract(p))), p
    if arg.startswith("own-child:"):
        kids = nd._child_nodes
        if not kids:
            raise Skip()
        return kids[int(arg[10:]) % len(kids)], [], None
    raise core.HarnessBug("unknown argument kind %s" % arg)


def taxa_arg(tree, labels, form):
    import dendropy
    sel = set(labels)
    taxa = [tx for tx in tree.taxon_namespace if tx.label in sel]
    return shaped(taxa, form, dendropy)


def shaped(items, form, dendropy=None):
    if form == "set":
        return set(items)
    if form == "tuple":
        return tuple(items)
    if form == "generator":
        return (x for x in list(items))
    if form == "namespace":
        return dendropy.TaxonNamespace(items)
    return list(items)


def apply_op(t, d, rng, H=None):
    """perform the operation described by d on t.tree.  returns an expectation dict:
    removed / added (label lists), allowed (documented exception classes), judge_multiset,
    l2i (ids of taxon leaves the operation is asked to put something below), post (bookkeeping after a return)."""
    import dendropy
    from dendropy.utility import error
    tree = t.tree
    op = d["op"]
    kw = dict(d.get("kw", {}))
    exp = {"removed": [], "added": [], "allowed": (), "judge_multiset": True, "l2i": set(), "post": None}
    nd = t.nodes[d["t"]] if "t" in d and d["t"] is not None and d["t"] < len(t.nodes) else None
    if "t" in d and d["t"] is not None and nd is None:
        raise Skip()
    SND = error.SeedNodeDeletionException
    if op in ("reseed_at", "reroot_at_node", "to_outgroup_position"):
        fn = getattr(tree, op)
        if op != "to_outgroup_position":
            exp["l2i"].add(id(nd))
            exp["may_vanish"] = (id(nd),)
        return exp, lambda: fn(nd, **kw)
    if op == "reroot_at_edge":
        l1, l2 = d.get("lens") or (None, None)
        return exp, lambda: tree.reroot_at_edge(nd.edge, length1=l1, length2=l2, **kw)
    if op == "reroot_at_midpoint":
        return exp, lambda: tree.reroot_at_midpoint(**kw)
    if op == "prune_subtree":
        if nd._parent_node is None:
            exp["allowed"] = (TypeError,)
        else:
            exp["removed"] = t.clade(d["t"])
            if H is not None:
                exp["post"] = lambda r: H.detach(nd)
        return exp, lambda: tree.prune_subtree(nd, **kw)
    if op in ("prune_taxa", "prune_taxa_with_labels", "retain_taxa", "retain_taxa_with_labels"):
        bag = t.leafbag()
        given = set(d["labels"])
        if op.startswith("prune"):
            sel = given
        else:
            sel = set(x for x in all_taxa(t.spec) if x not in given)
        on_leaves = kw.get("is_apply_filter_to_leaf_nodes", True)
        on_internal = kw.get("is_apply_filter_to_internal_nodes", False)
        rem = []
        stack = [(t.spec, False)]
        while stack:
            s, gone = stack.pop()
            if s[3]:
                gone = gone or (on_internal and s[0] is not None and s[0] in sel)
                stack.extend((c, gone) for c in s[3])
            elif s[0] is not None and (gone or (on_leaves and s[0] in sel)):
                rem.append(s[0])
        exp["removed"] = rem
        # the seed itself may be what is asked to go: documented refusal (permitted, not demanded)
        if len(rem) == len(bag) or (t.spec[0] is not None and t.spec[0] in sel):
            exp["allowed"] = (SND,)
        form = d.get("form", "list")
        if op.endswith("labels"):
            arg_fn = lambda: shaped(d["labels"], form)
        else:
            arg_fn = lambda: taxa_arg(tree, d["labels"], form)
        fn = getattr(tree, op)
        return exp, lambda: fn(arg_fn(), **kw)
    if op == "filter_leaf_nodes":
        keep = set(d["keep"])
        bag = t.leafbag()
        exp["removed"] = [x for x in bag if x not in keep]
        # the seed can only be hit when no leaf is kept (a pass then may reach the seed itself)
        if not (keep & set(bag)):
            exp["allowed"] = (SND,)
        return exp, lambda: tree.filter_leaf_nodes(lambda x: x.taxon is not None and x.taxon.label in keep, **kw)
    if op == "prune_leaves_without_taxa":
        exp["allowed"] = (SND,) if not t.leafbag() else ()
        return exp, lambda: tree.prune_leaves_without_taxa(**kw)
    if op == "prune_nodes":
        nds = [t.nodes[i] for i in d["ts"] if i < len(t.nodes)]
        # drop nodes nested in other selected nodes (removing a node twice is not admissible)
        sel = []
        for x in nds:
            anc = x._parent_node
            nested = False
            while anc is not None:
                if any(anc is y for y in nds):
                    nested = True
                anc = anc._parent_node
            if not nested and x._parent_node is not None:
                sel.append(x)
        if not sel:
            raise Skip()
        rem = []
        for x in sel:
            rem += t.clade(t.idx[id(x)])
        exp["removed"] = rem
        if kw.get("prune_leaves_without_taxa") and len(rem) == len(t.leafbag()):
            exp["allowed"] = (SND,)
        if H is not None:
            exp["post"] = lambda r: H.detach(*sel)
        form = d.get("form", "list")
        return exp, lambda: tree.prune_nodes(shaped(sel, form), **kw)
    if op in ("collapse_unweighted_edges", "suppress_unifurcations", "collapse_basal_bifurcation", "polytomize_root",
              "ladderize", "deroot", "encode_bipartitions", "update_bipartitions", "delete_outdegree_one_nodes",
              "encode_splits", "update_splits"):
        fn = getattr(tree, op)
        return exp, lambda: fn(**kw)
    if op == "reorder":
        if d.get("keyfn") == "nchild":
            kw["key"] = lambda x: len(x._child_nodes)
        elif d.get("keyfn") == "length":
            kw["key"] = lambda x: (x._edge.length is None, x._edge.length or 0)
        return exp, lambda: tree.reorder(**kw)
    if op == "resolve_polytomies":
        r = random.Random(rng.random()) if d.get("rng") else None
        return exp, lambda: tree.resolve_polytomies(rng=r, **kw)
    if op in ("randomly_reorient", "randomly_rotate"):
        r = random.Random(rng.random())
        fn = getattr(tree, op)
        return exp, lambda: fn(rng=r, **kw)
    if op == "shuffle_taxa":
        r = random.Random(rng.random())
        # distinct taxa on the shuffled nodes is the method's own stated assumption (it asserts it)
        bag = [x.taxon for x in t.nodes if x.taxon is not None and (kw.get("include_internal_nodes") or not x._child_nodes)]
        if len(set(map(id, bag))) != len(bag):
            raise Skip()
        exp["shuffle"] = bool(kw.get("include_internal_nodes"))
        return exp, lambda: tree.shuffle_taxa(rng=r, **kw)
    if op == "set_is_rooted":
        def f():
            tree.is_rooted = d["v"]
        return exp, f
    if op == "set_is_unrooted":
        def f():
            tree.is_unrooted = d["v"]
        return exp, f
    if op == "set_seed_node":
        arg = d.get("arg", "new-cherry")
        bag = t.leafbag()
        if arg == "inner":
            # documented: the node and its descendants are spliced out of their context into this tree
            newroot = nd
            keep = t.clade(d["t"])
            rest = bag_minus_plus(bag, keep, [])
            exp["removed"] = rest if rest is not None else []
            old = t.nodes[0]
            if H is not None:
                exp["post"] = lambda r: H.detach(old)
        else:
            newroot, added, pooled = make_arg(t, H, tree, None, arg)
            exp["removed"] = bag
            exp["added"] = added
            if pooled is not None:
                exp["post"] = lambda r: H.take(pooled)

        def f():
            tree.seed_node = newroot
        return exp, f
    if op == "reinsert_nodes":
        if H is None or H.blob is None:
            raise Skip()
        blob = H.blob
        exp["added"] = list(blob["removed"])
        exp["restores"] = blob["sig_before"]
        for rec in blob["record"]:
            exp["l2i"].update(id(x) for x in rec[:2])      # (node removed, its parent): both get their children back

        def post(r):
            H.blob = None
        exp["post"] = post
        return exp, lambda: blob["node"].reinsert_nodes(blob["record"])
    # ---------------- node level
    if nd is None:
        raise Skip()
    parent_is_taxleaf = (not nd._child_nodes) and nd.taxon is not None
    if op in ("add_child", "new_child", "insert_child", "insert_new_child"):
        if parent_is_taxleaf:
            exp["l2i"].add(id(nd))
        if op in ("add_child", "insert_child"):
            ch, added, pooled = make_arg(t, H, tree, nd, d.get("arg", "new-leaf"))
            exp["added"] = added
            if pooled is not None:
                exp["post"] = lambda r: H.take(pooled)
            if op == "add_child":
                return exp, lambda: nd.add_child(ch)
            return exp, lambda: nd.insert_child(d["pos"], ch)
        _counter[0] += 1
        lbl = "N%d" % _counter[0]
        tx = tree.taxon_namespace.require_taxon(label=lbl)
        exp["added"] = [lbl]
        if op == "new_child":
            return exp, lambda: nd.new_child(taxon=tx, edge_length=2)
        return exp, lambda: nd.insert_new_child(d["pos"], taxon=tx, edge_length=2)
    if op == "clear_child_nodes":
        kids = list(nd._child_nodes)
        if kids:
            exp["removed"] = t.clade(d["t"])
            if H is not None:
                exp["post"] = lambda r: H.detach(*kids)
        return exp, lambda: nd.clear_child_nodes()
    if op == "collapse_clade":
        return exp, lambda: nd.collapse_clade()
    if op == "collapse_neighborhood":
        return exp, lambda: nd.collapse_neighborhood(d["dist"])
    if op == "collapse_conflicting":
        # needs a current encoding (it reads edge.bipartition of the subtree): made current by the driver
        ns = tree.taxon_namespace
        m = 0
        for tx in ns:
            if tx.label in d["split"]:
                m |= ns.taxon_bitmask(tx)
        full = 0
        for s in t.snodes:
            if not s[3] and s[0] is not None:
                full |= ns.taxon_bitmask(ns.get_taxon(s[0]))
        bip = dendropy.Bipartition(leafset_bitmask=m, tree_leafset_bitmask=full, is_rooted=bool(tree.is_rooted))
        exp["needs_encoding"] = True
        return exp, lambda: nd.collapse_conflicting(bip)
    if op in ("set_child_nodes", "set_children"):
        kids = list(nd._child_nodes)
        mode = d["mode"]
        fn = getattr(nd, op)
        if mode == "reverse":
            return exp, lambda: fn(kids[::-1])
        if mode == "tuple-reversed":
            return exp, lambda: fn(tuple(kids[::-1]))
        if mode == "generator":
            return exp, lambda: fn(k for k in kids[::-1])
        if mode == "own-iterator":
            # the documented parameter is any iterable of nodes; the node's own public child iterator is one
            return exp, lambda: fn(nd.child_node_iter())
        if mode == "plus-own-child":
            if not kids:
                raise Skip()
            return exp, lambda: fn(kids + [kids[0]])       # documented book-keeping: no multiple adds
        if mode == "drop-first":
            if not kids:
                raise Skip()
            exp["removed"] = t.clade(t.idx[id(kids[0])])
            if H is not None:
                exp["post"] = lambda r: H.detach(kids[0])
            return exp, lambda: fn(kids[1:])
        if mode in ("plus-new", "plus-arg"):
            ch, added, pooled = make_arg(t, H, tree, nd, d.get("arg", "new-leaf"))
            exp["added"] = added
            if pooled is not None:
                exp["post"] = lambda r: H.take(pooled)
            if parent_is_taxleaf:
                exp["l2i"].add(id(nd))
            return exp, lambda: fn(kids + [ch])
        raise core.HarnessBug("unknown mode %s" % mode)
    if op in ("remove_child", "reversible_remove_child"):
        fn = getattr(nd, op)
        if d["c"] == -1:
            other, _ = new_leaf(tree)
            exp["allowed"] = (ValueError,)
            return exp, lambda: fn(other)
        if d["c"] >= len(t.nodes):
            raise Skip()
        ch = t.nodes[d["c"]]
        if d.get("nonchild"):
            exp["allowed"] = (ValueError,)
            return exp, lambda: fn(ch, **kw)
        exp["removed"] = t.clade(d["c"])
        if H is not None:
            if op == "remove_child":
                exp["post"] = lambda r: H.detach(ch)
            else:
                removed = list(exp["removed"])
                sig_before = ref.ordered(t.spec, lengths=False)

                def post(r):
                    H.blob = {"record": r, "node": nd, "removed": removed, "sig_before": sig_before,
                              "sig": ref.ordered(bridge.extract(tree)) if tree._seed_node is not None else None}
                exp["post"] = post
        return exp, lambda: fn(ch, **kw)
    if op in ("set_parent_node", "set_edge_tail_node"):
        if op == "set_parent_node":
            def assign(x, v):
                x.parent_node = v
        else:
            def assign(x, v):
                x.edge.tail_node = v
        arg = d.get("arg")
        if arg is not None:
            # a detached node is given a parent
            ch, added, pooled = make_arg(t, H, tree, nd, arg)
            exp["added"] = added
            if parent_is_taxleaf:
                exp["l2i"].add(id(nd))
            if pooled is not None:
                exp["post"] = lambda r: H.take(pooled)
            return exp, lambda: assign(ch, nd)
        if d["to"] is None:
            exp["removed"] = t.clade(d["t"])
            if H is not None:
                exp["post"] = lambda r: H.detach(nd)
            return exp, lambda: assign(nd, None)
        if d["to"] >= len(t.nodes):
            raise Skip()
        tgt = t.nodes[d["to"]]
        if (not tgt._child_nodes) and tgt.taxon is not None:
            exp["l2i"].add(id(tgt))
        return exp, lambda: assign(nd, tgt)
    if op == "edge_collapse":
        if not nd._child_nodes:
            exp["allowed"] = (ValueError,)
        return exp, lambda: nd.edge.collapse(**kw)
    if op == "edge_invert":
        if nd._parent_node is None or nd._parent_node._parent_node is None:
            raise Skip()
        exp["l2i"].add(id(nd))
        return exp, lambda: nd.edge.invert()
    raise core.HarnessBug("unknown op %s" % op)


def bag_minus_plus(bag, removed, added):
    out = list(bag)
    for x in removed:
        if x in out:
            out.remove(x)
        else:
            return None
    out += added
    return sorted(out)


WARNING_OPS = ("set_seed_node", "set_children", "delete_outdegree_one_nodes", "encode_splits", "update_splits")
_shapes_seen = set()
_sampler = random.Random(20261003)      # own stream: the case's stream must not depend on what this process has seen


def judge_traversals(ctx, tree, opkey, det, rng):
    """clause 'every traversal visits exactly the reachable nodes' (the walker has just found the raw structure sound)"""
    order = L.reach(tree)
    key = L.shape_key(order)
    if key in _shapes_seen and _sampler.random() >= 0.01:
        return True
    if len(order) > 20 and _sampler.random() >= 0.3:
        return True         # big shapes hardly ever recur: a sample of them
    _shapes_seen.add(key)
    probs, n = L.traversals(tree)
    ctx.ev("traversals-judged")
    ctx.ev("traversal-compared", n)
    if probs:
        for p in probs[:4]:
            ctx.violation("traversal|%s" % p, "; ".join(probs[:12]), det)
        return False
    return True


def step(ctx, tree, d, rng, history, H=None):
    """apply one operation with all monitors.  returns False if the tree must not be used further."""
    t = T(tree)
    try:
        exp, thunk = apply_op(t, d, rng, H)
    except Skip:
        ctx.note("descriptor-not-admissible-on-this-state:%s" % d["op"])
        return True
    op = d["op"]
    opkey = (d["key"] % op) if d.get("key") else op
    wants_bip = bool(d.get("kw", {}).get("update_bipartitions")) or op in ("encode_bipartitions", "update_bipartitions",
                                                                           "encode_splits", "update_splits")
    if wants_bip or exp.get("needs_encoding"):
        # make the encoding current without restructuring the tree ...
        try:
            tree.encode_bipartitions(suppress_unifurcations=False, collapse_unrooted_basal_bifurcation=False)
        except Exception as e:
            ctx.unexpected("encode_bipartitions(pre)", e, {"history": history})
            return False
        # ... and look at the edge maps the way a caller does, so that the tree carries them into the operation
        if wants_bip and t.leafbag():
            try:
                tree.split_bitmask_edge_map
                tree.bipartition_edge_map
                ctx.ev("edge-maps-read-before-op")
            except Exception as e:
                ctx.unexpected("edge-maps(pre)", e, {"history": history[-6:], "state": ref.to_newick(t.spec)})
                return False
    before_bag = t.leafbag()
    LB = t.taxleaves()
    alltax_before = dict((id(nd), s[0]) for s, nd in zip(t.snodes, t.nodes)) if "shuffle" in exp else None
    det = {"state": ref.to_newick(t.spec), "rooted": tree._is_rooted, "op": d, "history": history[-6:]}
    ctx.ev("op-applied")
    ctx.ev("op:%s" % opkey)
    if d.get("uses"):
        ctx.ev("op-on-leftovers-of-the-history")
    raised = None
    result = None
    limit = 50000 + 5000 * len(t.nodes)
    try:
        if op in WARNING_OPS:
            with warnings.catch_warnings():
                warnings.simplefilter("ignore")
                with budget(limit) as b:
                    result = thunk()
        else:
            with budget(limit) as b:
                result = thunk()
    except core.CaseTimeout:
        raise
    except StepBudgetExceeded as e:
        ctx.violation("%s|does-not-terminate|%s" % (opkey, e.where.rsplit(":", 1)[0]),
                      "operation exceeded the logical step budget (%d backward jumps for %d nodes) at %s" % (limit, len(t.nodes), e.where), det)
        return False
    except Exception as e:
        raised = e
        if exp["allowed"] and isinstance(e, exp["allowed"]):
            ctx.ev("documented-error-seen")
        else:
            ctx.unexpected(opkey, e, det)
    # ---- well-formedness (returned or raised)
    probs = arbor.check(tree)
    if probs:
        ctx.violation("%s|malformed-tree%s|%s" % (opkey, "-after-raise" if raised else "", probs[0]), "; ".join(probs), det)
        return False
    ctx.ev("walker-ok")
    if _sampler.random() < 0.2 and arbor.second_opinion(tree) is not None:     # (never a verdict: a sample is enough)
        ctx.note("library-self-check-disagrees-with-walker")
    # ---- traversals (returned or raised)
    if not judge_traversals(ctx, tree, opkey, det, rng):
        return False
    if raised is not None:
        # after a documented refusal the (well-formed) tree is used further; after an undocumented exception it is
        # not, so that one root cause does not cascade into other keys
        return bool(exp["allowed"] and isinstance(raised, exp["allowed"]))
    if exp["post"] is not None:
        exp["post"](result)
    t2 = T(tree)
    det["after"] = ref.to_newick(t2.spec)
    # ---- leaf multiset
    if "shuffle" in exp:
        ctx.ev("multiset-judged")
        after = dict((id(nd), s[0]) for s, nd in zip(t2.snodes, t2.nodes))
        if exp["shuffle"]:
            # asked to shuffle over all nodes: taxa are neither lost nor invented, and stay on the nodes that had one
            same = (sorted(x for x in after.values() if x is not None) == sorted(x for x in alltax_before.values() if x is not None)
                    and set(k for k, v in after.items() if v is not None) == set(k for k, v in alltax_before.items() if v is not None))
            if not same:
                ctx.violation("shuffle_taxa|leaf-multiset|all-nodes", "taxa over all nodes %s, before %s" % (
                    sorted(map(str, after.values())), sorted(map(str, alltax_before.values()))), det)
        elif t2.leafbag() != before_bag or t2.internal_taxa() != t.internal_taxa():
            ctx.violation("shuffle_taxa|leaf-multiset", "leaf taxa %s, expected %s" % (t2.leafbag(), before_bag), det)
    elif exp["judge_multiset"]:
        LA = t2.taxleaves()
        l2i = [i for i in LB if i in t2.idx and t2.nodes[t2.idx[i]]._child_nodes]
        i2l = [i for i in LA if i in t.idx and t.snodes[t.idx[i]][3]]
        # (a leaf that was made the seed may afterwards be suppressed as a unifurcation: it left the leaf multiset either way)
        gone = [i for i in exp.get("may_vanish", ()) if i in LB and i not in t2.idx]
        want = bag_minus_plus(before_bag, list(exp["removed"]) + [LB[i] for i in l2i + gone], list(exp["added"]) + [LA[i] for i in i2l])
        got = t2.leafbag()
        ctx.ev("multiset-judged")
        if i2l:
            ctx.ev("multiset-judged:internal-taxon-node-became-leaf")
        if l2i:
            ctx.ev("multiset-judged:taxon-leaf-became-internal")
        if want is None or got != want:
            ctx.violation("%s|leaf-multiset" % opkey, "leaf taxa %s, expected %s" % (got, want), det)
        elif any(i not in exp["l2i"] for i in l2i):
            ctx.violation("%s|leaf-multiset|taxon-leaf-became-internal" % opkey,
                          "a taxon-bearing leaf the operation was not asked to put anything below is internal now (its taxon left the leaf multiset)", det)
    if "restores" in exp:
        ctx.ev("reinsert-judged")
        if ref.ordered(t2.spec, lengths=False) != exp["restores"]:
            # documented ('restore the tree to the same topology'), but not a clause of the statement
            ctx.note("reinsert_nodes-did-not-restore-the-ordered-topology")
    # ---- bipartitions
    if wants_bip and tree._seed_node is not None and not t2.leafbag():
        ctx.note("bipartitions-of-taxon-less-tree-not-judged")
    elif wants_bip and tree._seed_node is not None:
        ctx.ev("bipartitions-judged")
        if tree.bipartition_encoding is None:
            # a fresh encoding always produces the list
            ctx.violation("%s|stale-bipartitions|encoding-list-missing" % opkey,
                          "the operation was asked to update the bipartitions of a tree whose encoding was current; bipartition_encoding is None afterwards", det)
        else:
            C01.check_encoding(ctx, tree, tree.taxon_namespace, bool(tree._is_rooted), "%s|stale-bipartitions" % opkey, None, d.get("kw"),
                               as_user=True)
    return True


def start_trees(nmax):
    out = []
    for n in range(1, nmax + 1):
        for shape in gen.all_shapes(n):
            out.append(gen.shape_to_spec(shape))
    # a unary root and a unary inner node, which the shape enumeration never contains
    out.append(ref.S(None, [ref.S(None, [ref.S("T0"), ref.S("T1")])]))
    out.append(ref.S(None, [ref.S("T0"), ref.S(None, [ref.S("T1")])]))
    return out


def extra_starts():
    """start trees of classes the shape enumeration does not contain: taxa on internal nodes and on the root,
    the same taxon on two leaves, a length on the root edge"""
    S = ref.S
    return [
        S(None, [S("I0", [S("T0"), S("T1")]), S("T2")]),
        S("R0", [S("I0", [S("T0"), S("T1")]), S("T2")]),
        S(None, [S("I0", [S("T0")]), S("T1")]),
        S("R0", [S("I0", [S("T0"), S(None)]), S("I1", [S("T1")])]),
        S(None, [S("T0"), S("T0"), S("T1")]),
        S(None, [S(None, [S("T0"), S("T1")]), S("T0")]),
        S(None, [S(None, [S("T0", length=1), S("T1", length=2)], length=1), S("T2", length=3)], length=5),
    ]


def the_start(case):
    if case.get("extra"):
        return extra_starts()[case["start"]]
    return start_trees(case["nmax"])[case["start"]]


def make_tree(spec, rooted, unit, keep_lengths=False):
    import dendropy
    spec = ref.copy(spec)
    if unit and not keep_lengths:
        for n in ref.preorder(spec):
            n[2] = None if n is spec else 1
    ns = dendropy.TaxonNamespace(sorted(set(all_taxa(spec))))
    return bridge.build_tree(spec, ns, rooted), spec


def cases(tier, seed):
    nmax = 3 if tier == "quick" else 4
    starts = start_trees(nmax)
    parts = 8 if tier == "quick" else 16
    for i in range(len(starts)):
        for rooted in (True, False):
            for unit in (False, True):
                for p in range(parts):
                    yield {"kind": "explore", "start": i, "rooted": rooted, "unit": unit, "part": p, "parts": parts,
                           "nmax": nmax, "depth": 2 if tier == "quick" else 3, "seed": seed}
    xparts = 2 if tier == "quick" else 8
    for i in range(len(extra_starts())):
        for rooted in (True, False):
            for p in range(xparts):
                yield {"kind": "explore", "extra": True, "start": i, "rooted": rooted, "unit": False, "part": p, "parts": xparts,
                       "nmax": nmax, "depth": 1 if tier == "quick" else 2, "seed": seed}
    nh = 400 if tier == "quick" else 12000
    for i in range(nh):
        yield {"kind": "history", "i": i, "seed": seed}


def state_sig(tree):
    spec = bridge.extract(tree)
    return (ref.ordered(spec), tree._is_rooted), spec


def rebuild(spec, rooted):
    import dendropy
    labels = sorted(set(all_taxa(spec)))
    ns = dendropy.TaxonNamespace(labels)
    return bridge.build_tree(spec, ns, rooted)


TREE_LEVEL_REPEATABLE = ("encode_bipartitions", "update_bipartitions", "suppress_unifurcations", "collapse_unweighted_edges",
                         "resolve_polytomies", "deroot", "ladderize", "randomly_rotate", "randomly_reorient")


CACHE_SENSITIVE = [
    {"op": "encode_bipartitions", "kw": {}}, {"op": "update_bipartitions", "kw": {}},
    {"op": "encode_bipartitions", "kw": {"suppress_unifurcations": False, "collapse_unrooted_basal_bifurcation": False}},
    {"op": "suppress_unifurcations", "kw": {"update_bipartitions": True}},
    {"op": "collapse_unweighted_edges", "kw": {"update_bipartitions": True}},
    {"op": "resolve_polytomies", "kw": {"update_bipartitions": True, "limit": 2}, "rng": False},
    {"op": "randomly_reorient", "kw": {"update_bipartitions": True}},
    {"op": "prune_leaves_without_taxa", "kw": {"update_bipartitions": True, "suppress_unifurcations": True}},
    {"op": "deroot", "kw": {}}, {"op": "ladderize", "kw": {"ascending": False}}, {"op": "set_is_rooted", "v": True},
]


def follow(ctx, tree, rng, hist, H, prev, k=2):
    """continue on the LIVE object: what the previous operation left behind (detached nodes with their stale fields,
    the undo record, caches) is handed to / met by the next operations"""
    for _ in range(k):
        if tree._seed_node is None:
            return
        t = T(tree)
        if len(t.nodes) > 40:
            return
        cands = history_ops(t, rng, H)
        if cands and rng.random() < 0.85:
            d = rng.choice(cands)
        elif prev["op"] in TREE_LEVEL_REPEATABLE and rng.random() < 0.5:
            d = prev                                  # the same operation once more
        else:
            d = rng.choice(CACHE_SENSITIVE)           # (encode, restructure-with-update) pairs on one object
        hist = hist + [d]
        ctx.ev("live-continuation-step")
        if not step(ctx, tree, d, rng, hist, H):
            return
        prev = d


def explore(ctx, case, rng):
    spec0 = the_start(case)
    tree0, spec0 = make_tree(spec0, case["rooted"], case["unit"], keep_lengths=bool(case.get("extra")))
    frontier = [(spec0, case["rooted"], [])]
    seen = set()
    budget_states = 250 if ctx.tier == "quick" else 400
    for depth in range(case["depth"]):
        nxt = []
        for spec, rooted, hist in frontier:
            tree = rebuild(spec, rooted)
            osig = ref.ordered(spec)
            ops = enumerate_ops(T(tree), random.Random(rng.random()), True)
            if depth == 0:
                ops = [o for k, o in enumerate(ops) if k % case["parts"] == case["part"]]
            elif depth >= 2:
                ops = [o for k, o in enumerate(ops) if rng.random() < 0.05]
            for d in ops:
                tree = rebuild(spec, rooted)
                h2 = hist + [d]
                H = L.History()
                ok = step(ctx, tree, d, rng, h2, H)
                hsig = core.short_hash((osig, rooted, d))
                ctx.transition(hsig)
                ctx.nontrivial(hsig)
                if not ok:
                    continue
                try:
                    sig, s2 = state_sig(tree)
                except bridge.ExtractError:
                    continue
                ctx.state(sig)
                if sig not in seen and len(seen) < budget_states and ref.n_nodes(s2) <= 14 and not widens_only(d):
                    seen.add(sig)
                    nxt.append((s2, tree._is_rooted, h2))
                # (the successor state was recorded from the signature; the live object itself may now be used up)
                left = bool(H.pool) or H.blob is not None
                if tree._seed_node is not None and rng.random() < (0.4 if left else 0.03):
                    follow(ctx, tree, rng, h2, H, d, k=2 if (left and rng.random() < 0.3) else 1)
        frontier = nxt
    if case["part"] == 0 and case["start"] in (1, 3):
        ctx.sample({"kind": "explore", "start": ref.to_newick(spec0), "rooted": case["rooted"], "depth": case["depth"],
                    "states_expanded": len(seen)})


def decorate_taxa(spec, rng):
    """taxa on some internal nodes (and the root), now and then one leaf taxon on a second leaf"""
    k = 0
    for n in ref.preorder(spec):
        if n[3] and rng.random() < 0.35:
            n[0] = "I%d" % k
            k += 1
    lv = ref.leaves(spec)
    if len(lv) >= 3 and rng.random() < 0.3:
        a, b = rng.sample(lv, 2)
        b[0] = a[0]
    return spec


def label_multimatch(ctx, rng):
    """directed input class the label-keyed model of this module cannot host: ONE label that matches SEVERAL leaf taxa
    (two Taxon objects with the same label, or labels that differ only in case under the default case-insensitive
    namespace).  'The multiset of leaf taxa changes only by the taxa the operation was asked to remove': a *_with_labels
    operation is asked for every taxon its labels match.  Judged by Taxon identity.  (seeded change C03e)"""
    import dendropy
    n = rng.randint(4, 9)
    ns = dendropy.TaxonNamespace()
    base = ["T%d" % i for i in range(n)]
    kind = rng.choice(["case-variant", "same-label"])
    twin_of = rng.randrange(n)
    taxa = [ns.new_taxon(l) for l in base]
    twin = ns.new_taxon(base[twin_of].lower() if kind == "case-variant" else base[twin_of])
    taxa.append(twin)
    spec = gen.random_spec(rng, n + 1, p_poly=rng.choice([0, 0.4]))
    tree = dendropy.Tree(taxon_namespace=ns)
    tree.is_rooted = rng.choice([True, False])
    order = list(taxa)
    rng.shuffle(order)
    it = iter(order)

    def build(s, nd):
        for c in s[3]:
            ch = nd.new_child()
            if c[3]:
                build(c, ch)
            else:
                ch.taxon = next(it)
    build(spec, tree.seed_node)
    asked = rng.choice([base[twin_of], twin.label, base[twin_of].lower()]) if kind == "case-variant" else base[twin_of]
    extra = [l for l in rng.sample(base, rng.randint(0, 2)) if l != base[twin_of]]
    labels = [asked] + extra
    want = set(id(t) for t in taxa if t.label.lower() in set(l.lower() for l in labels))
    op = rng.choice(["prune_taxa_with_labels", "retain_taxa_with_labels"])
    kw = {"update_bipartitions": rng.random() < 0.5, "suppress_unifurcations": rng.random() < 0.5}
    det = {"op": op, "labels": labels, "kind": kind, "kw": kw}
    try:
        with budget(50000 + 5000 * (2 * n + 2)):
            getattr(tree, op)(labels, **kw)
    except StepBudgetExceeded as e:
        ctx.violation("%s|does-not-terminate|%s" % (op, e.where), str(e), det)
        return
    except Exception as e:
        ctx.unexpected(op + "(label-matching-several-taxa)", e, det)
        return
    ctx.ev("label-matching-several-taxa-judged")
    problems = arbor.check(tree)
    if problems:
        ctx.violation("%s|malformed-tree|label-matching-several-taxa" % op, str(problems[0]), det)
        return
    left = set(id(nd.taxon) for nd in tree.leaf_node_iter() if nd.taxon is not None)
    allids = set(id(t) for t in taxa)
    expect = (allids - want) if op.startswith("prune") else want
    if left != expect:
        ctx.violation("%s|leaf-multiset|label-matching-several-taxa|%s" % (op, kind),
                      "leaf taxa left %s, the labels asked for match %s" % (
                          sorted(t.label for t in taxa if id(t) in left), sorted(t.label for t in taxa if id(t) in want)), det)


def history(ctx, case, rng):
    if rng.random() < 0.5:
        for _ in range(4):
            label_multimatch(ctx, rng)
    n = rng.choice([2, 3, 5, 8, 12]) if ctx.tier == "quick" else rng.choice([2, 4, 8, 15, 25, 40])
    spec = gen.random_spec(rng, n, p_poly=rng.choice([0, 0.3, 0.6]), p_unary=rng.choice([0, 0.1]))
    gen.decorate_lengths(spec, rng, rng.choice(["none", "unit", "ints", "zeros", "float", "mixed_missing"]),
                         root_length=rng.random() < 0.25)
    if rng.random() < 0.4:
        decorate_taxa(spec, rng)
        ctx.ev("history-with-internal-or-duplicate-taxa")
    rooted = rng.choice([True, False, False, None])
    tree = rebuild(spec, rooted)
    H = L.History()
    hist = []
    prev = None
    for k in range(30):
        ops = enumerate_ops(T(tree), rng, False, H)
        uses = [o for o in ops if o.get("uses")]
        r = rng.random()
        if uses and r < 0.4:
            d = rng.choice(uses)                     # hand a leftover of the history back
        elif prev is not None and prev["op"] in TREE_LEVEL_REPEATABLE and r < 0.5:
            d = prev                                 # the same operation once more
        elif r < 0.75:
            name = rng.choice(sorted(set(o["op"] for o in ops)))     # every operation kind alike
            d = rng.choice([o for o in ops if o["op"] == name])
        else:
            d = rng.choice(ops)
        hist.append(d)
        prev = d
        if not step(ctx, tree, d, rng, hist, H):
            break
        if tree._seed_node is None:
            break
        sig, s2 = state_sig(tree)
        ctx.state(sig)
        ctx.nontrivial((sig, d))
        if ref.n_nodes(s2) > 400:
            break
    else:
        ctx.ev("history-completed")
    if case["i"] < 2:
        ctx.sample({"kind": "history", "start": ref.to_newick(spec), "rooted": rooted, "ops": [h["op"] for h in hist]})


def run_case(case, ctx):
    rng = random.Random("%s/%s" % (case["seed"], sorted((k, str(v)) for k, v in case.items())))
    _counter[0] = 0
    L.quiet_deprecations()
    from ..mon.hooks import Hooks
    import dendropy
    with Hooks(ctx) as hooks:
        hooks.install(dendropy.Tree, "encode_bipartitions", post=_encode_post(ctx), outermost_only=False)
        if case["kind"] == "explore":
            explore(ctx, case, rng)
        else:
            history(ctx, case, rng)


def _encode_post(ctx):
    """'... with exactly what a fresh encoding would produce': every encoding an operation performs with the restructuring
    flags at their defaults must leave nothing for a fresh encoding to restructure.  On an unrooted tree that means: no
    bifurcating seed node with an internal child (two basal edges would carry one split).  Judged on the library's own
    encode calls (operations that deliberately encode with collapse_unrooted_basal_bifurcation=False, such as
    to_outgroup_position, are not concerned).  Seeded change C03d."""
    NAMES = ("suppress_unifurcations", "collapse_unrooted_basal_bifurcation", "suppress_storage", "is_bipartitions_mutable")

    def post(snap, tree, args, kw, result, exc):
        if exc is not None or tree._seed_node is None:
            return
        flags = dict(zip(NAMES, args))
        flags.update(kw)
        if not (flags.get("suppress_unifurcations", True) and flags.get("collapse_unrooted_basal_bifurcation", True)) or tree._is_rooted:
            return
        ctx.ev("encode-basal-bifurcation-clause-checked")
        kids = tree._seed_node._child_nodes
        if len(kids) == 2 and any(k._child_nodes for k in kids):
            ctx.violation("encode_bipartitions|stale-bipartitions|unrooted-basal-bifurcation-left-in-place",
                          "an encoding with default restructuring flags left an unrooted tree with a bifurcating seed node that has an "
                          "internal child: two basal edges carry one split, a fresh encoding restructures the tree again", {"flags": flags})
    return post
