"""Helpers of C03 (library-independent except for the calls that ARE the observation).

traversals(tree)   clause "every traversal visits exactly the reachable nodes": every public node / edge iterator and
                   list accessor of Tree (and of the seed Node) is compared, as a multiset of object identities, with the
                   set the raw-field walk reaches (all / leaves / internal / internal-without-seed), without and with a
                   filter_fn (a filter decides what is YIELDED, it must never prune the walk).
History            what a history of operations leaves behind outside the tree: detached nodes (with whatever stale
                   fields the library left on them) that later operations may be handed, and the undo record of a
                   reversible removal.
"""
import warnings

_quiet = [False]


def quiet_deprecations():
    """the deprecated aliases are driven on purpose; their warnings are not the subject"""
    if not _quiet[0]:
        _quiet[0] = True
        try:
            from dendropy.utility import deprecate
            deprecate.configure_deprecation_warning_behavior("ignore")
        except Exception:       # pragma: no cover
            pass


def reach(tree_or_node):
    seed = getattr(tree_or_node, "_seed_node", None)
    if seed is None:
        seed = tree_or_node
    order = []
    stack = [seed]
    while stack:
        nd = stack.pop()
        order.append(nd)
        stack.extend(reversed(nd._child_nodes))
    return order


def shape_key(order):
    """child counts in pre-order: determines the unlabelled ordered shape"""
    return tuple(len(nd._child_nodes) for nd in order)


def _ids(it):
    return sorted(id(x) for x in it)


def traversals(tree):
    """returns (problems, n_compared).  problems: list of short strings naming the traversal that disagrees with the walk.
    Precondition: arbor.check(tree) found the raw structure well formed."""
    quiet_deprecations()
    order = reach(tree)
    seed = order[0]
    alln = order
    leaf = [n for n in order if not n._child_nodes]
    internal = [n for n in order if n._child_nodes]
    internal_ns = [n for n in internal if n is not seed]
    binary = all(len(n._child_nodes) == 2 for n in internal)
    E = lambda nodes: [n._edge for n in nodes]
    probs = []
    count = [0]

    def cmp(name, thunk, want):
        count[0] += 1
        try:
            got = _ids(thunk())
        except Exception as ex:
            probs.append("%s raised %s" % (name, type(ex).__name__))
            return
        if got != _ids(want):
            probs.append("%s visits a different set than is reachable" % name)

    with warnings.catch_warnings():
        warnings.simplefilter("ignore")
        # both filter parities on small shapes, one of them on larger ones (a rejected node with nodes below it occurs either way)
        for par in ((None, 0, 1) if len(order) <= 8 else (None, len(order) % 2)):
            if par is None:
                fn = None
                fe = None
                sub = lambda nodes: nodes
                tag = ""
            else:
                acc = set(id(n) for k, n in enumerate(order) if k % 2 == par)
                acce = set(id(n._edge) for k, n in enumerate(order) if k % 2 == par)
                fn = lambda n, acc=acc: id(n) in acc
                fe = lambda e, acce=acce: id(e) in acce
                sub = lambda nodes, acc=acc: [n for n in nodes if id(n) in acc]
                tag = "(filter_fn)"
            # ---- Tree: node iterators
            cmp("Tree.preorder_node_iter" + tag, lambda: tree.preorder_node_iter(fn), sub(alln))
            cmp("Tree.postorder_node_iter" + tag, lambda: tree.postorder_node_iter(fn), sub(alln))
            cmp("Tree.levelorder_node_iter" + tag, lambda: tree.levelorder_node_iter(fn), sub(alln))
            cmp("Tree.level_order_node_iter" + tag, lambda: tree.level_order_node_iter(fn), sub(alln))
            cmp("Tree.leaf_node_iter" + tag, lambda: tree.leaf_node_iter(fn), sub(leaf))
            cmp("Tree.leaf_iter" + tag, lambda: tree.leaf_iter(fn), sub(leaf))
            cmp("Tree.nodes" + tag, lambda: tree.nodes(fn), sub(alln))
            for ex, want in ((False, internal), (True, internal_ns)):
                t2 = tag + ("(exclude_seed)" if ex else "")
                cmp("Tree.preorder_internal_node_iter" + t2,
                    lambda: tree.preorder_internal_node_iter(fn, exclude_seed_node=ex), sub(want))
                cmp("Tree.postorder_internal_node_iter" + t2,
                    lambda: tree.postorder_internal_node_iter(fn, exclude_seed_node=ex), sub(want))
                cmp("Node.preorder_internal_node_iter" + t2,
                    lambda: seed.preorder_internal_node_iter(fn, exclude_seed_node=ex), sub(want))
                cmp("Node.postorder_internal_node_iter" + t2,
                    lambda: seed.postorder_internal_node_iter(fn, exclude_seed_node=ex), sub(want))
                cmp("Tree.preorder_internal_edge_iter" + t2,
                    lambda: tree.preorder_internal_edge_iter(fe, exclude_seed_edge=ex), E(sub(want)))
                cmp("Tree.postorder_internal_edge_iter" + t2,
                    lambda: tree.postorder_internal_edge_iter(fe, exclude_seed_edge=ex), E(sub(want)))
                if par is None:
                    cmp("Tree.internal_nodes" + t2, lambda: tree.internal_nodes(exclude_seed_node=ex), want)
                    cmp("Tree.internal_edges" + t2, lambda: tree.internal_edges(exclude_seed_edge=ex), E(want))
            if binary:
                cmp("Tree.inorder_node_iter" + tag, lambda: tree.inorder_node_iter(fn), sub(alln))
                cmp("Node.inorder_iter" + tag, lambda: seed.inorder_iter(fn), sub(alln))
                cmp("Tree.inorder_edge_iter" + tag, lambda: tree.inorder_edge_iter(fe), E(sub(alln)))
            # ---- the seed Node's own iterators
            cmp("Node.preorder_iter" + tag, lambda: seed.preorder_iter(fn), sub(alln))
            cmp("Node.postorder_iter" + tag, lambda: seed.postorder_iter(fn), sub(alln))
            cmp("Node.levelorder_iter" + tag, lambda: seed.levelorder_iter(fn), sub(alln))
            cmp("Node.level_order_iter" + tag, lambda: seed.level_order_iter(fn), sub(alln))
            cmp("Node.leaf_iter" + tag, lambda: seed.leaf_iter(fn), sub(leaf))
            # ---- Tree: edge iterators
            cmp("Tree.preorder_edge_iter" + tag, lambda: tree.preorder_edge_iter(fe), E(sub(alln)))
            cmp("Tree.postorder_edge_iter" + tag, lambda: tree.postorder_edge_iter(fe), E(sub(alln)))
            cmp("Tree.levelorder_edge_iter" + tag, lambda: tree.levelorder_edge_iter(fe), E(sub(alln)))
            cmp("Tree.level_order_edge_iter" + tag, lambda: tree.level_order_edge_iter(fe), E(sub(alln)))
            cmp("Tree.leaf_edge_iter" + tag, lambda: tree.leaf_edge_iter(fe), E(sub(leaf)))
            cmp("Tree.edges" + tag, lambda: tree.edges(fe), E(sub(alln)))
        # ---- without a filter parameter
        cmp("Tree.__iter__", lambda: iter(tree), alln)
        cmp("Node.__iter__", lambda: iter(seed), alln)
        cmp("Tree.leaf_nodes", lambda: tree.leaf_nodes(), leaf)
        cmp("Node.leaf_nodes", lambda: seed.leaf_nodes(), leaf)
        cmp("Tree.leaf_edges", lambda: tree.leaf_edges(), E(leaf))
        for nm, obj in (("Tree.apply", tree), ("Node.apply", seed)):
            seen = {"b": [], "a": [], "l": []}
            try:
                obj.apply(before_fn=seen["b"].append, after_fn=seen["a"].append, leaf_fn=seen["l"].append)
            except Exception as ex:
                probs.append("%s raised %s" % (nm, type(ex).__name__))
                continue
            count[0] += 1
            if _ids(seen["b"]) != _ids(internal) or _ids(seen["a"]) != _ids(internal) or _ids(seen["l"]) != _ids(leaf):
                probs.append("%s visits a different set than is reachable" % nm)
        count[0] += 1
        try:
            if len(tree) != len(leaf):
                probs.append("Tree.__len__ is not the number of reachable leaves")
        except Exception as ex:
            probs.append("Tree.__len__ raised %s" % type(ex).__name__)
    return probs, count[0]


# ------------------------------------------------------------------------------------------------
class History(object):
    """state a history of operations carries OUTSIDE the tree"""

    def __init__(self):
        self.pool = []        # roots of detached subtrees (most recent last)
        self.blob = None      # (undo record of reversible_remove_child, node it was called on, signature before)

    def detach(self, *nodes):
        for nd in nodes:
            if nd is not None and not any(nd is x for x in self.pool):
                self.pool.append(nd)
        del self.pool[:-6]

    def usable(self, tree_ids):
        """pool entries that are admissible arguments now: a proper tree of their own, sharing no node with the tree
        (a later operation may have re-attached a pooled node or one of its descendants)"""
        out = []
        for nd in self.pool:
            seen = set()
            ok = True
            stack = [nd]
            while stack:
                x = stack.pop()
                if id(x) in seen or id(x) in tree_ids or len(seen) > 200:
                    ok = False
                    break
                seen.add(id(x))
                stack.extend(x._child_nodes)
            if ok:
                out.append(nd)
        self.pool = out
        return list(out)

    def take(self, nd):
        self.pool = [x for x in self.pool if x is not nd]
