"""Private helpers of C14 (DendroPy-free unless stated): node-level path oracle, deepest common
ancestor by clade containment, exactness classification of a length pattern, the judge that
decides whether a reconstructed tree reproduces a generating tree, small workload builders."""
import math

from .. import ref

TOL = 1e-9


def close(a, b, scale=0.0):
    """|a - b| <= 1e-9 * max(|a|, |b|, |scale|).  ``scale`` is the magnitude of the quantities the two values
    were computed from (sum of |edge lengths| for path sums): rounding errors are proportional to it, whatever
    the unit of the lengths is (no absolute floor: trees whose lengths are all tiny stay judgeable)."""
    if a == b:
        return True
    try:
        return abs(a - b) <= TOL * max(abs(a), abs(b), abs(scale))
    except TypeError:
        return False


def same(a, b, exact, scale=1.0):
    """exact equality on integer / dyadic workloads, 1e-9 relative otherwise."""
    if a is None or b is None or isinstance(a, bool) or isinstance(b, bool):
        return False
    if exact:
        return a == b
    return close(a, b, scale)


def is_exact_spec(spec):
    """every length is None or an integer multiple of one common power of two q with |length| / q < 2**40
    (ints, dyadic fractions, and either of them scaled by any power of two): all sums of up to 2**12 such
    terms, in any order and with any signs, are then exact in binary floating point."""
    qexp = None
    top = None
    for n in ref.preorder(spec):
        x = n[2]
        if x is None or x == 0:
            continue
        if isinstance(x, bool):
            return False
        try:
            x = float(x)
        except (TypeError, ValueError, OverflowError):
            return False
        if x != x or x in (float("inf"), float("-inf")):
            return False
        m, e = math.frexp(abs(x))                 # |x| = m * 2**e, 0.5 <= m < 1
        mi = int(m * (1 << 53))                   # integer mantissa (exact)
        low = (mi & -mi).bit_length() - 1         # trailing zero bits
        q = e - 53 + low                          # x is an odd multiple of 2**q
        qexp = q if qexp is None else min(qexp, q)
        top = e if top is None else max(top, e)
    if qexp is None:
        return True
    return top - qexp <= 40


def abs_total(spec):
    """sum of |edge length| over every edge (root edge included): the magnitude rounding errors scale with."""
    return sum(abs(n[2]) for n in ref.preorder(spec) if n[2] is not None)


# ---------------------------------------------------------------------------------------------
def node_tables(spec):
    """pre-order node list and, per node, its ancestor chain [(id, node, length up to it, edges up to it)]
    starting with the node itself (None lengths count 0)."""
    pm = ref.parent_map(spec)
    nodes = list(ref.preorder(spec))
    chain = {}
    for n in nodes:
        c = []
        x = n
        d = 0
        e = 0
        while x is not None:
            c.append((id(x), x, d, e))
            d += (x[2] or 0)
            e += 1
            x = pm[id(x)]
        chain[id(n)] = c
    return nodes, chain


def node_pair(chain, a, b):
    """(path length, number of edges, node where the path turns) for two nodes of one spec;
    a node is its own ancestor."""
    ia = dict((i, (d, e)) for i, _, d, e in chain[id(a)])
    for i, n, d, e in chain[id(b)]:
        if i in ia:
            return ia[i][0] + d, ia[i][1] + e, n
    raise ValueError("nodes are not in one tree")


def leaf_by_label(spec):
    return dict((n[0], n) for n in ref.leaves(spec) if n[0] is not None)


def pair_path(spec, la, lb):
    """path oracle for one pair of leaf labels without the all-pairs table."""
    pm = ref.parent_map(spec)
    lv = leaf_by_label(spec)

    def chain(n):
        c = []
        d = 0
        e = 0
        while n is not None:
            c.append((id(n), n, d, e))
            d += (n[2] or 0)
            e += 1
            n = pm[id(n)]
        return c
    ca, cb = chain(lv[la]), chain(lv[lb])
    ia = dict((i, (d, e)) for i, _, d, e in ca)
    for i, n, d, e in cb:
        if i in ia:
            return ia[i][0] + d, ia[i][1] + e, n
    raise ValueError("leaves are not in one tree")


def deepest_containing(spec, labels):
    """the deepest node whose leaf set includes every label (None if no node does).  Written
    from the definition: descend from the root while some child still contains them all."""
    q = frozenset(labels)
    cl = dict((id(n), c) for n, c in ref.clades(spec))
    if not q or not q <= cl[id(spec)]:
        return None
    n = spec
    while True:
        nxt = None
        for c in n[3]:
            if q <= cl[id(c)]:
                nxt = c
                break
        if nxt is None:
            return n
        n = nxt


# ---------------------------------------------------------------------------------------------
def unit_copy(spec):
    """the same tree with every non-root edge of length 1 (edge-count distances are the
    path lengths of this tree)."""
    s = ref.copy(spec)
    for n in ref.preorder(s):
        n[2] = None if n is s else 1
    return s


def is_ultrametric(spec):
    """all tips equidistant from the root, to 1e-12 relative to that distance (no absolute floor)."""
    rd = [d for n, d, k in ref.root_distances(spec) if not n[3]]
    if not rd:
        return False
    return max(rd) - min(rd) <= 1e-12 * max(abs(max(rd)), abs(min(rd)))


def scaled_copy(spec, factor):
    s = ref.copy(spec)
    for n in ref.preorder(s):
        if n[2] is not None:
            n[2] = n[2] * factor
    return s


def positive_internal(spec):
    """'a tree with positive internal edge lengths': every non-trivial split of the unrooted tree is induced by
    edges of positive summed length (unary chains and the two basal edges of a rooted bifurcation count as one
    edge), and no edge is negative."""
    if has_negative(spec):
        return False
    sl, _ = ref.split_lengths(spec, False)
    for k, ln in sl.items():
        if min(len(side) for side in k) >= 2 and not ln > 0:
            return False
    return True


def pad_to_equal_depth(spec):
    """copy of spec in which every leaf hangs below a chain of outdegree-1 nodes such that all leaves are
    the same number of edges away from the root (lengths of the new edges: None; assign afterwards)."""
    s = ref.copy(spec)
    pm = ref.parent_map(s)
    depth = dict((id(n), k) for n, d, k in ref.root_distances(s))
    lv = ref.leaves(s)
    if not lv:
        return s
    D = max(depth[id(n)] for n in lv)
    for lf in lv:
        p = pm[id(lf)]
        if p is None:
            continue
        node = lf
        for _ in range(D - depth[id(lf)]):
            node = ref.S(None, [node])
        if node is not lf:
            p[3][[id(c) for c in p[3]].index(id(lf))] = node
    return s


def has_negative(spec):
    return any((n[2] is not None and n[2] < 0) for n in ref.preorder(spec))


def judge_reconstruction(S, R, rooted):
    """Does tree R reproduce generating tree S?  Returns None or (clause, message).

    clauses (tie- and polytomy-agnostic):
      leafset          R has exactly S's leaf taxa, once each, and no taxon on an internal node
      path-matrix      every leaf-to-leaf path length of R equals that of S (1e-9 relative to the largest distance)
      split-length     every split (rooted: clade) of S whose summed edge length is positive is in R with that length
      extra-split      every split of R that S lacks (or has with zero length) has |length| ~ 0
    """
    ls, lr = sorted(ref.leaf_taxa(S)), sorted(ref.leaf_taxa(R))
    if ls != lr:
        return "leafset", "result leaves %s, generating tree %s" % (lr[:8], ls[:8])
    for n in ref.preorder(R):
        if (n[3] and n[0] is not None) or (not n[3] and n[0] is None):
            return "leafset", "result has a taxon on an internal node or a leaf without taxon"
    D, DR = ref.leaf_paths(S), ref.leaf_paths(R)
    scale = max([0.0] + [abs(v[0]) for v in D.values()])     # relative to the largest distance, no absolute floor
    tol = TOL * scale
    for k in sorted(D):
        if abs(DR[k][0] - D[k][0]) > tol:
            return "path-matrix", "distance %s-%s is %r in the result, %r in the input" % (k[0], k[1], DR[k][0], D[k][0])
    full = frozenset(ls)
    rootkey = full if rooted else ref.usplit(full, full)
    sl_s, _ = ref.split_lengths(S, rooted)
    sl_r, _ = ref.split_lengths(R, rooted)

    def show(k):
        if rooted:
            return sorted(k)
        return sorted(min(k, key=lambda side: (len(side), sorted(side))))
    for k, ln in sl_s.items():
        if k == rootkey or ln <= tol:
            continue
        if k not in sl_r:
            return "split-length", "split %s (length %r) of the generating tree is absent from the result" % (show(k), ln)
        if abs(sl_r[k] - ln) > tol:
            return "split-length", "split %s has length %r in the result, %r in the generating tree" % (show(k), sl_r[k], ln)
    for k, ln in sl_r.items():
        if k == rootkey:
            continue
        if sl_s.get(k, 0) <= tol and abs(ln) > tol:
            return "extra-split", "result has split %s with length %r that the generating tree lacks" % (show(k), ln)
    return None


# ---------------------------------------------------------------------------------------------
def positive_lengths(spec, rng, dyadic):
    """every non-root edge gets a positive length."""
    for n in ref.preorder(spec):
        if n is spec:
            n[2] = None
        elif dyadic:
            n[2] = rng.randint(1, 64) / 8.0
        else:
            n[2] = rng.uniform(0.01, 3.0)
    return spec


def zero_some_pendants(spec, rng, p=0.2):
    for n in ref.preorder(spec):
        if not n[3] and n is not spec and rng.random() < p:
            n[2] = rng.choice([0, 0.0, None])
    return spec
