"""C13  All ways of reading the same source deliver the same data.

One driver reads the SAME document text (Newick, NEXUS or NeXML, produced as text by the templates in
_c13_util.py - several TREES blocks (also empty ones), one to three TITLEd TAXA blocks with LINKed TREES / CHARACTERS
blocks, TRANSLATE tables, comments everywhere, [&W] weights, mixed [&R]/[&U], metadata comments, .jplace edge numbers,
blank statements, several <trees>/<otus> elements (also empty <trees>), hand-written NeXML <characters>, CR / CRLF
line ends) with ONE option set through every route and every kind of source and appends one log entry per call:

    full routes     TreeList.get | TreeList.read (twice into one list, then an OFFSET read into that filled list) |
                    Tree.yield_from_files (also two files in a row) | DataSet.get (also with exclude_chars=True) |
                    DataSet.read (into a data set that already holds a previous read; also exclude_chars=True)
    offset routes   Tree.get(collection_offset, tree_offset) for every valid pair (+ defaults, + negative offsets) |
                    TreeList.get / TreeList.read with collection_offset / tree_offset (negative offsets and
                    collection-only requests as documented) | one request that addresses nothing, put to all three
    array routes    TreeArray.read (a second read goes into the array that holds the first) |
                    TreeArray.read_from_files (with and without tree_offset)
    matrix routes   <Type>CharacterMatrix.get(matrix_offset=i)  against  DataSet.get(...).char_matrices[i], also
                    DataSet.get(exclude_trees=True), DataSet.read twice into one data set
    sources         data= / string= (text), file= (io.StringIO), stream= (open file), path= (str and pathlib)
    namespaces      fresh per call | one shared by all calls (empty, pre-populated, unrelated taxa) | additionally
                    every route once on an EMPTY namespace of its own handed in by the client

The calls of a phase are laid out in a declared order (all random choices are made then) and EXECUTED IN A SHUFFLED
ORDER, so that every route gets its turn at being the first call on the empty shared namespace (for documents with
matrices the matrix phase runs before the tree phase half of the time); judging only looks at the declared order.

Each entry holds a canonical record per delivered tree, read from the raw fields (vf.bridge.extract): ordered
shape, taxon label / node label / edge length (repr, so 1 != 1.0) per pre-order node, rooting flag, weight, tree
label, tree comments and annotations, per-node and per-edge comments / annotations / labels / edge numbers, and the
Taxon objects.  The verdict is an OFFLINE comparison of the log (judge()): the first full route (declared order) that
delivered is the reference; for every other entry each differing clause is reported once, the first tree that shows
it being the witness (so a known difference in one clause cannot hide a new one in another).

  count / order     same number of trees, i-th tree equal to i-th tree (offset routes: the documented slice)
  clauses           shape, taxon-labels, node-labels, lengths, rooting, weight, tree-label, comments, annotations,
                    node-comments, node-annotations, edge-labels, edge-annotations, edge-numbers (annotations as sorted multisets)
  raised            a route raises where another route delivers (key carries exception class, innermost function,
                    route family, namespace state, several-taxa-blocks, reader-mode option)
  refused           a request that addresses nothing: the offset routes agree (one delivering where others refuse = divergence)
  incremental       what a list / data set / array held before a read is still there afterwards (same objects, same order)
  collections       the tree lists of a data set have the sizes of the collections that collection_offset addresses
  taxon-identity    under a namespace shared by all calls: the Taxon object on every node IS the reference's;
                    under a namespace of the route's own handed in empty: tree / matrix live in that object, taxa are its members
  array             per tree: rooting flag, leaf set, split set, per-split length and weight equal the values computed by
                    vf.ref from the reference route's tree (splits translated through TaxonNamespace.taxon_bitmask)
  matrix            class, data type, label, row taxa, cells (symbol, kind, member symbols), state alphabets, which
                    alphabet every column uses, character types, cell annotations, character subsets, comments,
                    annotations; under a shared namespace identity of the row taxa

Soundness limits actually implemented
  * only options that every route accepts are varied; every route of a case gets the same options (exclude_chars goes
    to the tree routes only, exclude_trees to the matrix routes only: with them a tree / matrix read has nothing to read);
  * comments that belong to a tree LIST / data set (before the first TREE of a block, between blocks) are not
    compared - the iterator has nowhere to put them;
  * the order of annotations parsed from ONE metadata comment is arbitrary in the library (a Python set of
    id-hashed objects): annotations are compared as sorted multisets;
  * generated comments / quoted labels never contain line breaks: Python's universal-newline translation makes
    path= and an open file differ from a *string* for CR / CRLF inside a comment (recorded by a probe, not judged);
    the same probe does judge path= (str and pathlib) against stream=open(path), which are the same file, for every route
    including the ones that open files themselves (yield_from_files, TreeArray.read_from_files) and the matrix routes;
  * a final statement without ';' always ends in an edge length (see _c13_util.newick_body: otherwise the outcome depends
    on the number of trailing white-space characters, which newline translation changes - a tokenizer matter);
  * numeric taxon tokens are only generated where their meaning cannot depend on what an earlier call left in
    the shared namespace (TRANSLATE tokens, or taxon numbers with ONE TAXA block);
  * TreeArray comparison only for trees without outdegree-1 nodes, with >= 3 leaves and a distinct taxon on every
    leaf, and only when all trees of the document have one rooting state (else MixedRootingError is documented);
    lengths only when no edge length is missing;
  * return values of read() (number of trees) are recorded, not judged;
  * all routes raising on a document is agreement (counted as 'all-routes-raised', never a verdict);
  * negative offsets are documented for TreeList.get / TreeList.read only: Tree.get with negative offsets is judged when it
    delivers (it has to be the tree list indexing selects) and noted when it refuses;
  * a matrix is a mapping taxon -> sequence: rows are compared sorted by label (iteration order is the order of the
    namespace, which legitimately depends on whether a route parsed the TREES blocks before the matrix); when the full
    DataSet.get cannot read the document (it also parses the TREES blocks) the data set read with exclude_trees=True
    is the reference; how many matrices a document "should" hold is not judged (note);
  * offsets are mapped through the block structure the template wrote; if the reference route sees another number
    of trees (a label-only statement without terminator is silently dropped by every route) offset routes are skipped;
  * a route that exceeds the step budget is not judged; the case is inconclusive (a performance effect, never a verdict);
  * set-up calls (NEXUS -> NeXML conversion of two directed cases, the pre-population read) are protected: a failure is
    a note / an inconclusive case, never a verdict.

Violation keys:  <route family>|<clause>[|discriminator]|<schema>,  source|<route family>|<form>-vs-<form>|<clause>|<schema>,
<route family>|re-created-existing-taxa|<schema>,
raised-where-others-deliver|<ExcClass>|<innermost function>|<schema>|<route family>|<foreign-taxa | own-taxa-only>[|several-taxa-blocks][|opt:<option>]
('foreign-taxa' = the namespace handed to the route held taxa that are not the document's before the case started).
Directed cases (always first) reproduce the mechanisms found on the unchanged tree: Tree.get replaces the source's
tree label by None; the NeXML reader re-creates taxa of a namespace handed in by the client; the NEXUS NTAX limit counts
taxa that were in a shared namespace before the read (TooManyTaxaError); TreeList.get / DataSet.get build a
case-insensitive namespace although case_sensitive_taxon_labels=True was requested (ValueError); a NEXUS document with
two TITLEd TAXA blocks is refused by the routes that pool all blocks in one namespace."""
import gc
import io
import locale
import os
import pathlib
import random
import shutil
import tempfile

from .. import ref, core
from ..mon.hooks import Hooks
from ..mon.budget import budget, StepBudgetExceeded
from . import _c13_util as U

PROP = "C13"
LEVEL = "exploration"
TECHNIQUE = ("runtime monitoring: one driver reads the same generated document through every route / source kind in a shuffled "
             "call order, records canonical per-tree / per-matrix logs; offline pairwise log comparison in the declared order "
             "(first divergence = witness)")
RULE = ("cases = generated document (schema x template features x line ends) x one option set accepted by every route x "
        "namespace mode (fresh per call | one shared, empty | shared, pre-populated | shared, unrelated taxa) ; every case runs all "
        "routes x source kinds x all valid offset pairs (+ negative, + one refused request) in a shuffled call order, incremental "
        "reads into filled containers, and every route once on an empty namespace of its own; non-trivial = document with >= 2 "
        "trees or >= 2 collections or a matrix; distinct = (document text, options, namespace mode)")
REACH = ["newickreader:NewickReader._parse_tree_statement", "newickreader:NewickReader.tree_iter",
         "nexusreader:NexusReader._parse_trees_block", "nexusreader:NexusReader._parse_translate_statement",
         "nexusyielder:NexusTreeDataYielder._yield_from_trees_block",
         "newickyielder:NewickTreeDataYielder._yield_items_from_stream",
         "nexmlyielder:NexmlTreeDataYielder._yield_items_from_stream", "nexmlreader:NexmlReader._parse_tree_list",
         "_tree:Tree._parse_and_create_from_stream", "_tree:Tree.yield_from_files",
         "treecollectionmodel:TreeList._parse_and_create_from_stream",
         "treecollectionmodel:TreeList._parse_and_add_from_stream", "treecollectionmodel:TreeArray.read_from_files",
         "datasetmodel:DataSet._parse_and_create_from_stream", "datasetmodel:DataSet._parse_and_add_from_stream",
         "charmatrixmodel:CharacterMatrix._parse_and_create_from_stream",
         "basemodel:Deserializable._get_from", "basemodel:Deserializable.get_from_path",
         "basemodel:Deserializable.get_from_stream", "basemodel:Deserializable.get_from_string",
         "basemodel:MultiReadable._read_from", "basemodel:MultiReadable.read_from_path",
         "ioservice:DataYielder.iterate_over_file", "ioservice:DataReader.read_dataset",
         "nexusreader:NexusReader._parse_taxa_block", "nexusreader:NexusReader._parse_taxlabels_statement",
         "nexusreader:NexusReader._get_taxon_namespace", "nexusreader:NexusReader._read_block_without_processing",
         "nexmlreader:_NexmlCharBlockParser.parse_char_matrix"]
MIN_EVENTS = {"tree-compared": (50000, 1000000), "route-entry-judged": (20000, 400000),
              "offset-pair-judged": (8000, 150000), "source-form-compared": (5000, 100000),
              "taxon-identity-judged": (20000, 400000), "namespace-growth-judged": (15000, 300000),
              "treearray-tree-judged": (1500, 30000), "matrix-compared": (800, 15000),
              "yielder-second-file-judged": (500, 10000), "newline-probe-judged": (90, 90),
              "directed-case-run": (26, 26), "prepopulate-read-ok": (100, 2000),
              "client-namespace-judged": (3000, 60000), "collection-sizes-judged": (4000, 80000),
              "earlier-content-judged": (3500, 70000), "negative-offset-judged": (2000, 40000),
              "offset-read-into-filled-list-judged": (600, 12000), "refused-request-judged": (600, 12000),
              "treearray-later-read-tree-judged": (900, 18000), "matrix-routes-before-tree-routes": (50, 1000),
              # the shuffled call order gives every route family its turn on the still empty shared namespace
              "first-call-on-empty-shared-namespace-judged:Tree.get": (60, 1200),
              "first-call-on-empty-shared-namespace-judged:TreeList.get": (300, 6000),
              "first-call-on-empty-shared-namespace-judged:TreeList.read": (80, 1600),
              "first-call-on-empty-shared-namespace-judged:DataSet.get": (80, 1600),
              "first-call-on-empty-shared-namespace-judged:DataSet.read": (25, 500),
              "first-call-on-empty-shared-namespace-judged:yield_from_files": (250, 5000),
              "first-call-on-empty-shared-namespace-judged:CharacterMatrix.get": (8, 160),
              "hook:NewickReader._parse_tree_statement:call": (60000, 1200000),
              "hook:NexusTreeDataYielder._yield_from_trees_block:call": (3000, 60000),
              "hook:NexusReader._parse_taxa_block:call": (10000, 200000),
              "hook:_NexmlTreeParser.build_tree:call": (15000, 300000)}
ASSUMPTIONS = ["documents are text produced by the harness templates; what they mean is never computed by the harness - only "
               "agreement of the routes is judged",
               "the call order of the routes is shuffled per case; the verdict does not depend on it (the reference is chosen in "
               "the declared order)",
               "records are read from raw fields (_child_nodes, _edge, taxon, _annotations, comments)",
               "TaxonNamespace.taxon_bitmask is taken as the given taxon->bit map when TreeArray contents are translated"]
LEVEL_TEXT = ("A driver pushes each generated document through every reading route and source kind of the real library (shuffled call "
              "order, fresh / shared / client-owned empty namespaces, incremental reads into filled containers), logging a canonical "
              "record per delivered tree / matrix; an offline checker compares the logs pairwise.")
LEVEL_NOTE = ("held = no log entry diverged from the reference entry on the documents explored. Trusted: the record extraction "
              "and comparison in vf/props/C13.py + _c13_util.py, vf/bridge.extract, vf/ref.split_lengths.")
CASE_TIMEOUT = 120
STEP_LIMIT = 3000000

NSMODES = ("fresh", "shared-empty", "shared-prepopulated", "shared-unrelated")
ROOTINGS = ("default-unrooted", "default-rooted", "force-unrooted", "force-rooted", None)

# ---------------------------------------------------------------------------------------------------
# directed documents (witnesses of confirmed findings first)
D_NEXUS_NAMES = ("#NEXUS\nBEGIN TAXA;\n DIMENSIONS NTAX=4;\n TAXLABELS A B C D;\nEND;\nBEGIN TREES;\n"
                 " TREE one = [&R] ((A:1,B:2):3,(C:1,D:1):2);\n TREE two = [&U] (A,(B,(C,D)));\nEND;\n")
D_NEXUS_TWO_BLOCKS = ("#NEXUS\n[file comment]\nBEGIN TAXA;\n DIMENSIONS NTAX=4;\n TAXLABELS A B C D;\nEND;\n[between]\nBEGIN TREES;\n"
                      " [block comment]\n TRANSLATE 1 C, 2 A, 3 D, 4 B;\n"
                      " [pre one] TREE one [mid] = [&R] [&W 1/2] [&k=v] ((1:1,2:2)x:3,(3:1,4:1):2);\n"
                      " [pre two] TREE * two = [&U] (1,(2,(3,4)))[&post=1];\nEND;\nBEGIN TREES;\n"
                      " TREE three = [&R] ((1,2),(3,4));\n TREE four = ((A,C),(B,D));\nEND;\n")
D_NEWICK_CASE = "(A,(b,(C,d)));((a,B),(c,D));\n"
D_NEWICK_MULTI = "[&R] ((A:1,B:2):3,(C:1,D:1):2);;\n\n[&U][&W 1/4] (A,(B,(C,D)))[&x=1];[last] (A,B,C,D);"
D_NEXML = ('<?xml version="1.0" encoding="UTF-8"?>\n<nex:nexml version="0.9" xmlns="http://www.nexml.org/2009" '
           'xmlns:nex="http://www.nexml.org/2009" xmlns:xsi="http://www.w3.org/2001/XMLSchema-instance">\n'
           ' <otus id="o1"><otu id="a" label="A"/><otu id="b" label="B"/><otu id="c" label="C"/></otus>\n'
           ' <trees id="ts1" otus="o1">\n  <tree id="t1" label="first" xsi:type="nex:FloatTree">\n'
           '   <node id="n1" root="true"/><node id="n2" otu="a"/><node id="n3"/><node id="n4" otu="b"/><node id="n5" otu="c"/>\n'
           '   <edge id="e1" source="n1" target="n2" length="1.0"/><edge id="e2" source="n1" target="n3" length="0.5"/>\n'
           '   <edge id="e3" source="n3" target="n4"/><edge id="e4" source="n3" target="n5" length="2"/>\n  </tree>\n </trees>\n'
           ' <trees id="ts2" otus="o1">\n  <tree id="t2" label="second" xsi:type="nex:IntTree">\n'
           '   <node id="m1"/><node id="m2" otu="c"/><node id="m3" otu="a"/>\n'
           '   <edge id="f1" source="m1" target="m2" length="3"/><edge id="f2" source="m1" target="m3" length="4"/>\n  </tree>\n </trees>\n'
           '</nex:nexml>\n')
D_NEXUS_CHARS = ("#NEXUS\nBEGIN TAXA;\n DIMENSIONS NTAX=3;\n TAXLABELS A B 'C c';\nEND;\nBEGIN CHARACTERS;\n TITLE first;\n"
                 " DIMENSIONS NCHAR=6;\n FORMAT DATATYPE=DNA MISSING=? GAP=- MATCHCHAR=.;\n MATRIX\n  A ACGT{AC}-\n  B ..?.(AG)N\n"
                 "  'C c' A.GTRY\n ;\nEND;\nBEGIN TREES;\n TREE t1 = (A,(B,'C c'));\nEND;\nBEGIN CHARACTERS;\n TITLE second;\n"
                 " DIMENSIONS NCHAR=4;\n FORMAT DATATYPE=STANDARD SYMBOLS=\"012\" INTERLEAVE;\n MATRIX\n  A 01\n  B 12\n  'C c' 0?\n\n"
                 "  A 2(01)\n  B 10\n  'C c' {12}-\n ;\nEND;\nBEGIN SETS;\n LINK CHARACTERS = second;\n CHARSET cs1 = 1-2 4;\nEND;\n")

D_NEXUS_DATA_BLOCK = ("#NEXUS\nBEGIN DATA;\n DIMENSIONS NTAX=3 NCHAR=4;\n FORMAT DATATYPE=DNA;\n MATRIX\n  A ACGT\n  B ACGA\n  C AC-T\n ;\nEND;\n"
                      "BEGIN TREES;\n TREE only = [&R] (A,B);\nEND;\n")

# Mesquite-style documents: several TITLEd TAXA blocks, every other block LINKed to one of them
D_NEXUS_TWO_TAXA = ("#NEXUS\nBEGIN TAXA;\n TITLE first;\n DIMENSIONS NTAX=3;\n TAXLABELS A B C;\nEND;\nBEGIN TAXA;\n TITLE second;\n"
                    " DIMENSIONS NTAX=3;\n TAXLABELS X Y Z;\nEND;\nBEGIN TREES;\n LINK TAXA = first;\n TREE t1 = (A,(B,C));\nEND;\n"
                    "BEGIN TREES;\n LINK TAXA = second;\n TREE t2 = (X,(Y,Z));\nEND;\n")
D_NEXUS_TWO_TAXA_SAME = D_NEXUS_TWO_TAXA.replace("X Y Z", "C B A").replace("(X,(Y,Z))", "(C,(B,A))")
D_NEXUS_TWO_TAXA_CHARS = ("#NEXUS\nBEGIN TAXA;\n TITLE first;\n DIMENSIONS NTAX=3;\n TAXLABELS A B C;\nEND;\nBEGIN TAXA;\n TITLE second;\n"
                          " DIMENSIONS NTAX=2;\n TAXLABELS X B;\nEND;\nBEGIN CHARACTERS;\n TITLE m1;\n LINK TAXA = second;\n DIMENSIONS NCHAR=3;\n"
                          " FORMAT DATATYPE=DNA;\n MATRIX\n  X ACG\n  B A-T\n ;\nEND;\nBEGIN TREES;\n LINK TAXA = first;\n TREE t1 = (A,(B,C));\nEND;\n")
D_NEXUS_EMPTY_TREES = ("#NEXUS\nBEGIN TREES;\nEND;\nBEGIN TREES;\n TREE a = (A,(B,C));\n TREE b = (B,(A,C));\nEND;\nBEGIN TREES;\n TITLE none;\nEND;\n")
D_NEXML_EMPTY_TREES = D_NEXML.replace(' <trees id="ts2"', ' <trees id="ts0" otus="o1"></trees>\n <trees id="ts2"')

DIRECTED_META = {"nexus-two-taxa-blocks-fresh": {"taxa_blocks": 2}, "nexus-two-taxa-blocks-shared": {"taxa_blocks": 2},
                 "nexus-two-taxa-blocks-same-labels": {"taxa_blocks": 2}, "nexus-two-taxa-blocks-chars": {"taxa_blocks": 2}}

DIRECTED = [
    # name, schema, text, blocks, matrices, options, nsmode
    ("tree-get-label", "nexus", D_NEXUS_NAMES, [2], [], {}, "fresh"),
    ("tree-get-label-shared", "nexus", D_NEXUS_NAMES, [2], [], {}, "shared-empty"),
    ("two-blocks-translate", "nexus", D_NEXUS_TWO_BLOCKS, [2, 2], [], {"store_tree_weights": True}, "fresh"),
    ("two-blocks-translate-shared", "nexus", D_NEXUS_TWO_BLOCKS, [2, 2], [], {"store_tree_weights": True}, "shared-empty"),
    ("two-blocks-force-rooted", "nexus", D_NEXUS_TWO_BLOCKS, [2, 2], [], {"rooting": "force-rooted"}, "shared-prepopulated"),
    ("newick-case-sensitive-fresh", "newick", D_NEWICK_CASE, [2], [], {"case_sensitive_taxon_labels": True}, "fresh"),
    ("newick-case-sensitive-shared", "newick", D_NEWICK_CASE, [2], [], {"case_sensitive_taxon_labels": True}, "shared-empty"),
    ("newick-multi", "newick", D_NEWICK_MULTI, [3], [], {"store_tree_weights": True}, "fresh"),
    ("newick-multi-nometa", "newick", D_NEWICK_MULTI, [3], [], {"extract_comment_metadata": False}, "shared-empty"),
    ("nexml-fresh", "nexml", D_NEXML, [1, 1], [], {}, "fresh"),
    ("nexml-shared", "nexml", D_NEXML, [1, 1], [], {}, "shared-empty"),
    ("nexml-shared-prepopulated", "nexml", D_NEXML, [1, 1], [], {}, "shared-prepopulated"),
    ("nexus-unrelated-namespace", "nexus", D_NEXUS_NAMES, [2], [], {}, "shared-unrelated"),
    ("nexus-data-block-unrelated-namespace", "nexus", D_NEXUS_DATA_BLOCK, [1], ["dna"], {}, "shared-unrelated"),
    ("nexus-data-block-fresh", "nexus", D_NEXUS_DATA_BLOCK, [1], ["dna"], {}, "fresh"),
    ("nexus-case-sensitive-fresh", "nexus", D_NEXUS_NAMES, [2], [], {"case_sensitive_taxon_labels": True}, "fresh"),
    # the NEXUS text converted once by the library's NeXML writer (only a source of text with a <characters> element)
    ("nexml-chars-shared", "nexml-via-writer", D_NEXUS_DATA_BLOCK, [1], ["dna"], {}, "shared-empty"),
    ("nexml-chars-fresh", "nexml-via-writer", D_NEXUS_DATA_BLOCK, [1], ["dna"], {}, "fresh"),
    ("nexus-chars", "nexus", D_NEXUS_CHARS, [1], ["dna", "standard"], {}, "fresh"),
    ("nexus-chars-shared", "nexus", D_NEXUS_CHARS, [1], ["dna", "standard"], {}, "shared-empty"),
    ("nexus-two-taxa-blocks-fresh", "nexus", D_NEXUS_TWO_TAXA, [1, 1], [], {}, "fresh"),
    ("nexus-two-taxa-blocks-shared", "nexus", D_NEXUS_TWO_TAXA, [1, 1], [], {}, "shared-empty"),
    ("nexus-two-taxa-blocks-same-labels", "nexus", D_NEXUS_TWO_TAXA_SAME, [1, 1], [], {}, "fresh"),
    ("nexus-two-taxa-blocks-chars", "nexus", D_NEXUS_TWO_TAXA_CHARS, [1], ["dna"], {}, "fresh"),
    ("nexus-empty-trees-blocks", "nexus", D_NEXUS_EMPTY_TREES, [2], [], {}, "shared-empty"),
    ("nexml-empty-trees-element", "nexml", D_NEXML_EMPTY_TREES, [1, 0, 1], [], {}, "fresh"),
    ("newick-jplace", "newick", "((A:1{0},B:1{1}):1{2},C:1{3}){4};(A{0},(B{2},C{1}){3});", [2], [], {"is_parse_jplace_tokens": True}, "shared-empty"),
    ("newick-labels-to-edges", "newick", "((A,B)ab:1,(C,D)cd:2)r;((A,C)x,(B,D)y);", [2], [], {"is_assign_internal_labels_to_edges": True}, "fresh"),
]


def cases(tier, seed):
    for d in DIRECTED:
        yield {"kind": "directed", "name": d[0], "seed": seed}
    yield {"kind": "newline-probe", "seed": seed}
    n = 1500 if tier == "quick" else 32000
    for i in range(n):
        yield {"kind": "doc", "i": i, "seed": seed}
    n = 350 if tier == "quick" else 7500
    for i in range(n):
        yield {"kind": "chars", "i": i, "seed": seed}


# ---------------------------------------------------------------------------------------------------
def make_options(rng, schema):
    """(options accepted by every route, template constraints that keep the document valid under them)"""
    o, force = {}, {}
    if rng.random() < 0.08:
        # the switch is only meaningful together with a keyword no reader knows
        o["ignore_unrecognized_keyword_arguments"] = True
        o["bogus_option"] = 1
    if schema == "nexml":
        if rng.random() < 0.1:
            o["case_sensitive_taxon_labels"] = True
        if rng.random() < 0.06:
            o["suppress_leaf_node_taxa"] = True
        if rng.random() < 0.06:
            o["suppress_internal_node_taxa"] = rng.random() < 0.5
        return o, force
    r = rng.random()
    if r < 0.5:
        o["rooting"] = rng.choice(ROOTINGS)
    elif r < 0.54:
        # legacy spellings (deprecated, still accepted by every route)
        o[rng.choice(["as_rooted", "default_as_rooted"])] = rng.random() < 0.6
    if rng.random() < 0.3:
        o["preserve_underscores"] = rng.random() < 0.7
    if rng.random() < 0.45:
        o["store_tree_weights"] = rng.random() < 0.8
    if rng.random() < 0.3:
        o["extract_comment_metadata"] = rng.random() < 0.6
    if rng.random() < 0.2:
        o["suppress_internal_node_taxa"] = False
        force["taxa_internal"] = True
    elif rng.random() < 0.12:
        # internal labels are stored on the edges instead of the nodes (needs suppress_internal_node_taxa=True, the default)
        o["is_assign_internal_labels_to_edges"] = True
        force["internal_labels"] = rng.choice(["mixed", "numeric", "unique"])
    if rng.random() < 0.08:
        o[rng.choice(["suppress_leaf_node_taxa", "suppress_leaf_node_taxa", "suppress_external_node_taxa"])] = True
    if rng.random() < 0.12:
        o["case_sensitive_taxon_labels"] = True
    if rng.random() < 0.12:
        o["terminating_semicolon_required"] = False
        if schema == "newick" and rng.random() < 0.7:
            force["no_final_semicolon"] = True
    elif schema == "newick" and rng.random() < 0.02:
        force["no_final_semicolon"] = True     # every route must refuse
    r = rng.random()
    if r < 0.08:
        o["edge_length_type"] = "int"
        force["lengths"] = rng.choice(["ints", "none"])
    elif r < 0.12:
        o["edge_length_type"] = "float"
    if rng.random() < 0.06:
        o["suppress_edge_lengths"] = True
    if rng.random() < 0.06:
        o["is_parse_jplace_tokens"] = True
        if rng.random() < 0.8:
            force["jplace"] = True
    if rng.random() < 0.08:
        o["finish_node_fn"] = "mark-label"
    if schema == "nexus" and rng.random() < 0.1:
        o["store_ignored_blocks"] = True
    return o, force


def finish_node_mark(nd):
    """finish_node_fn handed to every route of a case: leaves a trace that the records compare (node label)"""
    nd.label = "fin" if nd.label is None else "%s+fin" % (nd.label,)


def real_options(o):
    o = dict(o)
    if "edge_length_type" in o:
        o["edge_length_type"] = {"int": int, "float": float}[o["edge_length_type"]]
    if o.get("finish_node_fn") == "mark-label":
        o["finish_node_fn"] = finish_node_mark
    return o


class Entry(dict):
    pass


def offset_request(rng, blocks, allow_negative=True, styles=("c,t", "c,t", "c,-t", "c")):
    """a random VALID offset request on a document whose collections hold blocks[c] trees:
    (keyword arguments, first index, end index, description); indices address the flat list of all trees"""
    starts = [sum(blocks[:c]) for c in range(len(blocks))]
    c = rng.choice([c for c in range(len(blocks)) if blocks[c]])
    cc = c - len(blocks) if (allow_negative and rng.random() < 0.4) else c
    style = rng.choice(styles)
    if style == "c,-t" and not allow_negative:
        style = "c,t"
    kw = {"collection_offset": cc}
    lo = starts[c]
    if style == "c,t":
        t = rng.randrange(blocks[c])
        kw["tree_offset"] = t
        lo += t
    elif style == "c,-t":
        k = rng.randint(1, blocks[c])
        kw["tree_offset"] = -k
        lo += blocks[c] - k
    desc = ",".join("%s=%d" % (k[0], v) for k, v in sorted(kw.items()))
    return kw, lo, starts[c] + blocks[c], desc


def refused_request(rng, blocks):
    """an offset request that addresses NOTHING (collection beyond the last one, tree beyond the last one of its
    collection, first tree of an empty collection): every offset route has to refuse it"""
    cands = [{"collection_offset": len(blocks), "tree_offset": 0}, {"collection_offset": len(blocks)}]
    for c in range(len(blocks)):
        cands.append({"collection_offset": c, "tree_offset": blocks[c]})
    kw = rng.choice(cands)
    return kw, ",".join("%s=%d" % (k[0], v) for k, v in sorted(kw.items()))


class Driver(object):
    """reads one document through every route; only records - judge() decides afterwards.

    A phase (tree routes / array routes / matrix routes) is first laid out as a list of steps in a DECLARED order -
    all random choices are made while the plan is written - and then executed in a shuffled order, so that every
    route gets its turn at being the first call on the (possibly still empty) shared namespace.  Judging only looks
    at the declared order."""

    def __init__(self, ctx, doc, options, nsmode, tmpdir, rng):
        import dendropy
        self.dp = dendropy
        self.ctx = ctx
        self.doc = doc
        self.text = doc["text"]
        self.schema = doc["schema"]
        self.options = options
        self.nsmode = nsmode
        self.rng = rng
        self.log = []
        self.keep = []        # keeps every delivered object alive until the log has been judged (ids stay unique)
        self.path = os.path.join(tmpdir, "doc.%s" % {"newick": "tre", "nexus": "nex", "nexml": "xml"}[self.schema])
        with open(self.path, "w", newline="") as f:
            f.write(self.text)
        self._open = []
        self._phase = 0
        self._step = 0
        self._sub = 0
        self._calls = 0
        self.budget_hit = False
        self.case_sensitive = bool(options.get("case_sensitive_taxon_labels"))
        # keywords only the tree routes / only the matrix routes get (NEXUS: every reader entry point takes them)
        self.tree_extra = {}
        self.matrix_extra = {}
        if self.schema == "nexus":
            if rng.random() < 0.25:
                self.tree_extra["exclude_chars"] = True
            if rng.random() < 0.25:
                self.matrix_extra["exclude_trees"] = True
        self.ns = None
        if nsmode != "fresh":
            self.ns = dendropy.TaxonNamespace(is_case_sensitive=self.case_sensitive)
            if nsmode == "shared-unrelated":
                for lab in ("zz unrelated 1", "zz unrelated 2", "zz unrelated 3", "zz unrelated 4", "zz unrelated 5",
                            "zz unrelated 6", "zz unrelated 7", "zz unrelated 8", "zz unrelated 9"):
                    self.ns.new_taxon(label=lab)
        self.ns_state = "foreign-taxa" if nsmode in ("shared-prepopulated", "shared-unrelated") else "own-taxa-only"

    # -- sources ----------------------------------------------------------------------------------
    def source(self, form):
        if form == "data":
            return {"data": self.text}
        if form == "string":
            return {"string": self.text}
        if form == "file":
            return {"file": io.StringIO(self.text)}
        if form == "stream":
            f = open(self.path, "r")
            self._open.append(f)
            return {"stream": f}
        if form == "path":
            return {"path": self.path}
        if form == "pathlib":
            return {"path": pathlib.Path(self.path)}
        raise ValueError(form)

    def file_item(self, form):
        if form == "file":
            return io.StringIO(self.text)
        if form == "stream":
            f = open(self.path, "r")
            self._open.append(f)
            return f
        if form == "path":
            return self.path
        if form == "pathlib":
            return pathlib.Path(self.path)
        raise ValueError(form)

    def close(self):
        for f in self._open:
            try:
                f.close()
            except Exception:
                pass
        self._open = []

    def kwargs(self, form=None, ns=True, kind="tree", **extra):
        kw = real_options(self.options)
        kw["schema"] = self.schema
        if form is not None:
            kw.update(self.source(form))
        if ns and self.ns is not None:
            kw["taxon_namespace"] = self.ns
        kw.update(self.tree_extra if kind == "tree" else self.matrix_extra if kind == "matrix" else {})
        kw.update(extra)
        return kw

    # -- recording ----------------------------------------------------------------------------------
    def record(self, route, source, mode, expect, fn, own_ns=None, group=None):
        """fn() returns an iterable of trees (or matrices / array rows); everything it delivers is recorded,
        also when it raises half way."""
        e = Entry(route=route, source=source, mode=mode, expect=expect, records=[], error=None, extra={},
                  seq=(self._phase, self._step, self._sub), call_no=self._calls, own_ns=own_ns, group=group, budget=False)
        self._sub += 1
        self._calls += 1
        got = []
        watched = own_ns if own_ns is not None else self.ns
        before = list(watched) if watched is not None else None
        e["extra"]["ns_size_before"] = len(before) if before is not None else None
        try:
            with budget(STEP_LIMIT):
                for item in fn(e):
                    got.append(item)
        except StepBudgetExceeded as x:
            # a performance effect, never a verdict: the entry is not judged and the case is inconclusive
            e["error"] = ("StepBudgetExceeded", x.where, str(x))
            e["budget"] = True
            self.budget_hit = True
        except core.CaseTimeout:
            raise
        except Exception as x:
            fr = core.innermost_repo_frame(x)
            e["error"] = (type(x).__name__, fr[0] if fr else "<outside-library>", core.exc_brief(x))
        self.keep.append(got)
        if e["error"] is not None and watched is not None and not watched.is_mutable:
            # the readers lock the namespace while they work and unlock it when their symbol mapper is finalised; after an
            # exception that can be late (reference cycles).  Not this property's business: unlock, so that the following
            # routes are judged on their own merits
            gc.collect()
            if not watched.is_mutable:
                watched.is_mutable = True
                self.ctx.note("namespace-left-locked-by-a-failed-read:unlocked-by-harness")
        if before is not None:
            # Taxon objects this call added to the namespace under a label that was already there
            norm = (lambda x: x) if self.case_sensitive else (lambda x: x.lower() if isinstance(x, str) else x)
            known = set(id(t) for t in before)
            old_labels = set(norm(t.label) for t in before)
            e["extra"]["recreated"] = [t.label for t in watched if id(t) not in known and norm(t.label) in old_labels]
        for item in got:
            try:
                if mode == "matrix":
                    e["records"].append(U.matrix_record(item))
                elif mode == "array":
                    e["records"].append(item)
                else:
                    e["records"].append(U.tree_record(item))
            except Exception as x:     # malformed object: a record that equals nothing
                e["records"].append({"_broken": "%s: %s" % (type(x).__name__, x)})
        self.log.append(e)
        self.ctx.ev("route-call")
        return e

    def run_steps(self, steps):
        """execute the plan in a shuffled order; entries remember their declared position"""
        self._phase += 1
        order = list(range(len(steps)))
        self.rng.shuffle(order)
        try:
            for i in order:
                self._step, self._sub = i, 0
                steps[i]()
        finally:
            self.close()

    def entries(self, *modes):
        return sorted((e for e in self.log if e["mode"] in modes), key=lambda e: e["seq"])

    # -- routes -------------------------------------------------------------------------------------
    def fresh_ns(self):
        return self.dp.TaxonNamespace(is_case_sensitive=self.case_sensitive)

    def container_ns(self):
        """namespace for containers the HARNESS constructs (TreeList(), TreeArray()): the shared one, or - so that the
        harness does not pair a case-insensitive namespace of its own making with a case-sensitive read - a fresh one"""
        if self.ns is not None:
            return self.ns
        return self.fresh_ns() if self.case_sensitive else None

    def prepopulate(self):
        """shared-prepopulated: the shared namespace already holds the document's labels (learnt from a separate
        fresh read that is not part of the log) in another order, plus unrelated ones."""
        labels = []
        try:
            ds = self.dp.DataSet.get(**self.kwargs("data", ns=False, kind=None))
            for ns in ds.taxon_namespaces:
                labels.extend(t.label for t in ns)
            self.ctx.ev("prepopulate-read-ok")
        except core.CaseTimeout:
            raise
        except Exception as x:
            # recorded: the mode then degenerates to 'two unrelated taxa' (the routes are judged all the same)
            self.ctx.note("prepopulate-read-raised:%s:%s" % (self.schema, type(x).__name__))
        self.rng.shuffle(labels)
        self.ns.new_taxon(label="zz extra first")
        for lab in labels:
            if lab is not None and not self.ns.has_taxon_label(lab):
                self.ns.new_taxon(label=lab)
        self.ns.new_taxon(label="zz extra last")

    def plan_tree_routes(self):
        dp, rng = self.dp, self.rng
        blocks = self.doc["blocks"]
        total = sum(blocks)
        steps = []
        forms = ["data", "string", "file", "stream", "path", "pathlib"]
        yforms = ["file", "stream", "path", "pathlib"]
        rec = self.record

        def add(route, form, mode, expect, fn, **kw):
            steps.append(lambda: rec(route, form, mode, expect, fn, **kw))
        # full routes ------------------------------------------------------------------
        for form in forms:
            add("TreeList.get", form, "full", None, lambda e, form=form: dp.TreeList.get(**self.kwargs(form)))
        for form in yforms:
            add("yield_from_files", form, "full", None,
                lambda e, form=form: dp.Tree.yield_from_files(files=[self.file_item(form)], **self.kwargs(None)))
        f2 = [rng.choice(yforms), rng.choice(yforms)]
        add("yield_from_files[two-files]", "+".join(f2), "double", None,
            lambda e: dp.Tree.yield_from_files(files=[self.file_item(f2[0]), self.file_item(f2[1])], **self.kwargs(None)))

        def ds_trees(e, ds):
            e["extra"]["sizes"] = [len(tl) for tl in ds.tree_lists]
            return [t for tl in ds.tree_lists for t in tl]
        for form in rng.sample(forms, 3):
            add("DataSet.get", form, "full", None, lambda e, form=form: ds_trees(e, dp.DataSet.get(**self.kwargs(form))))
        # "a full data set" read without its character data holds the same trees
        form = rng.choice(forms)
        add("DataSet.get[exclude_chars]", form, "full", None,
            lambda e, form=form: ds_trees(e, dp.DataSet.get(**self.kwargs(form, exclude_chars=True))))
        # incremental reads: the later reads go into a list / data set that already holds the earlier ones; the third
        # one is an OFFSET read into the list that holds two full reads
        fa, fb, fc = rng.sample(forms, 3)
        third = offset_request(rng, blocks) if total else None

        def tl_sequence():
            tl = dp.TreeList(taxon_namespace=self.container_ns())
            plan = [("TreeList.read", fa, "full", None, {}), ("TreeList.read[2nd]", fb, "full", None, {})]
            if third is not None:
                plan.append(("TreeList.read[3rd](c,t)", fc, "offset", ("slice", third[1], third[2], third[3]), third[0]))
            for route, form, mode, expect, off in plan:
                def tl_read(e, form=form, off=off):
                    held = list(tl)
                    e["extra"]["held"] = len(held)
                    try:
                        e["extra"]["returned"] = tl.read(**self.kwargs(form, ns=False, **off))
                    finally:
                        now = list(tl)
                        e["extra"]["kept"] = len(now) >= len(held) and all(a is b for a, b in zip(held, now))
                    return now[len(held):]
                rec(route, form, mode, expect, tl_read)
        steps.append(tl_sequence)
        fd, fe = rng.sample(forms, 2)
        second_excl = rng.random() < 0.3

        def ds_sequence():
            ds = dp.DataSet()
            if self.ns is not None:
                ds.attach_taxon_namespace(self.ns)
            for k, form in enumerate((fd, fe)):
                extra = {"exclude_chars": True} if (k == 1 and second_excl) else {}

                def ds_read(e, form=form, extra=extra):
                    held = list(ds.tree_lists)
                    held_trees = [list(x) for x in held]
                    try:
                        e["extra"]["returned"] = ds.read(**self.kwargs(form, ns=False, **extra))
                    finally:
                        now = list(ds.tree_lists)
                        e["extra"]["kept"] = (len(now) >= len(held) and all(a is b for a, b in zip(held, now))
                                              and all(len(a) == len(b) and all(x is y for x, y in zip(a, b))
                                                      for a, b in zip(held_trees, [list(x) for x in now])))
                        e["extra"]["sizes"] = [len(x) for x in now[len(held):]]
                    return [t for x in now[len(held):] for t in x]
                rec("DataSet.read" if k == 0 else "DataSet.read[2nd]" + ("[exclude_chars]" if extra else ""), form, "full", None, ds_read)
        steps.append(ds_sequence)
        # offset routes ---------------------------------------------------------------
        starts = [sum(blocks[:c]) for c in range(len(blocks))]
        pairs = [(c, t) for c in range(len(blocks)) for t in range(blocks[c])]
        if len(pairs) > 12 and self.ctx.tier == "quick":
            pairs = rng.sample(pairs, 12)
        for c, t in pairs:
            form = rng.choice(forms)
            add("Tree.get(c,t)", form, "offset", ("index", starts[c] + t, "c=%d,t=%d" % (c, t)),
                lambda e, c=c, t=t, form=form: [dp.Tree.get(**self.kwargs(form, collection_offset=c, tree_offset=t))])
        nonempty = [c for c in range(len(blocks)) if blocks[c]]
        if total:
            form = rng.choice(forms)
            if blocks[0]:
                add("Tree.get()", form, "offset", ("index", 0, "defaults"), lambda e, form=form: [dp.Tree.get(**self.kwargs(form))])
                t = rng.randrange(blocks[0])
                add("Tree.get(t)", form, "offset", ("index", t, "t=%d" % t),
                    lambda e, form=form, t=t: [dp.Tree.get(**self.kwargs(form, tree_offset=t))])
            else:
                self.ctx.note("default-offset-requests-not-made:first-collection-empty")
            c = rng.choice(nonempty)
            add("Tree.get(c)", form, "offset", ("index", starts[c], "c=%d" % c),
                lambda e, form=form, c=c: [dp.Tree.get(**self.kwargs(form, collection_offset=c))])
            # negative offsets are not part of Tree.get's documentation: if it delivers, it has to be the tree that list
            # indexing (and TreeList.get) selects; if it refuses, that is noted only
            off, lo, hi, desc = offset_request(rng, blocks, styles=("c,t", "c,-t", "c,-t"))
            if any(v < 0 for v in off.values()):
                form = rng.choice(forms)
                add("Tree.get(-c,-t)", form, "offset-lenient", ("index", lo, desc),
                    lambda e, form=form, off=off: [dp.Tree.get(**self.kwargs(form, **off))])
        for c in range(len(blocks)):
            form = rng.choice(forms)
            add("TreeList.get(c)", form, "offset", ("slice", starts[c], starts[c] + blocks[c], "c=%d" % c),
                lambda e, c=c, form=form: dp.TreeList.get(**self.kwargs(form, collection_offset=c)))
            if not blocks[c]:
                continue
            t = rng.randrange(blocks[c])
            add("TreeList.get(c,t)", form, "offset", ("slice", starts[c] + t, starts[c] + blocks[c], "c=%d,t=%d" % (c, t)),
                lambda e, c=c, t=t, form=form: dp.TreeList.get(**self.kwargs(form, collection_offset=c, tree_offset=t)))
            k = rng.randint(1, blocks[c])
            cneg = c - len(blocks)
            add("TreeList.get(-c,-t)", form, "offset",
                ("slice", starts[c] + blocks[c] - k, starts[c] + blocks[c], "c=%d,t=-%d" % (cneg, k)),
                lambda e, cneg=cneg, k=k, form=form: dp.TreeList.get(**self.kwargs(form, collection_offset=cneg, tree_offset=-k)))
        if total:
            form = rng.choice(forms)
            if blocks[0]:
                t = rng.randrange(blocks[0])
                add("TreeList.get(t)", form, "offset", ("slice", t, blocks[0], "t=%d" % t),
                    lambda e, form=form, t=t: dp.TreeList.get(**self.kwargs(form, tree_offset=t)))
            # an offset read into a brand-new list (negative offsets and collection-only requests included)
            off, lo, hi, desc = offset_request(rng, blocks)

            def tl_read_ct(e, form=form, off=off):
                tl2 = dp.TreeList(taxon_namespace=self.container_ns())
                try:
                    e["extra"]["returned"] = tl2.read(**self.kwargs(form, ns=False, **off))
                finally:
                    got = list(tl2)
                return got
            add("TreeList.read(c,t)", form, "offset", ("slice", lo, hi, desc), tl_read_ct)
        # one request that addresses nothing, put to every offset route: all have to refuse
        if blocks:
            off, desc = refused_request(rng, blocks)
            form = rng.choice(forms)
            grp = "refused:" + desc
            add("Tree.get(c,t)", form, "refuse", ("none", desc),
                lambda e, form=form, off=off: [dp.Tree.get(**self.kwargs(form, **off))], group=grp)
            add("TreeList.get(c,t)", form, "refuse", ("none", desc),
                lambda e, form=form, off=off: dp.TreeList.get(**self.kwargs(form, **off)), group=grp)

            def tl_read_refused(e, form=form, off=off):
                tl3 = dp.TreeList(taxon_namespace=self.container_ns())
                tl3.read(**self.kwargs(form, ns=False, **off))
                return list(tl3)
            add("TreeList.read(c,t)", form, "refuse", ("none", desc), tl_read_refused, group=grp)
        # every route once on a namespace of its own that the CLIENT hands in still empty: the delivered trees have to
        # live in exactly that object
        if self.nsmode in ("fresh", "shared-empty") and rng.random() < 0.6:
            def own(name, form, fn):
                def step():
                    ns1 = self.fresh_ns()
                    rec(name, form, "full", None, lambda e: fn(ns1), own_ns=ns1)
                steps.append(step)
            probes = []
            form = rng.choice(forms)
            probes.append(("TreeList.get[own-ns]", form,
                           lambda ns1, form=form: dp.TreeList.get(**self.kwargs(form, ns=False, taxon_namespace=ns1))))
            form = rng.choice(forms)
            probes.append(("DataSet.get[own-ns]", form,
                           lambda ns1, form=form: [t for tl in dp.DataSet.get(**self.kwargs(form, ns=False, taxon_namespace=ns1)).tree_lists
                                                   for t in tl]))
            form = rng.choice(yforms)
            probes.append(("yield_from_files[own-ns]", form,
                           lambda ns1, form=form: dp.Tree.yield_from_files(files=[self.file_item(form)],
                                                                           **self.kwargs(None, ns=False, taxon_namespace=ns1))))
            form = rng.choice(forms)

            def tl_read_own(ns1, form=form):
                x = dp.TreeList(taxon_namespace=ns1)
                x.read(**self.kwargs(form, ns=False))
                return list(x)
            probes.append(("TreeList.read[own-ns]", form, tl_read_own))
            form = rng.choice(forms)

            def ds_read_own(ns1, form=form):
                x = dp.DataSet()
                x.attach_taxon_namespace(ns1)
                x.read(**self.kwargs(form, ns=False))
                return [t for tl in x.tree_lists for t in tl]
            probes.append(("DataSet.read[own-ns]", form, ds_read_own))
            chosen = rng.sample(probes, 3)
            for name, form, fn in chosen:
                own(name, form, fn)
            if total and blocks[0]:
                form = rng.choice(forms)

                def tree_get_own(form=form):
                    ns1 = self.fresh_ns()
                    rec("Tree.get()[own-ns]", form, "offset", ("index", 0, "defaults"),
                        lambda e: [dp.Tree.get(**self.kwargs(form, ns=False, taxon_namespace=ns1))], own_ns=ns1)
                steps.append(tree_get_own)
        return steps

    def run_tree_routes(self):
        self.run_steps(self.plan_tree_routes())

    def array_rows(self, ta):
        ns = ta.taxon_namespace
        bit = {}
        for tx in ns:
            bit[ns.taxon_bitmask(tx)] = tx.label
        rows = []
        for i in range(len(ta._tree_split_bitmasks)):
            rows.append({"splits": list(ta._tree_split_bitmasks[i]), "lengths": list(ta._tree_edge_lengths[i]),
                         "weight": ta._tree_weights[i], "leafset": ta._tree_leafset_bitmasks[i], "bits": bit,
                         "rooted": ta._is_rooted_trees, "_ns": ns})
        return rows

    def run_array_routes(self, uniform_rooting):
        dp, rng = self.dp, self.rng
        blocks = self.doc["blocks"]
        total = sum(blocks)
        forms = ["data", "file", "stream", "path"]
        use_w = rng.random() < 0.7
        steps = []
        fa, fb = rng.sample(forms, 2)

        def ta_sequence():
            # the second read goes into the array that already holds the first
            ta = dp.TreeArray(taxon_namespace=self.container_ns(), use_tree_weights=use_w)
            failed = False
            for k, form in enumerate((fa, fb)):
                def ta_read(e, form=form, failed=failed):
                    e["extra"]["prior_error"] = failed
                    try:
                        e["extra"]["returned"] = ta.read(**self.kwargs(form, ns=False))
                    finally:
                        e["extra"]["rows"] = self.array_rows(ta)
                    return e["extra"]["rows"]
                x = self.record("TreeArray.read" if k == 0 else "TreeArray.read[2nd]", form, "array",
                                {"use_weights": use_w, "skip": 0, "files": k + 1}, ta_read)
                failed = failed or x["error"] is not None
        steps.append(ta_sequence)
        first = blocks[0] if blocks else 0
        skip = rng.randint(0, max(0, min(first, total) - 1)) if total else 0
        yf = [rng.choice(["file", "stream", "path", "pathlib"]) for _ in range(rng.choice([1, 2]))]

        def ta_files(e):
            ta = dp.TreeArray(taxon_namespace=self.container_ns(), use_tree_weights=use_w)
            kw = self.kwargs(None, ns=False)
            if skip:
                kw["tree_offset"] = skip
            try:
                ta.read_from_files(files=[self.file_item(f) for f in yf], **kw)
            finally:
                e["extra"]["rows"] = self.array_rows(ta)
            return e["extra"]["rows"]
        steps.append(lambda: self.record("TreeArray.read_from_files", "+".join(yf), "array",
                                         {"use_weights": use_w, "skip": skip, "files": len(yf)}, ta_files))
        if self.nsmode in ("fresh", "shared-empty") and rng.random() < 0.4:
            form = rng.choice(forms)

            def ta_own():
                ns1 = self.fresh_ns()

                def ta_read(e):
                    ta = dp.TreeArray(taxon_namespace=ns1, use_tree_weights=use_w)
                    try:
                        ta.read(**self.kwargs(form, ns=False))
                    finally:
                        e["extra"]["rows"] = self.array_rows(ta)
                    return e["extra"]["rows"]
                self.record("TreeArray.read[own-ns]", form, "array", {"use_weights": use_w, "skip": 0, "files": 1}, ta_read, own_ns=ns1)
            steps.append(ta_own)
        self.run_steps(steps)

    MATRIX_CLASS = {"dna": "DnaCharacterMatrix", "rna": "RnaCharacterMatrix", "protein": "ProteinCharacterMatrix",
                    "standard": "StandardCharacterMatrix", "continuous": "ContinuousCharacterMatrix",
                    "nucleotide": "NucleotideCharacterMatrix", "restriction": "RestrictionSitesCharacterMatrix",
                    "infinite": "InfiniteSitesCharacterMatrix"}

    def run_matrix_routes(self):
        dp, rng = self.dp, self.rng
        forms = ["data", "string", "file", "stream", "path", "pathlib"]
        steps = []
        rec = self.record

        def add(route, form, expect, fn, **kw):
            steps.append(lambda: rec(route, form, "matrix", expect, fn, **kw))
        for form in rng.sample(forms, 3):
            add("DataSet.get.char_matrices", form, None,
                lambda e, form=form: list(dp.DataSet.get(**self.kwargs(form, kind=None)).char_matrices))
        # "a full data set" read without its trees holds the same matrices
        form = rng.choice(forms)
        add("DataSet.get[exclude_trees].char_matrices", form, None,
            lambda e, form=form: list(dp.DataSet.get(**self.kwargs(form, kind=None, exclude_trees=True)).char_matrices))
        fa, fb = rng.sample(forms, 2)
        second_excl = rng.random() < 0.4

        def ds_sequence():
            ds = dp.DataSet()
            if self.ns is not None:
                ds.attach_taxon_namespace(self.ns)
            for k, form in enumerate((fa, fb)):
                extra = {"exclude_trees": True} if (k == 1 and second_excl) else {}

                def ds_read(e, form=form, extra=extra):
                    held = list(ds.char_matrices)
                    try:
                        ds.read(**self.kwargs(form, ns=False, kind=None, **extra))
                    finally:
                        now = list(ds.char_matrices)
                        e["extra"]["kept"] = len(now) >= len(held) and all(a is b for a, b in zip(held, now))
                    return now[len(held):]
                rec("DataSet.read.char_matrices" if k == 0 else "DataSet.read[2nd]%s.char_matrices" % ("[exclude_trees]" if extra else ""),
                    form, "matrix", None, ds_read)
        steps.append(ds_sequence)
        for i, dt in enumerate(self.doc["matrices"]):
            cls = getattr(dp, self.MATRIX_CLASS[dt])
            for form in rng.sample(forms, 3):
                add("CharacterMatrix.get(i)", form, ("index", i, "matrix_offset=%d" % i),
                    lambda e, i=i, form=form, cls=cls: [cls.get(**self.kwargs(form, kind="matrix", matrix_offset=i))])
        if self.doc["matrices"]:
            cls0 = getattr(dp, self.MATRIX_CLASS[self.doc["matrices"][0]])
            form = rng.choice(forms)
            add("CharacterMatrix.get()", form, ("index", 0, "default offset"),
                lambda e, form=form: [cls0.get(**self.kwargs(form, kind="matrix"))])
            if self.nsmode in ("fresh", "shared-empty") and rng.random() < 0.6:
                i = rng.randrange(len(self.doc["matrices"]))
                cls1 = getattr(dp, self.MATRIX_CLASS[self.doc["matrices"][i]])
                form = rng.choice(forms)

                def cm_own(i=i, cls1=cls1, form=form):
                    ns1 = self.fresh_ns()
                    rec("CharacterMatrix.get(i)[own-ns]", form, "matrix", ("index", i, "matrix_offset=%d" % i),
                        lambda e: [cls1.get(**self.kwargs(form, ns=False, kind="matrix", matrix_offset=i, taxon_namespace=ns1))],
                        own_ns=ns1)
                steps.append(cm_own)
                form = rng.choice(forms)

                def ds_own(form=form):
                    ns1 = self.fresh_ns()
                    rec("DataSet.get.char_matrices[own-ns]", form, "matrix", None,
                        lambda e: list(dp.DataSet.get(**self.kwargs(form, ns=False, kind=None, taxon_namespace=ns1)).char_matrices),
                        own_ns=ns1)
                steps.append(ds_own)
        self.run_steps(steps)


# ---------------------------------------------------------------------------------------------------
# offline judgement of a log
def wit(drv, entry, **more):
    d = {"schema": drv.schema, "options": drv.options, "namespace": drv.nsmode, "route": entry["route"],
         "source": entry["source"], "call_no": entry.get("call_no"),
         "namespace_size_before_call": entry["extra"].get("ns_size_before"),
         "route_only_keywords": dict(drv.tree_extra, **drv.matrix_extra),
         "document": drv.text if len(drv.text) < 2500 else drv.text[:2500] + "...",
         "features": drv.doc.get("features")}
    d.update(more)
    return d


def family(route):
    """Tree.get(c,t) / Tree.get() -> Tree.get ; TreeList.read[2nd] -> TreeList.read ;
    DataSet.get[exclude_chars] -> DataSet.get[exclude_chars] (an option variant is a family of its own)"""
    base = route
    for ch in "([":
        k = base.find(ch)
        if k > 0:
            base = base[:k]
    for variant in ("[exclude_chars]", "[exclude_trees]"):
        if variant in route:
            base += variant
    if route.endswith(".char_matrices") or ".char_matrices[" in route:
        if not base.endswith(".char_matrices"):
            base += ".char_matrices"
    return base


def err_disc(err):
    return "%s|%s" % (err[0], err[1])


# options that switch on reader code outside the tree / matrix statements: every violation key of a case that runs
# under one of them carries '|opt:<option>' (see KeyedCtx)
KEY_OPTIONS = ("store_ignored_blocks",)


class KeyedCtx(object):
    """the run context with a discriminator appended to every violation key"""

    def __init__(self, ctx, suffix):
        self._ctx = ctx
        self._suffix = suffix

    def __getattr__(self, name):
        return getattr(self._ctx, name)

    def violation(self, key, what, detail=None):
        self._ctx.violation(key + self._suffix, what, detail)


def raised_key(drv, e):
    """raised-where-others-deliver|<ExcClass>|<innermost function>|<schema>|<route family>|<namespace state>[|several-taxa-blocks]
    namespace state: 'foreign-taxa' = the namespace handed to the route held taxa that are not the document's before
    the case started (modes shared-prepopulated / shared-unrelated); 'own-taxa-only' = the route made its own
    namespace or was handed one that was empty / held only taxa earlier reads of this same document put there."""
    state = "own-taxa-only" if e.get("own_ns") is not None else drv.ns_state
    # a shared namespace that started empty may by now hold MORE taxa than the document has leaf taxa: earlier reads of this
    # same document with suppress_internal_node_taxa=False / suppress_external_node_taxa=True registered its internal node
    # labels as taxa.  For the NTAX accounting of the recorded defect those are taxa "other than the block's own" exactly
    # like a client's foreign taxa (a thorough run on a fresh seed met this; the key said own-taxa-only).
    n_doc = drv.doc.get("n_taxa")
    size = (e.get("extra") or {}).get("ns_size_before")
    if state == "own-taxa-only" and e.get("own_ns") is None and n_doc is not None and size is not None and size > n_doc:
        state = "foreign-taxa"
    # the same accounting inside ONE document and even in a fresh namespace: with suppress_internal_node_taxa=False the
    # internal node labels of a TREES block become taxa, and a DATA block that follows counts them against its NTAX
    # (thorough seed 11).  Own state name, so that the recorded defect is matched by mechanism and nothing else is.
    if (state == "own-taxa-only" and err_disc(e["error"]).startswith("TooManyTaxaError|NexusReader._get_taxon")
            and (drv.options or {}).get("suppress_internal_node_taxa") is False
            and "internal-labels" in (drv.doc.get("features") or ())):
        state = "internal-node-label-taxa"
    key = "raised-where-others-deliver|%s|%s|%s|%s" % (err_disc(e["error"]), drv.schema, family(e["route"]), state)
    if drv.doc.get("taxa_blocks", 0) > 1:
        key += "|several-taxa-blocks"
    return key


def compare_sequences(ctx, drv, entry, got, want, ref_entry, keybase, shared, what):
    """first divergence between two lists of tree records -> one violation; returns True when equal"""
    if len(got) != len(want):
        ctx.violation("%s|count|%s" % (keybase, drv.schema),
                      "%s delivered %d trees, %s %d" % (what, len(got), ref_entry["route"], len(want)),
                      wit(drv, entry, reference=ref_entry["route"] + "/" + ref_entry["source"]))
        return False
    reported = set()
    equal = True
    own = entry.get("own_ns")
    for i, (g, w) in enumerate(zip(got, want)):
        ctx.ev("tree-compared")
        if "_broken" in g or "_broken" in w:
            ctx.violation("%s|malformed-tree|%s" % (keybase, drv.schema), "record of a delivered tree could not be extracted: %s"
                          % (g.get("_broken") or w.get("_broken")), wit(drv, entry, tree_index=i))
            return False
        # every differing clause is reported once per log entry (its first tree is the witness), so that a known
        # difference in one clause cannot hide a new one in another
        for c in U.CLAUSES:
            if g[c] == w[c] or c in reported:
                continue
            reported.add(c)
            equal = False
            disc = ""
            if c == "tree-label" and g[c] is None and w[c] is not None:
                disc = "|None-instead-of-source-label"
            ctx.violation("%s|%s%s|%s" % (keybase, c, disc, drv.schema),
                          "%s: tree %d differs in %s from %s/%s" % (what, i, c, ref_entry["route"], ref_entry["source"]),
                          wit(drv, entry, tree_index=i, clause=c, got=U.describe(g, c), reference_value=U.describe(w, c),
                              reference=ref_entry["route"] + "/" + ref_entry["source"]))
        if g["shape"] != w["shape"]:
            return False
        if own is not None:
            # a namespace the client handed in (empty): the tree has to live in that very object, with taxa of that object
            ctx.ev("client-namespace-judged")
            members = set(id(t) for t in own)
            if g["_ns"] is not own:
                ctx.violation("%s|tree-not-attached-to-client-namespace|empty-at-call|%s" % (keybase, drv.schema),
                              "%s: tree %d references another TaxonNamespace than the (empty) one the client passed in" % (what, i),
                              wit(drv, entry, tree_index=i))
                return False
            if any(t is not None and id(t) not in members for t in g["_taxa"]):
                ctx.violation("%s|taxa-not-in-client-namespace|empty-at-call|%s" % (keybase, drv.schema),
                              "%s: tree %d carries Taxon objects that are not members of the namespace the client passed in" % (what, i),
                              wit(drv, entry, tree_index=i))
                return False
        elif shared:
            ctx.ev("taxon-identity-judged")
            if entry["extra"].get("ns_size_before") == 0:
                ctx.ev("first-call-on-empty-shared-namespace-judged:%s" % family(entry["route"]))
            if g["_ns"] is not drv.ns:
                ctx.violation("%s|tree-not-attached-to-shared-namespace|%s" % (keybase, drv.schema),
                              "%s: tree %d references another TaxonNamespace than the one passed in" % (what, i),
                              wit(drv, entry, tree_index=i))
                return False
            for k, (a, b) in enumerate(zip(g["_taxa"], w["_taxa"])):
                if a is not b:
                    same_label = a is not None and b is not None and a.label == b.label
                    ctx.violation("%s|taxon-identity|%s|%s" % (keybase, "new-taxon-object-with-same-label" if same_label else "other-taxon",
                                                               drv.schema),
                                  "%s: tree %d node %d is attached to a different Taxon object than in %s although all calls "
                                  "share one namespace" % (what, i, k, ref_entry["route"]),
                                  wit(drv, entry, tree_index=i, node=k, label=getattr(a, "label", None),
                                      namespace_labels=[t.label for t in drv.ns][:40]))
                    return False
    return equal


def judge_recreated(ctx, drv, log, shared):
    """a call that re-creates taxa its namespace already holds is the culprit; after it "the same taxon" is no longer
    well defined, so identity is not compared for this document"""
    for e in log:
        if e["own_ns"] is None and drv.ns is None:
            continue
        ctx.ev("namespace-growth-judged")
        if e["extra"].get("recreated"):
            ctx.violation("%s|re-created-existing-taxa|%s" % (family(e["route"]), drv.schema),
                          "%s(%s) added new Taxon objects to the namespace it was given for labels it already held: %s"
                          % (e["route"], e["source"], e["extra"]["recreated"][:6]),
                          wit(drv, e, namespace_labels=[t.label for t in (e["own_ns"] if e["own_ns"] is not None else drv.ns)][:40]))
            if e["own_ns"] is None:
                shared = False
    return shared


def judge_kept(ctx, drv, e):
    """incremental reads: what the container held before the read is still there, same objects, same order"""
    if "kept" not in e["extra"]:
        return
    ctx.ev("earlier-content-judged")
    if e["extra"]["kept"] is False:
        ctx.violation("%s|earlier-content-changed-by-later-read|%s" % (family(e["route"]), drv.schema),
                      "%s(%s): the trees / matrices the container held before this read are no longer its first elements"
                      % (e["route"], e["source"]), wit(drv, e, held_before=e["extra"].get("held"), expect=e["expect"]))


def judge_trees(ctx, drv):
    log = drv.entries("full", "double", "offset", "offset-lenient", "refuse")
    for e in log:
        if e["budget"]:
            ctx.note("route-hit-step-budget:not-judged:%s" % family(e["route"]))
    log = [e for e in log if not e["budget"]]
    fulls = [e for e in log if e["mode"] == "full" and e["own_ns"] is None]
    ref_entry = None
    for e in fulls:
        if e["error"] is None:
            ref_entry = e
            break
    shared = drv.ns is not None
    if ref_entry is None:
        delivering = [e for e in log if e["error"] is None and e["records"] and e["mode"] != "refuse"]
        if not delivering:
            ctx.ev("all-routes-raised")
            ctx.note("all-routes-raised:%s:%s" % (drv.schema, fulls[0]["error"][0] if fulls else "?"))
            return None
    want = ref_entry["records"] if ref_entry is not None else None
    blocks = drv.doc["blocks"]
    total = sum(blocks)
    structure_known = True
    if ref_entry is not None and len(want) != total:
        # the template's idea of the block structure is not what the readers see (e.g. a label-only statement without
        # terminator is silently dropped by every route): offsets cannot be mapped, only the full routes are compared
        ctx.note("reference-count-differs-from-template:offset-routes-not-judged")
        structure_known = False
    primary = {}
    shared = judge_recreated(ctx, drv, log, shared)
    if drv.ns is not None and not shared:
        ctx.note("taxon-identity-not-judged:shared-namespace-holds-re-created-taxa")
    refused = {}
    for e in log:
        ctx.ev("route-entry-judged")
        route = e["route"]
        judge_kept(ctx, drv, e)
        if e["mode"] == "refuse":
            refused.setdefault(e["group"], []).append(e)
            continue
        if e["error"] is not None and e["mode"] in ("offset", "offset-lenient") and not structure_known:
            continue
        if e["error"] is not None:
            if e["mode"] == "offset-lenient" and e["error"][0] in ("IndexError", "ValueError", "TypeError"):
                ctx.note("undocumented-negative-offset-refused:%s" % family(route))
                continue
            # a route raises: violation iff some other route delivered
            others = ref_entry if ref_entry is not None else next(
                (x for x in log if x["error"] is None and x["records"] and x["mode"] != "refuse"), None)
            if others is not None and others is not e:
                ctx.violation(raised_key(drv, e),
                              "%s(%s) raised %s although %s delivered %d trees from the same text and options"
                              % (route, e["source"], e["error"][2], others["route"], len(others["records"])),
                              wit(drv, e, delivered_before_raising=len(e["records"]), expect=e["expect"]))
            continue
        if ref_entry is None or e is ref_entry:
            primary.setdefault(route, e)
            continue
        if e["mode"] == "full":
            exp = want
        elif e["mode"] == "double":
            exp = want + want
        elif not structure_known:
            continue
        else:
            x = e["expect"]
            exp = [want[x[1]]] if x[0] == "index" else want[x[1]:x[2]]
            ctx.ev("offset-pair-judged")
            if any(ch == "-" for ch in x[-1]):
                ctx.ev("negative-offset-judged")
            if "held" in e["extra"] and e["extra"]["held"]:
                ctx.ev("offset-read-into-filled-list-judged")
        if "sizes" in e["extra"] and structure_known:
            # the data set's collections are the collections the offset routes address
            ctx.ev("collection-sizes-judged")
            if e["extra"]["sizes"] != list(blocks):
                ctx.violation("%s|collection-sizes|%s" % (family(route), drv.schema),
                              "%s holds tree lists of sizes %s; collection_offset addresses collections of sizes %s"
                              % (route, e["extra"]["sizes"], list(blocks)), wit(drv, e))
        first = primary.get(route)
        if first is not None and e["mode"] == "full":
            # same route, other kind of source: judged against the route's first entry
            ctx.ev("source-form-compared")
            compare_sequences(ctx, drv, e, e["records"], first["records"], first,
                              "source|%s|%s-vs-%s" % (family(route), e["source"], first["source"]), shared,
                              "%s(%s)" % (route, e["source"]))
            continue
        if e["mode"] == "double":
            ctx.ev("yielder-second-file-judged")
            n = len(want)
            ok = compare_sequences(ctx, drv, e, e["records"][:n], want, ref_entry, "yield_from_files|first-of-two-files", shared, route + " first file")
            if ok:
                compare_sequences(ctx, drv, e, e["records"][n:], want, ref_entry, "yield_from_files|second-of-two-files", shared, route + " second file")
            continue
        what = "%s(%s)%s" % (route, e["source"], " " + e["expect"][-1] if e["expect"] else "")
        compare_sequences(ctx, drv, e, e["records"], exp, ref_entry, family(route), shared, what)
        if e["mode"] == "full" and e["own_ns"] is None:
            primary.setdefault(route, e)
        if "returned" in e["extra"] and isinstance(e["extra"]["returned"], int) and e["extra"]["returned"] != len(e["records"]):
            ctx.note("read-return-value-differs-from-trees-added")
    # requests that address nothing: refusing is the documented behaviour (IndexError); judged is the AGREEMENT of the
    # offset routes - one of them delivering trees where the others refuse is a divergence
    if structure_known and ref_entry is not None:
        for grp, es in sorted(refused.items()):
            ctx.ev("refused-request-judged")
            deliver = [x for x in es if x["error"] is None]
            refuse = [x for x in es if x["error"] is not None]
            if deliver and refuse:
                for x in deliver:
                    ctx.violation("%s|delivers-on-request-other-offset-routes-refuse|%s" % (family(x["route"]), drv.schema),
                                  "%s(%s) %s delivered %d trees; %s raised %s on the same request"
                                  % (x["route"], x["source"], x["expect"][-1], len(x["records"]), refuse[0]["route"], refuse[0]["error"][2]),
                                  wit(drv, x, request=x["expect"][-1]))
            elif deliver:
                ctx.note("request-beyond-template-structure-delivered-by-all-offset-routes")
            else:
                kinds = set(x["error"][0] for x in refuse)
                if len(kinds) > 1:
                    ctx.note("refused-request:exception-classes-differ:%s" % "/".join(sorted(kinds)))
    return ref_entry


def judge_arrays(ctx, drv, ref_entry):
    want = ref_entry["records"]
    for e in drv.entries("array"):
        if e["budget"]:
            ctx.note("route-hit-step-budget:not-judged:%s" % family(e["route"]))
            continue
        ctx.ev("route-entry-judged")
        if e["extra"].get("prior_error"):
            ctx.note("treearray-second-read-not-judged:first-read-raised")
            continue
        cfg = e["expect"]
        exp = []
        for _ in range(cfg["files"]):
            exp.extend(want[cfg["skip"]:])
        if e["error"] is not None:
            if all(U.usable_for_array(r) for r in exp):
                ctx.violation(raised_key(drv, e),
                              "%s raised %s although %s delivered %d trees" % (e["route"], e["error"][2], ref_entry["route"], len(want)),
                              wit(drv, e, config=cfg))
            else:
                ctx.note("treearray-raised-on-degenerate-trees-not-judged:%s" % e["error"][0])
            continue
        rows = e["records"]
        fam = family(e["route"])
        if len(rows) != len(exp):
            ctx.violation("%s|count|%s" % (fam, drv.schema),
                          "%s holds %d trees, expected %d (tree_offset=%d, %d read(s)/file(s))" % (e["route"], len(rows), len(exp), cfg["skip"], cfg["files"]),
                          wit(drv, e, config=cfg))
            continue
        if e["own_ns"] is not None and rows:
            ctx.ev("client-namespace-judged")
            if rows[0]["_ns"] is not e["own_ns"]:
                ctx.violation("%s|array-not-attached-to-client-namespace|empty-at-call|%s" % (fam, drv.schema),
                              "%s: the array references another TaxonNamespace than the one the client passed in" % e["route"], wit(drv, e))
                continue
        for i, (row, w) in enumerate(zip(rows, exp)):
            if not U.usable_for_array(w):
                ctx.note("treearray-tree-not-judged:unary/duplicate/<3-leaves")
                continue
            ctx.ev("treearray-tree-judged")
            if cfg["files"] > 1 and i >= len(exp) // cfg["files"]:
                ctx.ev("treearray-later-read-tree-judged")
            rooted = bool(w["rooting"])
            if bool(row["rooted"]) != rooted:
                ctx.violation("%s|rooting|%s" % (fam, drv.schema), "%s: the array says is_rooted_trees=%r, the trees delivered by %s have is_rooted=%r"
                              % (e["route"], row["rooted"], ref_entry["route"], w["rooting"]), wit(drv, e, tree_index=i, config=cfg))
                break
            wexp = 1.0
            if cfg["use_weights"] and w["_weight"] is not None:
                wexp = float(w["_weight"])
            if not U.close(row["weight"], wexp):
                ctx.violation("%s|weight|%s" % (fam, drv.schema), "%s: tree %d has weight %r, reference tree has %s (use_tree_weights=%s)"
                              % (e["route"], i, row["weight"], w["weight"], cfg["use_weights"]), wit(drv, e, tree_index=i, config=cfg))
                break
            sl = U.expected_split_lengths(w, rooted)
            full = frozenset(n[0] for n in ref.leaves(w["_spec"]))

            def labels(mask):
                out = set()
                b = 1
                while b <= mask:
                    if mask & b:
                        out.add(row["bits"].get(b, "<bit %d>" % b))
                    b <<= 1
                return frozenset(out)
            if labels(row["leafset"]) != full:
                ctx.violation("%s|leafset|%s" % (fam, drv.schema), "%s: tree %d has another leaf set than the tree delivered by %s"
                              % (e["route"], i, ref_entry["route"]),
                              wit(drv, e, tree_index=i, config=cfg, got=sorted(map(str, labels(row["leafset"]))), want=sorted(map(str, full))))
                break
            got = {}
            for m, ln in zip(row["splits"], row["lengths"] or [None] * len(row["splits"])):
                side = labels(m)
                k = side if rooted else ref.usplit(side & full if side else side, full)
                got[k] = (got.get(k, 0) + ln) if ln is not None else got.get(k, 0)
            if set(got) != set(sl):
                ctx.violation("%s|split-set|%s" % (fam, drv.schema), "%s: tree %d has another split set than the tree delivered by %s"
                              % (e["route"], i, ref_entry["route"]),
                              wit(drv, e, tree_index=i, config=cfg, tree=ref.to_newick(w["_spec"]),
                                  extra=sorted(sorted(map(sorted, k)) if not rooted else sorted(k) for k in set(got) - set(sl))[:5],
                                  missing=sorted(sorted(map(sorted, k)) if not rooted else sorted(k) for k in set(sl) - set(got))[:5]))
                break
            if ref.has_all_lengths(w["_spec"]) and row["lengths"]:
                bad = [k for k in sl if not U.close(sl[k], got[k])]
                if bad:
                    ctx.violation("%s|split-lengths|%s" % (fam, drv.schema), "%s: tree %d edge lengths differ from the tree delivered by %s"
                                  % (e["route"], i, ref_entry["route"]),
                                  wit(drv, e, tree_index=i, config=cfg, tree=ref.to_newick(w["_spec"]),
                                      split=sorted(map(sorted, bad[0])) if not rooted else sorted(bad[0]), got=got[bad[0]], want=sl[bad[0]]))
                    break


def judge_matrices(ctx, drv):
    log = drv.entries("matrix")
    for e in log:
        if e["budget"]:
            ctx.note("route-hit-step-budget:not-judged:%s" % family(e["route"]))
    log = [e for e in log if not e["budget"]]
    # "the matrix found in the data set": the first data-set read that delivered; a data set read WITHOUT its trees is
    # the reference when the full one cannot be read (it also parses the TREES blocks, which a matrix read skips)
    ref_entry = next((e for e in log if e["route"] == "DataSet.get.char_matrices" and e["error"] is None), None)
    if ref_entry is None:
        ref_entry = next((e for e in log if e["route"] == "DataSet.get[exclude_trees].char_matrices" and e["error"] is None), None)
        if ref_entry is not None:
            ctx.note("matrix-reference-is-the-data-set-read-without-trees:full-data-set-read-raised")
    if ref_entry is None:
        delivering = [e for e in log if e["error"] is None and e["records"]]
        if not delivering:
            ctx.ev("all-routes-raised")
            ctx.note("matrix-all-routes-raised:%s:%s" % (drv.schema, log[0]["error"][0] if log and log[0]["error"] else "?"))
            return
        # no data-set route can read what a matrix route reads, not even the one that skips the trees
        for e in log:
            if e["error"] is not None and e["route"].startswith("DataSet.get[exclude_trees]"):
                ctx.violation(raised_key(drv, e),
                              "%s(%s) raised %s although %s delivered a matrix from the same text and options"
                              % (e["route"], e["source"], e["error"][2], delivering[0]["route"]), wit(drv, e))
        ctx.note("matrix-not-judged:no-data-set-route-delivered:%s" % drv.schema)
        return
    want = ref_entry["records"]
    shared = drv.ns is not None
    shared = judge_recreated(ctx, drv, log, shared)
    if shared and any(e["extra"].get("recreated") for e in drv.log if e["own_ns"] is None):
        shared = False
    if len(want) != len(drv.doc["matrices"]):
        # what the document "should" hold is not the harness's business: only agreement of the routes is judged
        ctx.note("reference-matrix-count-differs-from-template:%s" % drv.schema)
    full_failed = ref_entry["route"] != "DataSet.get.char_matrices"
    for e in log:
        if e is ref_entry:
            continue
        ctx.ev("route-entry-judged")
        judge_kept(ctx, drv, e)
        fam = family(e["route"])
        if e["error"] is not None:
            if full_failed and e["route"].startswith("DataSet") and "exclude_trees" not in e["route"]:
                # every full data-set read fails on this document (its TREES blocks): agreement among the full reads
                ctx.note("full-data-set-read-raised:matrix-routes-judged-against-read-without-trees")
                continue
            ctx.violation(raised_key(drv, e),
                          "%s(%s) raised %s although %s delivered %d matrices" % (e["route"], e["source"], e["error"][2],
                                                                                 ref_entry["route"], len(want)), wit(drv, e, expect=e["expect"]))
            continue
        if e["expect"] is None:
            exp = want
        else:
            if e["expect"][1] >= len(want):
                ctx.violation("%s|delivers-matrix-beyond-those-in-the-data-set|%s" % (fam, drv.schema),
                              "%s(%s) delivered a matrix for %s, but %s holds only %d matrices"
                              % (e["route"], e["source"], e["expect"][-1], ref_entry["route"], len(want)), wit(drv, e))
                continue
            exp = [want[e["expect"][1]]]
        got = e["records"]
        if len(got) != len(exp):
            ctx.violation("%s|count|%s" % (fam, drv.schema), "%s delivered %d matrices, %s %d" % (e["route"], len(got), ref_entry["route"], len(exp)),
                          wit(drv, e))
            continue
        own = e["own_ns"]
        for i, (g, w) in enumerate(zip(got, exp)):
            ctx.ev("matrix-compared")
            if "_broken" in g or "_broken" in w:
                ctx.violation("%s|malformed-matrix|%s" % (fam, drv.schema), "record of a delivered matrix could not be extracted: %s"
                              % (g.get("_broken") or w.get("_broken")), wit(drv, e))
                break
            c = U.matrix_difference(g, w)
            if c is not None:
                ctx.violation("%s|%s|%s" % (fam, c, drv.schema), "%s(%s) %s: matrix differs in %s from the matrix in %s"
                              % (e["route"], e["source"], e["expect"][-1] if e["expect"] else "", c, ref_entry["route"]),
                              wit(drv, e, clause=c, got=U.describe(g, c), reference_value=U.describe(w, c)))
                break
            if own is not None:
                ctx.ev("client-namespace-judged")
                members = set(id(t) for t in own)
                if g["_ns"] is not own:
                    ctx.violation("%s|matrix-not-attached-to-client-namespace|empty-at-call|%s" % (fam, drv.schema),
                                  "%s: matrix references another TaxonNamespace than the (empty) one the client passed in" % e["route"], wit(drv, e))
                    break
                if any(id(t) not in members for t in g["_taxa"]):
                    ctx.violation("%s|taxa-not-in-client-namespace|empty-at-call|%s" % (fam, drv.schema),
                                  "%s: matrix rows belong to Taxon objects that are not members of the namespace the client passed in" % e["route"],
                                  wit(drv, e))
                    break
            elif shared:
                ctx.ev("taxon-identity-judged")
                if e["extra"].get("ns_size_before") == 0:
                    ctx.ev("first-call-on-empty-shared-namespace-judged:%s" % fam)
                if g["_ns"] is not drv.ns:
                    ctx.violation("%s|matrix-not-attached-to-shared-namespace|%s" % (fam, drv.schema),
                                  "%s: matrix references another TaxonNamespace than the one passed in" % e["route"], wit(drv, e))
                    break
                if any(a is not b for a, b in zip(g["_taxa"], w["_taxa"])):
                    ctx.violation("%s|taxon-identity|%s" % (fam, drv.schema),
                                  "%s: matrix rows are attached to other Taxon objects than in %s although all calls share one namespace"
                                  % (e["route"], ref_entry["route"]), wit(drv, e, namespace_labels=[t.label for t in drv.ns][:40]))
                    break
    if shared and ref_entry["records"] and ref_entry["extra"].get("ns_size_before") is not None:
        # the reference itself: attached to the shared namespace
        for g in ref_entry["records"]:
            if "_broken" not in g and g["_ns"] is not drv.ns:
                ctx.violation("%s|matrix-not-attached-to-shared-namespace|%s" % (family(ref_entry["route"]), drv.schema),
                              "%s: matrix references another TaxonNamespace than the one passed in" % ref_entry["route"], wit(drv, ref_entry))
                break


# ---------------------------------------------------------------------------------------------------
def ascii_safe(text):
    try:
        text.encode(locale.getpreferredencoding(False))
        return text
    except (UnicodeError, LookupError):
        return text.encode("ascii", "replace").decode("ascii")


def install_counters(ctx, hooks):
    """call counters on the anchored functions (evidence that the monitors watched the shared statement parser
    being driven by the different front ends)"""
    from dendropy.dataio import newickreader, nexusreader, nexusyielder, nexmlreader
    hooks.install(newickreader.NewickReader, "_parse_tree_statement", outermost_only=False)
    hooks.install(nexusreader.NexusReader, "_parse_trees_block", outermost_only=False)
    hooks.install(nexusreader.NexusReader, "_parse_taxa_block", outermost_only=False)
    hooks.install(nexusyielder.NexusTreeDataYielder, "_yield_from_trees_block", outermost_only=False)
    hooks.install(nexmlreader._NexmlTreeParser, "build_tree", outermost_only=False)


def run_document(ctx, doc, options, nsmode, rng, sample=False):
    tmp = tempfile.mkdtemp(prefix="vf-c13-")
    drv = None
    try:
        doc = dict(doc, text=ascii_safe(doc["text"]))
        with Hooks(ctx) as hooks:
            install_counters(ctx, hooks)
            drv = Driver(ctx, doc, options, nsmode, tmp, rng)
            suffix = "".join("|opt:" + k for k in KEY_OPTIONS if options.get(k))
            jctx = KeyedCtx(ctx, suffix) if suffix else ctx
            if nsmode == "shared-prepopulated":
                drv.prepopulate()

            def tree_phase():
                drv.run_tree_routes()
                ref_entry = judge_trees(jctx, drv)
                if ref_entry is not None and ref_entry["records"]:
                    recs = ref_entry["records"]
                    if len(set(r["rooting"] for r in recs)) == 1 and "_broken" not in recs[0]:
                        drv.run_array_routes(True)
                        judge_arrays(jctx, drv, ref_entry)
                    else:
                        ctx.note("treearray-not-run:mixed-rooting-states")

            def matrix_phase():
                drv.run_matrix_routes()
                judge_matrices(jctx, drv)
            phases = []
            # a document without a single tree still goes through the full tree routes (they all deliver nothing);
            # Newick always has a statement
            if doc["blocks"] or doc["matrices"]:
                phases.append(tree_phase)
            if doc["matrices"]:
                phases.append(matrix_phase)
                if rng.random() < 0.5:
                    # the matrix routes get the first turn on the (empty) shared namespace
                    phases.reverse()
                    ctx.ev("matrix-routes-before-tree-routes")
            try:
                for ph in phases:
                    ph()
            finally:
                drv.close()
            if drv.budget_hit:
                ctx.mark_inconclusive("a route exceeded the step budget (%d): its entry was not judged" % STEP_LIMIT)
        nt = sum(doc["blocks"])
        if nt >= 2 or len(doc["blocks"]) >= 2 or doc["matrices"]:
            ctx.nontrivial((doc["schema"], doc["text"], sorted(options.items()), nsmode))
        for f in doc.get("features", []):
            ctx.state((doc["schema"], f, nsmode))
        for k, v in options.items():
            ctx.state(("option", doc["schema"], k, v))
        for k in sorted(dict(drv.tree_extra, **drv.matrix_extra)):
            ctx.state(("route-only-option", doc["schema"], k))
        if sample:
            ctx.sample({"schema": doc["schema"], "options": options, "namespace": nsmode, "blocks": doc["blocks"],
                        "matrices": doc["matrices"], "routes_logged": len(drv.log),
                        "call_order": [e["route"] for e in drv.log][:12],
                        "document": doc["text"][:700]})
    finally:
        shutil.rmtree(tmp, ignore_errors=True)


NL_NEXUS = ("#NEXUS%(nl)sBEGIN TAXA;%(nl)s DIMENSIONS NTAX=3;%(nl)s TAXLABELS A 'b%(nl)sc' D;%(nl)sEND;%(nl)s"
            "BEGIN CHARACTERS;%(nl)s DIMENSIONS NCHAR=3;%(nl)s FORMAT DATATYPE=DNA;%(nl)s MATRIX%(nl)s  A ACG%(nl)s  'b%(nl)sc' A[in%(nl)srow]CT%(nl)s"
            "  D ACC%(nl)s ;%(nl)sEND;%(nl)s"
            "BEGIN TREES;%(nl)s TREE t = [tree%(nl)scomment] (A:1,'b%(nl)sc':2,D:3)[x%(nl)sy];%(nl)sEND;%(nl)s")
NL_NEWICK = "[line one%(nl)sline two](A:1,'b%(nl)sc':2,D:3)[node%(nl)scomment]:0;%(nl)s(A,'b%(nl)sc',(D,E)[in%(nl)sner]);%(nl)s"


def newline_probe(ctx):
    """Line breaks INSIDE comments and quoted labels.  A path and an already open text file are the same file read
    through Python's text layer, so every route must deliver identical records from path= (str and pathlib) and from
    stream=open(path) (judged) - also the routes that open files themselves (Tree.yield_from_files,
    TreeArray.read_from_files).  A string keeps CR / CR LF where a file read translates them to LF: that difference is
    recorded only."""
    import dendropy
    tmp = tempfile.mkdtemp(prefix="vf-c13-")
    try:
        for nl in ("\r\n", "\r", "\n"):
            texts = {"newick": NL_NEWICK % {"nl": nl}, "nexus": NL_NEXUS % {"nl": nl}}
            for schema, text in sorted(texts.items()):
                p = os.path.join(tmp, "nl.%s" % schema)
                with open(p, "w", newline="") as f:
                    f.write(text)

                def tl_read(**kw):
                    x = dendropy.TreeList()
                    x.read(schema=schema, **kw)
                    return list(x)

                def ds_read(**kw):
                    x = dendropy.DataSet()
                    x.read(schema=schema, **kw)
                    return [t for tl in x.tree_lists for t in tl]

                def src_item(kw):
                    # the file-list routes take the path / open file as an item of files=
                    return kw.get("path", kw.get("stream"))

                def array_summary(ta):
                    # per tree: its splits as label sets (labels carry the line break) with their lengths
                    ns = ta.taxon_namespace
                    bit = [(ns.taxon_bitmask(tx), tx.label) for tx in ns]
                    out = []
                    for row, ln in zip(ta._tree_split_bitmasks, ta._tree_edge_lengths):
                        pairs = sorted((tuple(sorted(str(lab) for b, lab in bit if m & b)), repr(x))
                                       for m, x in zip(row, ln or [None] * len(row)))
                        out.append({"splits": tuple(q[0] for q in pairs), "lengths": tuple(q[1] for q in pairs)})
                    return out

                def ta_files(**kw):
                    ta = dendropy.TreeArray()
                    ta.read_from_files(files=[src_item(kw)], schema=schema)
                    return array_summary(ta)

                def ta_read(**kw):
                    ta = dendropy.TreeArray()
                    ta.read(schema=schema, **kw)
                    return array_summary(ta)
                tree_rec = U.tree_record
                routes = [("Tree.get", lambda **kw: [dendropy.Tree.get(schema=schema, **kw)], tree_rec, U.CLAUSES),
                          ("TreeList.get", lambda **kw: list(dendropy.TreeList.get(schema=schema, **kw)), tree_rec, U.CLAUSES),
                          ("TreeList.read", tl_read, tree_rec, U.CLAUSES),
                          ("DataSet.get", lambda **kw: [t for tl in dendropy.DataSet.get(schema=schema, **kw).tree_lists for t in tl],
                           tree_rec, U.CLAUSES),
                          ("DataSet.read", ds_read, tree_rec, U.CLAUSES),
                          ("yield_from_files", lambda **kw: list(dendropy.Tree.yield_from_files(files=[src_item(kw)], schema=schema)),
                           tree_rec, U.CLAUSES),
                          ("TreeArray.read", ta_read, lambda x: x, ("splits", "lengths")),
                          ("TreeArray.read_from_files", ta_files, lambda x: x, ("splits", "lengths"))]
                if schema == "nexus":
                    routes.append(("CharacterMatrix.get", lambda **kw: [dendropy.DnaCharacterMatrix.get(schema=schema, **kw)],
                                   U.matrix_record, U.MATRIX_CLAUSES))
                    routes.append(("DataSet.get.char_matrices", lambda **kw: list(dendropy.DataSet.get(schema=schema, **kw).char_matrices),
                                   U.matrix_record, U.MATRIX_CLAUSES))
                for name, fn, rec, clauses in routes:
                    try:
                        with open(p, "r") as f:
                            via_stream = [rec(t) for t in fn(stream=f)]
                        via_path = [rec(t) for t in fn(path=p)]
                        via_pathlib = [rec(t) for t in fn(path=pathlib.Path(p))]
                        via_string = None
                        if not name.endswith("_files"):
                            via_string = [rec(t) for t in fn(data=text)]
                    except core.CaseTimeout:
                        raise
                    except Exception as x:
                        ctx.unexpected("newline-probe:%s" % name, x, {"schema": schema, "text": text})
                        continue
                    for form, via in (("path", via_path), ("pathlib", via_pathlib)):
                        ctx.ev("newline-probe-judged")
                        diff = [c for a, b in zip(via, via_stream) for c in clauses if a[c] != b[c]]
                        if len(via) != len(via_stream) or diff:
                            ctx.violation("source|%s|%s-vs-open-file|line-break-inside-comment-or-label|%s" % (name, form, schema),
                                          "%s delivers different %s from path= (%s) than from the same file opened by the caller"
                                          % (name, sorted(set(diff)) or "counts", form),
                                          {"schema": schema, "text": text, "line_break": repr(nl),
                                           "path": [U.public(r) for r in via][:1], "stream": [U.public(r) for r in via_stream][:1]})
                    if via_string is not None:
                        sdiff = [c for a, b in zip(via_path, via_string) for c in clauses if a[c] != b[c]]
                        if sdiff:
                            ctx.note("line-break-inside-comment:string-and-path-differ(universal-newlines):%s" % repr(nl))
    finally:
        shutil.rmtree(tmp, ignore_errors=True)


def nexml_chars_document(ctx, rng, nl):
    """NeXML text with character matrices: a templated NEXUS document (no anonymous multi-state cells) converted
    once by the library's writer - only a source of text; the routes are then compared on that text."""
    import dendropy
    d = U.nexus_doc(rng, hostile=False, nl="\n", with_chars=True, allow_multistate=False, allow_multi_taxa=False)
    try:
        ds = dendropy.DataSet.get(data=d["text"], schema="nexus")
        text = ds.as_string(schema="nexml")
        dendropy.DataSet.get(data=text, schema="nexml")   # the writer's output is not always readable (C09's business)
    except core.CaseTimeout:
        raise
    except Exception as x:
        ctx.note("nexml-chars-document-not-producible:%s" % type(x).__name__)
        return None
    return {"schema": "nexml", "text": text, "blocks": [len(tl) for tl in ds.tree_lists],
            "features": ["chars-via-writer"] + d["features"], "matrices": [cm.data_type for cm in ds.char_matrices]}


def run_case(case, ctx):
    rng = random.Random("%s/%s" % (case["seed"], sorted(case.items())))
    kind = case["kind"]
    if kind == "directed":
        d = [x for x in DIRECTED if x[0] == case["name"]][0]
        doc = {"schema": d[1], "text": d[2], "blocks": d[3], "matrices": d[4], "features": ["directed:" + d[0]]}
        doc.update(DIRECTED_META.get(d[0], {}))
        if d[1] == "nexml-via-writer":
            # set-up, not a route: a reader / writer exception here says nothing about two routes disagreeing
            import dendropy
            doc["schema"] = "nexml"
            try:
                doc["text"] = dendropy.DataSet.get(data=d[2], schema="nexus").as_string(schema="nexml")
            except core.CaseTimeout:
                raise
            except Exception as x:
                ctx.note("directed-nexml-via-writer-not-producible:%s:%s" % (d[0], core.exc_key(x)))
                ctx.mark_inconclusive("set-up of directed case %s failed (%s): the case was not run" % (d[0], core.exc_brief(x)))
                return
        ctx.ev("directed-case-run")
        run_document(ctx, doc, d[5], d[6], rng, sample=True)
        return
    if kind == "newline-probe":
        newline_probe(ctx)
        return
    nl = rng.choice(["\n", "\n", "\n", "\r\n", "\r"])
    nsmode = rng.choice(["fresh", "fresh", "shared-empty", "shared-empty", "shared-prepopulated", "shared-unrelated"])
    hostile = rng.random() < 0.8
    if kind == "doc":
        schema = rng.choice(["newick", "newick", "nexus", "nexus", "nexus", "nexml", "nexml"])
        options, force = make_options(rng, schema)
        if schema == "newick":
            doc = U.newick_doc(rng, hostile, nl, force)
        elif schema == "nexus":
            doc = U.nexus_doc(rng, hostile, nl, force)
        else:
            doc = U.nexml_doc(rng, hostile, nl)
    else:
        schema = rng.choice(["nexus", "nexus", "nexus", "nexus", "nexml", "nexml-hand-written"])
        options, force = make_options(rng, "nexml" if schema.startswith("nexml") else schema)
        for k in ("edge_length_type", "suppress_edge_lengths"):
            options.pop(k, None)
        if schema == "nexus":
            doc = U.nexus_doc(rng, hostile, nl, force, with_chars=True)
        elif schema == "nexml-hand-written":
            doc = U.nexml_chars_doc(rng, hostile, nl)
        else:
            doc = nexml_chars_document(ctx, rng, nl)
            if doc is None:
                return
    if options.get("case_sensitive_taxon_labels") and nsmode == "fresh" and rng.random() < 0.8:
        nsmode = "shared-empty"      # the fresh / case-sensitive combination is a directed case
    run_document(ctx, doc, options, nsmode, rng, sample=(case["i"] < 4))
