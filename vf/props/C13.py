"""C13  All ways of reading the same source deliver the same data.

One driver reads the SAME document text (Newick, NEXUS or NeXML, produced as text by the templates in
_c13_util.py - several TREES blocks, TRANSLATE tables, comments everywhere, [&W] weights, mixed [&R]/[&U],
metadata comments, blank statements, several <trees>/<otus> elements, CR / CRLF line ends) with ONE option set
through every route and every kind of source and appends one log entry per call:

    full routes     TreeList.get | TreeList.read (twice into one list) | Tree.yield_from_files (also two files in a
                    row) | DataSet.get | DataSet.read (into a data set that already holds a previous read)
    offset routes   Tree.get(collection_offset, tree_offset) for every valid pair (+ defaults) | TreeList.get /
                    TreeList.read with collection_offset / tree_offset (negative offsets as documented)
    array routes    TreeArray.read | TreeArray.read_from_files (with and without tree_offset)
    matrix routes   <Type>CharacterMatrix.get(matrix_offset=i)  against  DataSet.get(...).char_matrices[i]
    sources         data= / string= (text), file= (io.StringIO), stream= (open file), path= (str and pathlib)

Each entry holds a canonical record per delivered tree, read from the raw fields (vf.bridge.extract): ordered
shape, taxon label / node label / edge length (repr, so 1 != 1.0) per pre-order node, rooting flag, weight, tree
label, tree comments and annotations, per-node and per-edge comments / annotations / labels, and the Taxon objects.
The verdict is an OFFLINE comparison of the log (judge()): the first full route that delivered is the reference;
for every other entry each differing clause is reported once, the first tree that shows it being the witness (so a
known difference in one clause cannot hide a new one in another).

  count / order     same number of trees, i-th tree equal to i-th tree (offset routes: the documented slice)
  clauses           shape, taxon-labels, node-labels, lengths, rooting, weight, tree-label, comments, annotations,
                    node-comments, node-annotations, edge-labels, edge-annotations   (annotations as sorted multisets)
  raised            a route raises where another route delivers (key carries exception class + innermost function)
  taxon-identity    under a namespace shared by all calls: the Taxon object on every node IS the reference's
  array             per tree: split set, per-split length and weight equal the values computed by vf.ref from the
                    reference route's tree (splits translated through TaxonNamespace.taxon_bitmask)
  matrix            class, data type, label, row taxa, cells (symbol, kind, member symbols), state alphabets,
                    character subsets, comments, annotations; under a shared namespace identity of the row taxa

Soundness limits actually implemented
  * only options that every route accepts are varied; every route of a case gets the same options;
  * comments that belong to a tree LIST / data set (before the first TREE of a block, between blocks) are not
    compared - the iterator has nowhere to put them;
  * the order of annotations parsed from ONE metadata comment is arbitrary in the library (a Python set of
    id-hashed objects): annotations are compared as sorted multisets;
  * generated comments / quoted labels never contain line breaks: Python's universal-newline translation makes
    path= and an open file differ from a *string* for CR / CRLF inside a comment (recorded by a probe, not judged);
    the same probe does judge path= against stream=open(path), which are the same file;
  * a final statement without ';' always ends in an edge length (see _c13_util.newick_body: otherwise the outcome depends
    on the number of trailing white-space characters, which newline translation changes - a tokenizer matter);
  * numeric taxon tokens are only generated where their meaning cannot depend on what an earlier call left in
    the shared namespace (TRANSLATE tokens, or taxon numbers with a TAXA block);
  * TreeArray comparison only for trees without outdegree-1 nodes, with >= 3 leaves and a distinct taxon on every
    leaf, and only when all trees of the document have one rooting state (else MixedRootingError is documented);
    lengths only when no edge length is missing;
  * return values of read() (number of trees) are recorded, not judged;
  * all routes raising on a document is agreement (counted as 'all-routes-raised', never a verdict);
  * a matrix is a mapping taxon -> sequence: rows are compared sorted by label (iteration order is the order of the
    namespace, which legitimately depends on whether a route parsed the TREES blocks before the matrix); when
    DataSet.get itself cannot read the document there is no matrix to compare with (noted);
  * offsets are mapped through the block structure the template wrote; if the reference route sees another number
    of trees (a label-only statement without terminator is silently dropped by every route) offset routes are skipped.

Violation keys:  <route family>|<clause>[|discriminator]|<schema>,  source|<route family>|<form>-vs-<form>|<clause>|<schema>,
<route family>|re-created-existing-taxa|<schema>,  raised-where-others-deliver|<ExcClass>|<innermost function>|<schema>.
Directed cases (always first) reproduce the four mechanisms found on the unchanged tree: Tree.get replaces the source's
tree label by None; the NeXML reader re-creates taxa of a namespace handed in by the client; the NEXUS NTAX limit counts
taxa that were in a shared namespace before the read (TooManyTaxaError); TreeList.get / DataSet.get build a
case-insensitive namespace although case_sensitive_taxon_labels=True was requested (ValueError)."""
import io
import locale
import os
import pathlib
import random
import shutil
import tempfile

from .. import ref, core
from ..mon.hooks import Hooks
from ..mon.budget import budget, StepBudgetExceeded
from . import _c13_util as U

PROP = "C13"
LEVEL = "exploration"
TECHNIQUE = ("runtime monitoring: one driver reads the same generated document through every route / source kind, "
             "records canonical per-tree logs; offline pairwise log comparison (first divergence = witness)")
RULE = ("cases = generated document (schema x template features x line ends) x one option set accepted by every route x "
        "namespace mode (fresh per call | one shared, empty | shared, pre-populated | shared, unrelated taxa) ; every case runs all "
        "routes x source kinds x all valid offset pairs; non-trivial = document with >= 2 trees or >= 2 collections or a matrix; "
        "distinct = (document text, options, namespace mode)")
REACH = ["newickreader:NewickReader._parse_tree_statement", "newickreader:NewickReader.tree_iter",
         "nexusreader:NexusReader._parse_trees_block", "nexusreader:NexusReader._parse_translate_statement",
         "nexusyielder:NexusTreeDataYielder._yield_from_trees_block",
         "newickyielder:NewickTreeDataYielder._yield_items_from_stream",
         "nexmlyielder:NexmlTreeDataYielder._yield_items_from_stream", "nexmlreader:NexmlReader._parse_tree_list",
         "_tree:Tree._parse_and_create_from_stream", "_tree:Tree.yield_from_files",
         "treecollectionmodel:TreeList._parse_and_create_from_stream",
         "treecollectionmodel:TreeList._parse_and_add_from_stream", "treecollectionmodel:TreeArray.read_from_files",
         "datasetmodel:DataSet._parse_and_create_from_stream", "datasetmodel:DataSet._parse_and_add_from_stream",
         "charmatrixmodel:CharacterMatrix._parse_and_create_from_stream",
         "basemodel:Deserializable._get_from", "basemodel:Deserializable.get_from_path",
         "basemodel:Deserializable.get_from_stream", "basemodel:Deserializable.get_from_string",
         "basemodel:MultiReadable._read_from", "basemodel:MultiReadable.read_from_path",
         "ioservice:DataYielder.iterate_over_file"]
MIN_EVENTS = {"tree-compared": (50000, 1000000), "route-entry-judged": (20000, 400000),
              "offset-pair-judged": (8000, 150000), "source-form-compared": (5000, 100000),
              "taxon-identity-judged": (20000, 400000), "namespace-growth-judged": (15000, 300000),
              "treearray-tree-judged": (1500, 30000), "matrix-compared": (800, 15000),
              "yielder-second-file-judged": (500, 10000), "newline-probe-judged": (25, 25),
              "hook:NewickReader._parse_tree_statement:call": (60000, 1200000),
              "hook:NexusTreeDataYielder._yield_from_trees_block:call": (3000, 60000),
              "hook:_NexmlTreeParser.build_tree:call": (15000, 300000)}
ASSUMPTIONS = ["documents are text produced by the harness templates; what they mean is never computed by the harness - only "
               "agreement of the routes is judged",
               "records are read from raw fields (_child_nodes, _edge, taxon, _annotations, comments)",
               "TaxonNamespace.taxon_bitmask is taken as the given taxon->bit map when TreeArray contents are translated"]
LEVEL_TEXT = ("A driver pushes each generated document through every reading route and source kind of the real library, logging a "
              "canonical record per delivered tree / matrix; an offline checker compares the logs pairwise.")
LEVEL_NOTE = ("held = no log entry diverged from the reference entry on the documents explored. Trusted: the record extraction "
              "and comparison in vf/props/C13.py + _c13_util.py, vf/bridge.extract, vf/ref.split_lengths.")
CASE_TIMEOUT = 120
STEP_LIMIT = 3000000

NSMODES = ("fresh", "shared-empty", "shared-prepopulated", "shared-unrelated")
ROOTINGS = ("default-unrooted", "default-rooted", "force-unrooted", "force-rooted")

# ---------------------------------------------------------------------------------------------------
# directed documents (witnesses of confirmed findings first)
D_NEXUS_NAMES = ("#NEXUS\nBEGIN TAXA;\n DIMENSIONS NTAX=4;\n TAXLABELS A B C D;\nEND;\nBEGIN TREES;\n"
                 " TREE one = [&R] ((A:1,B:2):3,(C:1,D:1):2);\n TREE two = [&U] (A,(B,(C,D)));\nEND;\n")
D_NEXUS_TWO_BLOCKS = ("#NEXUS\n[file comment]\nBEGIN TAXA;\n DIMENSIONS NTAX=4;\n TAXLABELS A B C D;\nEND;\n[between]\nBEGIN TREES;\n"
                      " [block comment]\n TRANSLATE 1 C, 2 A, 3 D, 4 B;\n"
                      " [pre one] TREE one [mid] = [&R] [&W 1/2] [&k=v] ((1:1,2:2)x:3,(3:1,4:1):2);\n"
                      " [pre two] TREE * two = [&U] (1,(2,(3,4)))[&post=1];\nEND;\nBEGIN TREES;\n"
                      " TREE three = [&R] ((1,2),(3,4));\n TREE four = ((A,C),(B,D));\nEND;\n")
D_NEWICK_CASE = "(A,(b,(C,d)));((a,B),(c,D));\n"
D_NEWICK_MULTI = "[&R] ((A:1,B:2):3,(C:1,D:1):2);;\n\n[&U][&W 1/4] (A,(B,(C,D)))[&x=1];[last] (A,B,C,D);"
D_NEXML = ('<?xml version="1.0" encoding="UTF-8"?>\n<nex:nexml version="0.9" xmlns="http://www.nexml.org/2009" '
           'xmlns:nex="http://www.nexml.org/2009" xmlns:xsi="http://www.w3.org/2001/XMLSchema-instance">\n'
           ' <otus id="o1"><otu id="a" label="A"/><otu id="b" label="B"/><otu id="c" label="C"/></otus>\n'
           ' <trees id="ts1" otus="o1">\n  <tree id="t1" label="first" xsi:type="nex:FloatTree">\n'
           '   <node id="n1" root="true"/><node id="n2" otu="a"/><node id="n3"/><node id="n4" otu="b"/><node id="n5" otu="c"/>\n'
           '   <edge id="e1" source="n1" target="n2" length="1.0"/><edge id="e2" source="n1" target="n3" length="0.5"/>\n'
           '   <edge id="e3" source="n3" target="n4"/><edge id="e4" source="n3" target="n5" length="2"/>\n  </tree>\n </trees>\n'
           ' <trees id="ts2" otus="o1">\n  <tree id="t2" label="second" xsi:type="nex:IntTree">\n'
           '   <node id="m1"/><node id="m2" otu="c"/><node id="m3" otu="a"/>\n'
           '   <edge id="f1" source="m1" target="m2" length="3"/><edge id="f2" source="m1" target="m3" length="4"/>\n  </tree>\n </trees>\n'
           '</nex:nexml>\n')
D_NEXUS_CHARS = ("#NEXUS\nBEGIN TAXA;\n DIMENSIONS NTAX=3;\n TAXLABELS A B 'C c';\nEND;\nBEGIN CHARACTERS;\n TITLE first;\n"
                 " DIMENSIONS NCHAR=6;\n FORMAT DATATYPE=DNA MISSING=? GAP=- MATCHCHAR=.;\n MATRIX\n  A ACGT{AC}-\n  B ..?.(AG)N\n"
                 "  'C c' A.GTRY\n ;\nEND;\nBEGIN TREES;\n TREE t1 = (A,(B,'C c'));\nEND;\nBEGIN CHARACTERS;\n TITLE second;\n"
                 " DIMENSIONS NCHAR=4;\n FORMAT DATATYPE=STANDARD SYMBOLS=\"012\" INTERLEAVE;\n MATRIX\n  A 01\n  B 12\n  'C c' 0?\n\n"
                 "  A 2(01)\n  B 10\n  'C c' {12}-\n ;\nEND;\nBEGIN SETS;\n LINK CHARACTERS = second;\n CHARSET cs1 = 1-2 4;\nEND;\n")

D_NEXUS_DATA_BLOCK = ("#NEXUS\nBEGIN DATA;\n DIMENSIONS NTAX=3 NCHAR=4;\n FORMAT DATATYPE=DNA;\n MATRIX\n  A ACGT\n  B ACGA\n  C AC-T\n ;\nEND;\n"
                      "BEGIN TREES;\n TREE only = [&R] (A,B);\nEND;\n")

DIRECTED = [
    # name, schema, text, blocks, matrices, options, nsmode
    ("tree-get-label", "nexus", D_NEXUS_NAMES, [2], [], {}, "fresh"),
    ("tree-get-label-shared", "nexus", D_NEXUS_NAMES, [2], [], {}, "shared-empty"),
    ("two-blocks-translate", "nexus", D_NEXUS_TWO_BLOCKS, [2, 2], [], {"store_tree_weights": True}, "fresh"),
    ("two-blocks-translate-shared", "nexus", D_NEXUS_TWO_BLOCKS, [2, 2], [], {"store_tree_weights": True}, "shared-empty"),
    ("two-blocks-force-rooted", "nexus", D_NEXUS_TWO_BLOCKS, [2, 2], [], {"rooting": "force-rooted"}, "shared-prepopulated"),
    ("newick-case-sensitive-fresh", "newick", D_NEWICK_CASE, [2], [], {"case_sensitive_taxon_labels": True}, "fresh"),
    ("newick-case-sensitive-shared", "newick", D_NEWICK_CASE, [2], [], {"case_sensitive_taxon_labels": True}, "shared-empty"),
    ("newick-multi", "newick", D_NEWICK_MULTI, [3], [], {"store_tree_weights": True}, "fresh"),
    ("newick-multi-nometa", "newick", D_NEWICK_MULTI, [3], [], {"extract_comment_metadata": False}, "shared-empty"),
    ("nexml-fresh", "nexml", D_NEXML, [1, 1], [], {}, "fresh"),
    ("nexml-shared", "nexml", D_NEXML, [1, 1], [], {}, "shared-empty"),
    ("nexml-shared-prepopulated", "nexml", D_NEXML, [1, 1], [], {}, "shared-prepopulated"),
    ("nexus-unrelated-namespace", "nexus", D_NEXUS_NAMES, [2], [], {}, "shared-unrelated"),
    ("nexus-data-block-unrelated-namespace", "nexus", D_NEXUS_DATA_BLOCK, [1], ["dna"], {}, "shared-unrelated"),
    ("nexus-data-block-fresh", "nexus", D_NEXUS_DATA_BLOCK, [1], ["dna"], {}, "fresh"),
    ("nexus-case-sensitive-fresh", "nexus", D_NEXUS_NAMES, [2], [], {"case_sensitive_taxon_labels": True}, "fresh"),
    # the NEXUS text converted once by the library's NeXML writer (only a source of text with a <characters> element)
    ("nexml-chars-shared", "nexml-via-writer", D_NEXUS_DATA_BLOCK, [1], ["dna"], {}, "shared-empty"),
    ("nexml-chars-fresh", "nexml-via-writer", D_NEXUS_DATA_BLOCK, [1], ["dna"], {}, "fresh"),
    ("nexus-chars", "nexus", D_NEXUS_CHARS, [1], ["dna", "standard"], {}, "fresh"),
    ("nexus-chars-shared", "nexus", D_NEXUS_CHARS, [1], ["dna", "standard"], {}, "shared-empty"),
]


def cases(tier, seed):
    for d in DIRECTED:
        yield {"kind": "directed", "name": d[0], "seed": seed}
    yield {"kind": "newline-probe", "seed": seed}
    n = 1500 if tier == "quick" else 36000
    for i in range(n):
        yield {"kind": "doc", "i": i, "seed": seed}
    n = 350 if tier == "quick" else 8000
    for i in range(n):
        yield {"kind": "chars", "i": i, "seed": seed}


# ---------------------------------------------------------------------------------------------------
def make_options(rng, schema):
    """(options accepted by every route, template constraints that keep the document valid under them)"""
    o, force = {}, {}
    if schema == "nexml":
        if rng.random() < 0.1:
            o["case_sensitive_taxon_labels"] = True
        if rng.random() < 0.1:
            o["ignore_unrecognized_keyword_arguments"] = True
        return o, force
    if rng.random() < 0.5:
        o["rooting"] = rng.choice(ROOTINGS)
    if rng.random() < 0.3:
        o["preserve_underscores"] = rng.random() < 0.7
    if rng.random() < 0.45:
        o["store_tree_weights"] = rng.random() < 0.8
    if rng.random() < 0.3:
        o["extract_comment_metadata"] = rng.random() < 0.6
    if rng.random() < 0.2:
        o["suppress_internal_node_taxa"] = False
        force["taxa_internal"] = True
    if rng.random() < 0.08:
        o["suppress_leaf_node_taxa"] = True
    if rng.random() < 0.12:
        o["case_sensitive_taxon_labels"] = True
    if rng.random() < 0.12:
        o["terminating_semicolon_required"] = False
        if schema == "newick" and rng.random() < 0.7:
            force["no_final_semicolon"] = True
    elif schema == "newick" and rng.random() < 0.02:
        force["no_final_semicolon"] = True     # every route must refuse
    if rng.random() < 0.08:
        o["edge_length_type"] = "int"
        force["lengths"] = rng.choice(["ints", "none"])
    if rng.random() < 0.06:
        o["suppress_edge_lengths"] = True
    return o, force


def real_options(o):
    o = dict(o)
    if o.get("edge_length_type") == "int":
        o["edge_length_type"] = int
    return o


class Entry(dict):
    pass


class Driver(object):
    """reads one document through every route; only records - judge() decides afterwards."""

    def __init__(self, ctx, doc, options, nsmode, tmpdir, rng):
        import dendropy
        self.dp = dendropy
        self.ctx = ctx
        self.doc = doc
        self.text = doc["text"]
        self.schema = doc["schema"]
        self.options = options
        self.nsmode = nsmode
        self.rng = rng
        self.log = []
        self.keep = []        # keeps every delivered object alive until the log has been judged (ids stay unique)
        self.path = os.path.join(tmpdir, "doc.%s" % {"newick": "tre", "nexus": "nex", "nexml": "xml"}[self.schema])
        with open(self.path, "w", newline="") as f:
            f.write(self.text)
        self._open = []
        self.case_sensitive = bool(options.get("case_sensitive_taxon_labels"))
        self.ns = None
        if nsmode != "fresh":
            self.ns = dendropy.TaxonNamespace(is_case_sensitive=self.case_sensitive)
            if nsmode == "shared-unrelated":
                for lab in ("zz unrelated 1", "zz unrelated 2", "zz unrelated 3", "zz unrelated 4", "zz unrelated 5",
                            "zz unrelated 6", "zz unrelated 7", "zz unrelated 8", "zz unrelated 9"):
                    self.ns.new_taxon(label=lab)

    # -- sources ----------------------------------------------------------------------------------
    def source(self, form):
        if form == "data":
            return {"data": self.text}
        if form == "string":
            return {"string": self.text}
        if form == "file":
            return {"file": io.StringIO(self.text)}
        if form == "stream":
            f = open(self.path, "r")
            self._open.append(f)
            return {"stream": f}
        if form == "path":
            return {"path": self.path}
        if form == "pathlib":
            return {"path": pathlib.Path(self.path)}
        raise ValueError(form)

    def file_item(self, form):
        if form == "file":
            return io.StringIO(self.text)
        if form == "stream":
            f = open(self.path, "r")
            self._open.append(f)
            return f
        if form == "path":
            return self.path
        if form == "pathlib":
            return pathlib.Path(self.path)
        raise ValueError(form)

    def close(self):
        for f in self._open:
            try:
                f.close()
            except Exception:
                pass
        self._open = []

    def kwargs(self, form=None, ns=True, **extra):
        kw = real_options(self.options)
        kw["schema"] = self.schema
        if form is not None:
            kw.update(self.source(form))
        if ns and self.ns is not None:
            kw["taxon_namespace"] = self.ns
        kw.update(extra)
        return kw

    # -- recording ----------------------------------------------------------------------------------
    def record(self, route, source, mode, expect, fn):
        """fn() returns an iterable of trees (or matrices / array rows); everything it delivers is recorded,
        also when it raises half way."""
        e = Entry(route=route, source=source, mode=mode, expect=expect, records=[], error=None, extra={})
        got = []
        before = list(self.ns) if self.ns is not None else None
        try:
            with budget(STEP_LIMIT):
                for item in fn(e):
                    got.append(item)
        except StepBudgetExceeded as x:
            e["error"] = ("StepBudgetExceeded", x.where, str(x))
        except core.CaseTimeout:
            raise
        except Exception as x:
            fr = core.innermost_repo_frame(x)
            e["error"] = (type(x).__name__, fr[0] if fr else "<outside-library>", core.exc_brief(x))
        self.keep.append(got)
        if before is not None:
            # Taxon objects this call added to the shared namespace under a label that was already there
            norm = (lambda x: x) if self.case_sensitive else (lambda x: x.lower() if isinstance(x, str) else x)
            known = set(id(t) for t in before)
            old_labels = set(norm(t.label) for t in before)
            e["extra"]["recreated"] = [t.label for t in self.ns if id(t) not in known and norm(t.label) in old_labels]
        for item in got:
            try:
                if mode == "matrix":
                    e["records"].append(U.matrix_record(item))
                elif mode == "array":
                    e["records"].append(item)
                else:
                    e["records"].append(U.tree_record(item))
            except Exception as x:     # malformed object: a record that equals nothing
                e["records"].append({"_broken": "%s: %s" % (type(x).__name__, x)})
        self.log.append(e)
        self.ctx.ev("route-call")
        return e

    # -- routes -------------------------------------------------------------------------------------
    def fresh_ns(self):
        return self.dp.TaxonNamespace(is_case_sensitive=self.case_sensitive)

    def container_ns(self):
        """namespace for containers the HARNESS constructs (TreeList(), TreeArray()): the shared one, or - so that the
        harness does not pair a case-insensitive namespace of its own making with a case-sensitive read - a fresh one"""
        if self.ns is not None:
            return self.ns
        return self.fresh_ns() if self.case_sensitive else None

    def prepopulate(self):
        """shared-prepopulated: the shared namespace already holds the document's labels (learnt from a separate
        fresh read that is not part of the log) in another order, plus unrelated ones."""
        try:
            tl = self.dp.TreeList.get(**self.kwargs("data", ns=False, taxon_namespace=self.fresh_ns()))
            labels = [t.label for t in tl.taxon_namespace]
        except Exception:
            labels = []
        self.rng.shuffle(labels)
        self.ns.new_taxon(label="zz extra first")
        for lab in labels:
            if lab is not None and not self.ns.has_taxon_label(lab):
                self.ns.new_taxon(label=lab)
        self.ns.new_taxon(label="zz extra last")

    def run_tree_routes(self):
        dp, rng = self.dp, self.rng
        blocks = self.doc["blocks"]
        total = sum(blocks)
        if self.nsmode == "shared-prepopulated":
            self.prepopulate()
        forms = ["data", "string", "file", "stream", "path", "pathlib"]
        # full routes ------------------------------------------------------------------
        for form in forms:
            self.record("TreeList.get", form, "full", None,
                        lambda e, form=form: dp.TreeList.get(**self.kwargs(form)))
        yforms = ["file", "stream", "path", "pathlib"]
        for form in yforms:
            self.record("yield_from_files", form, "full", None,
                        lambda e, form=form: dp.Tree.yield_from_files(
                            files=[self.file_item(form)], **self.kwargs(None)))
        f2 = [rng.choice(yforms), rng.choice(yforms)]
        self.record("yield_from_files[two-files]", "+".join(f2), "double", None,
                    lambda e: dp.Tree.yield_from_files(
                        files=[self.file_item(f2[0]), self.file_item(f2[1])],
                        **self.kwargs(None)))
        for form in rng.sample(forms, 3):
            def ds_get(e, form=form):
                ds = dp.DataSet.get(**self.kwargs(form))
                e["extra"]["sizes"] = [len(tl) for tl in ds.tree_lists]
                return [t for tl in ds.tree_lists for t in tl]
            self.record("DataSet.get", form, "full", None, ds_get)
        # incremental reads: the second read goes into a list / data set that already holds the first
        fa, fb = rng.sample(forms, 2)
        tl = dp.TreeList(taxon_namespace=self.container_ns())
        for k, form in enumerate((fa, fb)):
            def tl_read(e, form=form):
                n0 = len(tl)
                e["extra"]["returned"] = tl.read(**self.kwargs(form, ns=False))
                return list(tl)[n0:]
            self.record("TreeList.read" if k == 0 else "TreeList.read[2nd]", form, "full", None, tl_read)
        ds = dp.DataSet()
        if self.ns is not None:
            ds.attach_taxon_namespace(self.ns)
        for k, form in enumerate(rng.sample(forms, 2)):
            def ds_read(e, form=form):
                n0 = len(ds.tree_lists)
                e["extra"]["returned"] = ds.read(**self.kwargs(form, ns=False))
                return [t for x in ds.tree_lists[n0:] for t in x]
            self.record("DataSet.read" if k == 0 else "DataSet.read[2nd]", form, "full", None, ds_read)
        # offset routes ---------------------------------------------------------------
        starts = [sum(blocks[:c]) for c in range(len(blocks))]
        pairs = [(c, t) for c in range(len(blocks)) for t in range(blocks[c])]
        if len(pairs) > 12 and self.ctx.tier == "quick":
            pairs = rng.sample(pairs, 12)
        for c, t in pairs:
            form = rng.choice(forms)
            self.record("Tree.get(c,t)", form, "offset", ("index", starts[c] + t, "c=%d,t=%d" % (c, t)),
                        lambda e, c=c, t=t, form=form: [dp.Tree.get(**self.kwargs(form, collection_offset=c, tree_offset=t))])
        if total:
            form = rng.choice(forms)
            self.record("Tree.get()", form, "offset", ("index", 0, "defaults"),
                        lambda e: [dp.Tree.get(**self.kwargs(form))])
            c = rng.randrange(len(blocks))
            self.record("Tree.get(c)", form, "offset", ("index", starts[c], "c=%d" % c),
                        lambda e: [dp.Tree.get(**self.kwargs(form, collection_offset=c))])
            t = rng.randrange(blocks[0])
            self.record("Tree.get(t)", form, "offset", ("index", t, "t=%d" % t),
                        lambda e: [dp.Tree.get(**self.kwargs(form, tree_offset=t))])
        for c in range(len(blocks)):
            form = rng.choice(forms)
            self.record("TreeList.get(c)", form, "offset", ("slice", starts[c], starts[c] + blocks[c], "c=%d" % c),
                        lambda e, c=c, form=form: dp.TreeList.get(**self.kwargs(form, collection_offset=c)))
            t = rng.randrange(blocks[c])
            self.record("TreeList.get(c,t)", form, "offset", ("slice", starts[c] + t, starts[c] + blocks[c], "c=%d,t=%d" % (c, t)),
                        lambda e, c=c, t=t, form=form: dp.TreeList.get(**self.kwargs(form, collection_offset=c, tree_offset=t)))
            k = rng.randint(1, blocks[c])
            cneg = c - len(blocks)
            self.record("TreeList.get(-c,-t)", form, "offset",
                        ("slice", starts[c] + blocks[c] - k, starts[c] + blocks[c], "c=%d,t=-%d" % (cneg, k)),
                        lambda e, cneg=cneg, k=k, form=form: dp.TreeList.get(**self.kwargs(form, collection_offset=cneg, tree_offset=-k)))
        if total:
            t = rng.randrange(blocks[0])
            form = rng.choice(forms)
            self.record("TreeList.get(t)", form, "offset", ("slice", t, blocks[0], "t=%d" % t),
                        lambda e: dp.TreeList.get(**self.kwargs(form, tree_offset=t)))
            c = rng.randrange(len(blocks))
            t = rng.randrange(blocks[c])
            tl2 = dp.TreeList(taxon_namespace=self.container_ns())

            def tl_read_ct(e):
                e["extra"]["returned"] = tl2.read(**self.kwargs(form, ns=False, collection_offset=c, tree_offset=t))
                return list(tl2)
            self.record("TreeList.read(c,t)", form, "offset", ("slice", starts[c] + t, starts[c] + blocks[c], "c=%d,t=%d" % (c, t)),
                        tl_read_ct)
        self.close()

    def array_rows(self, ta):
        ns = ta.taxon_namespace
        bit = {}
        for tx in ns:
            bit[ns.taxon_bitmask(tx)] = tx.label
        rows = []
        for i in range(len(ta._tree_split_bitmasks)):
            rows.append({"splits": list(ta._tree_split_bitmasks[i]), "lengths": list(ta._tree_edge_lengths[i]),
                         "weight": ta._tree_weights[i], "leafset": ta._tree_leafset_bitmasks[i], "bits": bit,
                         "rooted": ta._is_rooted_trees})
        return rows

    def run_array_routes(self, uniform_rooting):
        dp, rng = self.dp, self.rng
        total = sum(self.doc["blocks"])
        forms = ["data", "file", "stream", "path"]
        use_w = rng.random() < 0.7
        for form in rng.sample(forms, 2):
            def ta_read(e, form=form):
                ta = dp.TreeArray(taxon_namespace=self.container_ns(), use_tree_weights=use_w)
                try:
                    e["extra"]["returned"] = ta.read(**self.kwargs(form, ns=False))
                finally:
                    e["extra"]["rows"] = self.array_rows(ta)
                return e["extra"]["rows"]
            self.record("TreeArray.read", form, "array", {"use_weights": use_w, "skip": 0, "files": 1}, ta_read)
        skip = rng.randint(0, max(0, min(self.doc["blocks"][0] if self.doc["blocks"] else 0, total) - 1)) if total else 0
        yf = [rng.choice(["file", "stream", "path", "pathlib"]) for _ in range(rng.choice([1, 2]))]

        def ta_files(e):
            ta = dp.TreeArray(taxon_namespace=self.container_ns(), use_tree_weights=use_w)
            kw = self.kwargs(None, ns=False)
            if skip:
                kw["tree_offset"] = skip
            try:
                ta.read_from_files(files=[self.file_item(f) for f in yf], **kw)
            finally:
                e["extra"]["rows"] = self.array_rows(ta)
            return e["extra"]["rows"]
        self.record("TreeArray.read_from_files", "+".join(yf), "array", {"use_weights": use_w, "skip": skip, "files": len(yf)}, ta_files)
        self.close()

    MATRIX_CLASS = {"dna": "DnaCharacterMatrix", "rna": "RnaCharacterMatrix", "protein": "ProteinCharacterMatrix",
                    "standard": "StandardCharacterMatrix", "continuous": "ContinuousCharacterMatrix",
                    "nucleotide": "NucleotideCharacterMatrix", "restriction": "RestrictionSitesCharacterMatrix",
                    "infinite": "InfiniteSitesCharacterMatrix"}

    def run_matrix_routes(self):
        dp, rng = self.dp, self.rng
        forms = ["data", "string", "file", "stream", "path", "pathlib"]
        for form in rng.sample(forms, 3):
            def ds_get(e, form=form):
                ds = dp.DataSet.get(**self.kwargs(form))
                return list(ds.char_matrices)
            self.record("DataSet.get.char_matrices", form, "matrix", None, ds_get)
        ds = dp.DataSet()
        if self.ns is not None:
            ds.attach_taxon_namespace(self.ns)

        def ds_read(e):
            ds.read(**self.kwargs(rng.choice(forms), ns=False))
            return list(ds.char_matrices)
        self.record("DataSet.read.char_matrices", "mixed", "matrix", None, ds_read)
        for i, dt in enumerate(self.doc["matrices"]):
            cls = getattr(dp, self.MATRIX_CLASS[dt])
            for form in rng.sample(forms, 3):
                self.record("CharacterMatrix.get(i)", form, "matrix", ("index", i, "matrix_offset=%d" % i),
                            lambda e, i=i, form=form, cls=cls: [cls.get(**self.kwargs(form, matrix_offset=i))])
        if self.doc["matrices"]:
            cls = getattr(dp, self.MATRIX_CLASS[self.doc["matrices"][0]])
            form = rng.choice(forms)
            self.record("CharacterMatrix.get()", form, "matrix", ("index", 0, "default offset"),
                        lambda e: [cls.get(**self.kwargs(form))])
        self.close()


# ---------------------------------------------------------------------------------------------------
# offline judgement of a log
def wit(drv, entry, **more):
    d = {"schema": drv.schema, "options": drv.options, "namespace": drv.nsmode, "route": entry["route"],
         "source": entry["source"], "document": drv.text if len(drv.text) < 2500 else drv.text[:2500] + "...",
         "features": drv.doc.get("features")}
    d.update(more)
    return d


def family(route):
    """Tree.get(c,t) / Tree.get() -> Tree.get ; TreeList.read[2nd] -> TreeList.read"""
    for ch in "([":
        k = route.find(ch)
        if k > 0:
            route = route[:k]
    return route


def err_disc(err):
    return "%s|%s" % (err[0], err[1])


def compare_sequences(ctx, drv, entry, got, want, ref_entry, keybase, shared, what):
    """first divergence between two lists of tree records -> one violation; returns True when equal"""
    if len(got) != len(want):
        ctx.violation("%s|count|%s" % (keybase, drv.schema),
                      "%s delivered %d trees, %s %d" % (what, len(got), ref_entry["route"], len(want)),
                      wit(drv, entry, reference=ref_entry["route"] + "/" + ref_entry["source"]))
        return False
    reported = set()
    equal = True
    for i, (g, w) in enumerate(zip(got, want)):
        ctx.ev("tree-compared")
        if "_broken" in g or "_broken" in w:
            ctx.violation("%s|malformed-tree|%s" % (keybase, drv.schema), "record of a delivered tree could not be extracted: %s"
                          % (g.get("_broken") or w.get("_broken")), wit(drv, entry, tree_index=i))
            return False
        # every differing clause is reported once per log entry (its first tree is the witness), so that a known
        # difference in one clause cannot hide a new one in another
        for c in U.CLAUSES:
            if g[c] == w[c] or c in reported:
                continue
            reported.add(c)
            equal = False
            disc = ""
            if c == "tree-label" and g[c] is None and w[c] is not None:
                disc = "|None-instead-of-source-label"
            ctx.violation("%s|%s%s|%s" % (keybase, c, disc, drv.schema),
                          "%s: tree %d differs in %s from %s/%s" % (what, i, c, ref_entry["route"], ref_entry["source"]),
                          wit(drv, entry, tree_index=i, clause=c, got=U.describe(g, c), reference_value=U.describe(w, c),
                              reference=ref_entry["route"] + "/" + ref_entry["source"]))
        if g["shape"] != w["shape"]:
            return False
        if shared:
            ctx.ev("taxon-identity-judged")
            if g["_ns"] is not drv.ns:
                ctx.violation("%s|tree-not-attached-to-shared-namespace|%s" % (keybase, drv.schema),
                              "%s: tree %d references another TaxonNamespace than the one passed in" % (what, i),
                              wit(drv, entry, tree_index=i))
                return False
            for k, (a, b) in enumerate(zip(g["_taxa"], w["_taxa"])):
                if a is not b:
                    same_label = a is not None and b is not None and a.label == b.label
                    ctx.violation("%s|taxon-identity|%s|%s" % (keybase, "new-taxon-object-with-same-label" if same_label else "other-taxon",
                                                               drv.schema),
                                  "%s: tree %d node %d is attached to a different Taxon object than in %s although all calls "
                                  "share one namespace" % (what, i, k, ref_entry["route"]),
                                  wit(drv, entry, tree_index=i, node=k, label=getattr(a, "label", None),
                                      namespace_labels=[t.label for t in drv.ns][:40]))
                    return False
    return equal


def judge_trees(ctx, drv):
    log = [e for e in drv.log if e["mode"] in ("full", "double", "offset")]
    fulls = [e for e in log if e["mode"] == "full"]
    ref_entry = None
    for e in fulls:
        if e["error"] is None:
            ref_entry = e
            break
    shared = drv.ns is not None
    if ref_entry is None:
        delivering = [e for e in log if e["error"] is None and e["records"]]
        if not delivering:
            ctx.ev("all-routes-raised")
            ctx.note("all-routes-raised:%s:%s" % (drv.schema, fulls[0]["error"][0] if fulls else "?"))
            return None
        ref_entry = None
    want = ref_entry["records"] if ref_entry is not None else None
    total = sum(drv.doc["blocks"])
    structure_known = True
    if ref_entry is not None and len(want) != total:
        # the template's idea of the block structure is not what the readers see (e.g. a label-only statement without
        # terminator is silently dropped by every route): offsets cannot be mapped, only the full routes are compared
        ctx.note("reference-count-differs-from-template:offset-routes-not-judged")
        structure_known = False
    primary = {}
    if shared:
        # a call that re-creates taxa the shared namespace already holds is the culprit; after it "the same taxon" is
        # no longer well defined, so identity is not compared for this document
        for e in log:
            ctx.ev("namespace-growth-judged")
            if e["extra"].get("recreated"):
                ctx.violation("%s|re-created-existing-taxa|%s" % (family(e["route"]), drv.schema),
                              "%s(%s) added new Taxon objects to the shared namespace for labels it already held: %s"
                              % (e["route"], e["source"], e["extra"]["recreated"][:6]),
                              wit(drv, e, namespace_labels=[t.label for t in drv.ns][:40]))
                shared = False
        if not shared:
            ctx.note("taxon-identity-not-judged:shared-namespace-holds-re-created-taxa")
    for e in log:
        ctx.ev("route-entry-judged")
        route = e["route"]
        if e["error"] is not None and e["mode"] == "offset" and not structure_known:
            continue
        if e["error"] is not None:
            # a route raises: violation iff some other route delivered
            others = ref_entry if ref_entry is not None else next((x for x in log if x["error"] is None and x["records"]), None)
            if others is not None and others is not e:
                ctx.violation("raised-where-others-deliver|%s|%s" % (err_disc(e["error"]), drv.schema),
                              "%s(%s) raised %s although %s delivered %d trees from the same text and options"
                              % (route, e["source"], e["error"][2], others["route"], len(others["records"])),
                              wit(drv, e, delivered_before_raising=len(e["records"])))
            continue
        if ref_entry is None or e is ref_entry:
            primary.setdefault(route, e)
            continue
        if e["mode"] == "full":
            exp = want
        elif e["mode"] == "double":
            exp = want + want
        elif not structure_known:
            continue
        else:
            x = e["expect"]
            exp = [want[x[1]]] if x[0] == "index" else want[x[1]:x[2]]
            ctx.ev("offset-pair-judged")
        first = primary.get(route)
        if first is not None and e["mode"] == "full":
            # same route, other kind of source: judged against the route's first entry
            ctx.ev("source-form-compared")
            compare_sequences(ctx, drv, e, e["records"], first["records"], first,
                              "source|%s|%s-vs-%s" % (family(route), e["source"], first["source"]), shared,
                              "%s(%s)" % (route, e["source"]))
            continue
        if e["mode"] == "double":
            ctx.ev("yielder-second-file-judged")
            n = len(want)
            ok = compare_sequences(ctx, drv, e, e["records"][:n], want, ref_entry, "yield_from_files|first-of-two-files", shared, route + " first file")
            if ok:
                compare_sequences(ctx, drv, e, e["records"][n:], want, ref_entry, "yield_from_files|second-of-two-files", shared, route + " second file")
            continue
        what = "%s(%s)%s" % (route, e["source"], " " + e["expect"][-1] if e["expect"] else "")
        compare_sequences(ctx, drv, e, e["records"], exp, ref_entry, family(route), shared, what)
        if e["mode"] == "full":
            primary.setdefault(route, e)
        if "returned" in e["extra"] and isinstance(e["extra"]["returned"], int) and e["extra"]["returned"] != len(e["records"]):
            ctx.note("read-return-value-differs-from-trees-added")
    return ref_entry


def judge_arrays(ctx, drv, ref_entry):
    want = ref_entry["records"]
    for e in drv.log:
        if e["mode"] != "array":
            continue
        ctx.ev("route-entry-judged")
        cfg = e["expect"]
        exp = []
        n0 = 0
        for _ in range(cfg["files"]):
            exp.extend(want[cfg["skip"]:])
        if e["error"] is not None:
            if all(U.usable_for_array(r) for r in exp):
                ctx.violation("raised-where-others-deliver|%s|%s" % (err_disc(e["error"]), drv.schema),
                              "%s raised %s although %s delivered %d trees" % (e["route"], e["error"][2], ref_entry["route"], len(want)),
                              wit(drv, e, config=cfg))
            else:
                ctx.note("treearray-raised-on-degenerate-trees-not-judged:%s" % e["error"][0])
            continue
        rows = e["records"]
        if len(rows) != len(exp):
            ctx.violation("%s|count|%s" % (e["route"], drv.schema),
                          "%s holds %d trees, expected %d (tree_offset=%d, %d file(s))" % (e["route"], len(rows), len(exp), cfg["skip"], cfg["files"]),
                          wit(drv, e, config=cfg))
            continue
        for i, (row, w) in enumerate(zip(rows, exp)):
            if not U.usable_for_array(w):
                ctx.note("treearray-tree-not-judged:unary/duplicate/<3-leaves")
                continue
            ctx.ev("treearray-tree-judged")
            rooted = bool(w["rooting"])
            wexp = 1.0
            if cfg["use_weights"] and w["_weight"] is not None:
                wexp = float(w["_weight"])
            if not U.close(row["weight"], wexp):
                ctx.violation("%s|weight|%s" % (e["route"], drv.schema), "%s: tree %d has weight %r, reference tree has %s (use_tree_weights=%s)"
                              % (e["route"], i, row["weight"], w["weight"], cfg["use_weights"]), wit(drv, e, tree_index=i, config=cfg))
                break
            sl = U.expected_split_lengths(w, rooted)
            full = frozenset(n[0] for n in ref.leaves(w["_spec"]))

            def labels(mask):
                out = set()
                b = 1
                while b <= mask:
                    if mask & b:
                        out.add(row["bits"].get(b, "<bit %d>" % b))
                    b <<= 1
                return frozenset(out)
            got = {}
            for m, ln in zip(row["splits"], row["lengths"] or [None] * len(row["splits"])):
                side = labels(m)
                k = side if rooted else ref.usplit(side & full if side else side, full)
                got[k] = (got.get(k, 0) + ln) if ln is not None else got.get(k, 0)
            if set(got) != set(sl):
                ctx.violation("%s|split-set|%s" % (e["route"], drv.schema), "%s: tree %d has another split set than the tree delivered by %s"
                              % (e["route"], i, ref_entry["route"]),
                              wit(drv, e, tree_index=i, config=cfg, tree=ref.to_newick(w["_spec"]),
                                  extra=sorted(sorted(map(sorted, k)) if not rooted else sorted(k) for k in set(got) - set(sl))[:5],
                                  missing=sorted(sorted(map(sorted, k)) if not rooted else sorted(k) for k in set(sl) - set(got))[:5]))
                break
            if ref.has_all_lengths(w["_spec"]) and row["lengths"]:
                bad = [k for k in sl if not U.close(sl[k], got[k])]
                if bad:
                    ctx.violation("%s|split-lengths|%s" % (e["route"], drv.schema), "%s: tree %d edge lengths differ from the tree delivered by %s"
                                  % (e["route"], i, ref_entry["route"]),
                                  wit(drv, e, tree_index=i, config=cfg, tree=ref.to_newick(w["_spec"]),
                                      split=sorted(map(sorted, bad[0])) if not rooted else sorted(bad[0]), got=got[bad[0]], want=sl[bad[0]]))
                    break


def judge_matrices(ctx, drv):
    log = [e for e in drv.log if e["mode"] == "matrix"]
    ref_entry = next((e for e in log if e["route"].startswith("DataSet.get") and e["error"] is None), None)
    if ref_entry is None:
        # the data set could not be read at all (it also parses the TREES blocks, which a matrix read skips):
        # there is no "matrix found in the data set" to compare with
        ctx.ev("all-routes-raised")
        ctx.note("matrix-not-judged:DataSet.get-raised:%s:%s" % (drv.schema, log[0]["error"][0] if log and log[0]["error"] else "?"))
        return
    want = ref_entry["records"]
    shared = drv.ns is not None
    if shared:
        for e in log:
            ctx.ev("namespace-growth-judged")
            if e["extra"].get("recreated"):
                ctx.violation("%s|re-created-existing-taxa|%s" % (family(e["route"]), drv.schema),
                              "%s(%s) added new Taxon objects to the shared namespace for labels it already held: %s"
                              % (e["route"], e["source"], e["extra"]["recreated"][:6]),
                              wit(drv, e, namespace_labels=[t.label for t in drv.ns][:40]))
                shared = False
        if any(e["extra"].get("recreated") for e in drv.log):
            shared = False
    if ref_entry["route"].startswith("DataSet") and len(want) != len(drv.doc["matrices"]):
        ctx.violation("reference|matrix-count-differs-from-document|%s" % drv.schema,
                      "%s delivered %d matrices from a document written with %d" % (ref_entry["route"], len(want), len(drv.doc["matrices"])),
                      wit(drv, ref_entry))
        return
    for e in log:
        if e is ref_entry:
            continue
        ctx.ev("route-entry-judged")
        if e["error"] is not None:
            ctx.violation("raised-where-others-deliver|%s|%s" % (err_disc(e["error"]), drv.schema),
                          "%s(%s) raised %s although %s delivered %d matrices" % (e["route"], e["source"], e["error"][2],
                                                                                 ref_entry["route"], len(want)), wit(drv, e, expect=e["expect"]))
            continue
        if e["expect"] is None:
            exp = want
        else:
            if e["expect"][1] >= len(want):
                continue
            exp = [want[e["expect"][1]]]
        got = e["records"]
        if len(got) != len(exp):
            ctx.violation("%s|count|%s" % (family(e["route"]), drv.schema), "%s delivered %d matrices, %s %d" % (e["route"], len(got), ref_entry["route"], len(exp)),
                          wit(drv, e))
            continue
        for i, (g, w) in enumerate(zip(got, exp)):
            ctx.ev("matrix-compared")
            c = U.matrix_difference(g, w)
            if c is not None:
                ctx.violation("%s|%s|%s" % (family(e["route"]), c, drv.schema), "%s(%s) %s: matrix differs in %s from the matrix in %s"
                              % (e["route"], e["source"], e["expect"][-1] if e["expect"] else "", c, ref_entry["route"]),
                              wit(drv, e, clause=c, got=U.describe(g, c), reference_value=U.describe(w, c)))
                break
            if shared:
                ctx.ev("taxon-identity-judged")
                if g["_ns"] is not drv.ns:
                    ctx.violation("%s|matrix-not-attached-to-shared-namespace|%s" % (family(e["route"]), drv.schema),
                                  "%s: matrix references another TaxonNamespace than the one passed in" % e["route"], wit(drv, e))
                    break
                if any(a is not b for a, b in zip(g["_taxa"], w["_taxa"])):
                    ctx.violation("%s|taxon-identity|%s" % (family(e["route"]), drv.schema),
                                  "%s: matrix rows are attached to other Taxon objects than in %s although all calls share one namespace"
                                  % (e["route"], ref_entry["route"]), wit(drv, e, namespace_labels=[t.label for t in drv.ns][:40]))
                    break


# ---------------------------------------------------------------------------------------------------
def ascii_safe(text):
    try:
        text.encode(locale.getpreferredencoding(False))
        return text
    except (UnicodeError, LookupError):
        return text.encode("ascii", "replace").decode("ascii")


def install_counters(ctx, hooks):
    """call counters on the anchored functions (evidence that the monitors watched the shared statement parser
    being driven by the different front ends)"""
    from dendropy.dataio import newickreader, nexusreader, nexusyielder, nexmlreader
    hooks.install(newickreader.NewickReader, "_parse_tree_statement", outermost_only=False)
    hooks.install(nexusreader.NexusReader, "_parse_trees_block", outermost_only=False)
    hooks.install(nexusyielder.NexusTreeDataYielder, "_yield_from_trees_block", outermost_only=False)
    hooks.install(nexmlreader._NexmlTreeParser, "build_tree", outermost_only=False)


def run_document(ctx, doc, options, nsmode, rng, sample=False):
    tmp = tempfile.mkdtemp(prefix="vf-c13-")
    drv = None
    try:
        doc = dict(doc, text=ascii_safe(doc["text"]))
        with Hooks(ctx) as hooks:
            install_counters(ctx, hooks)
            drv = Driver(ctx, doc, options, nsmode, tmp, rng)
            try:
                if doc["blocks"]:
                    drv.run_tree_routes()
                    ref_entry = judge_trees(ctx, drv)
                    if ref_entry is not None and ref_entry["records"]:
                        recs = ref_entry["records"]
                        if len(set(r["rooting"] for r in recs)) == 1 and "_broken" not in recs[0]:
                            drv.run_array_routes(True)
                            judge_arrays(ctx, drv, ref_entry)
                        else:
                            ctx.note("treearray-not-run:mixed-rooting-states")
                if doc["matrices"]:
                    drv.run_matrix_routes()
                    judge_matrices(ctx, drv)
            finally:
                drv.close()
        nt = sum(doc["blocks"])
        if nt >= 2 or len(doc["blocks"]) >= 2 or doc["matrices"]:
            ctx.nontrivial((doc["schema"], doc["text"], sorted(options.items()), nsmode))
        for f in doc.get("features", []):
            ctx.state((doc["schema"], f, nsmode))
        for k, v in options.items():
            ctx.state(("option", doc["schema"], k, v))
        if sample:
            ctx.sample({"schema": doc["schema"], "options": options, "namespace": nsmode, "blocks": doc["blocks"],
                        "matrices": doc["matrices"], "routes_logged": len(drv.log),
                        "document": doc["text"][:700]})
    finally:
        shutil.rmtree(tmp, ignore_errors=True)


def newline_probe(ctx):
    """Line breaks INSIDE comments and quoted labels.  A path and an already open text file are the same file read
    through Python's text layer, so every route must deliver identical records from path= and from stream=open(path)
    (judged).  A string keeps CR / CR LF where a file read translates them to LF: that difference is recorded only."""
    import dendropy
    tmp = tempfile.mkdtemp(prefix="vf-c13-")
    try:
        for nl in ("\r\n", "\r", "\n"):
            texts = {"newick": "[line one%sline two](A:1,'b%sc':2)[node%scomment]:0;%s[&R](A,'b%sc');%s" % (nl, nl, nl, nl, nl, nl),
                     "nexus": "#NEXUS%sBEGIN TREES;%s TREE t = [tree%scomment] (A,'b%sc')[x%sy];%sEND;%s" % (nl, nl, nl, nl, nl, nl, nl)}
            for schema, text in sorted(texts.items()):
                p = os.path.join(tmp, "nl.%s" % schema)
                with open(p, "w", newline="") as f:
                    f.write(text)

                def tl_read(**kw):
                    x = dendropy.TreeList()
                    x.read(schema=schema, **kw)
                    return list(x)

                def ds_read(**kw):
                    x = dendropy.DataSet()
                    x.read(schema=schema, **kw)
                    return [t for tl in x.tree_lists for t in tl]
                routes = [("Tree.get", lambda **kw: [dendropy.Tree.get(schema=schema, **kw)]),
                          ("TreeList.get", lambda **kw: list(dendropy.TreeList.get(schema=schema, **kw))),
                          ("TreeList.read", tl_read),
                          ("DataSet.get", lambda **kw: [t for tl in dendropy.DataSet.get(schema=schema, **kw).tree_lists for t in tl]),
                          ("DataSet.read", ds_read)]
                recs = {}
                for name, fn in routes:
                    try:
                        with open(p, "r") as f:
                            via_stream = [U.tree_record(t) for t in fn(stream=f)]
                        via_path = [U.tree_record(t) for t in fn(path=p)]
                        via_string = [U.tree_record(t) for t in fn(data=text)]
                    except Exception as x:
                        ctx.unexpected("newline-probe:%s" % name, x, {"schema": schema, "text": text})
                        continue
                    ctx.ev("newline-probe-judged")
                    diff = [c for a, b in zip(via_path, via_stream) for c in U.CLAUSES if a[c] != b[c]]
                    if len(via_path) != len(via_stream) or diff:
                        ctx.violation("source|%s|path-vs-open-file|line-break-inside-comment-or-label|%s" % (name, schema),
                                      "%s delivers different %s from path= than from the same file opened by the caller"
                                      % (name, sorted(set(diff)) or "tree counts"),
                                      {"schema": schema, "text": text, "line_break": repr(nl),
                                       "path": [U.public(r) for r in via_path][:1], "stream": [U.public(r) for r in via_stream][:1]})
                    sdiff = [c for a, b in zip(via_path, via_string) for c in U.CLAUSES if a[c] != b[c]]
                    if sdiff:
                        ctx.note("line-break-inside-comment:string-and-path-differ(universal-newlines):%s" % repr(nl))
    finally:
        shutil.rmtree(tmp, ignore_errors=True)


def nexml_chars_document(rng, nl):
    """NeXML text with character matrices: a templated NEXUS document (no anonymous multi-state cells) converted
    once by the library's writer - only a source of text; the routes are then compared on that text."""
    import dendropy
    d = U.nexus_doc(rng, hostile=False, nl="\n", with_chars=True, allow_multistate=False)
    try:
        ds = dendropy.DataSet.get(data=d["text"], schema="nexus")
        text = ds.as_string(schema="nexml")
        dendropy.DataSet.get(data=text, schema="nexml")   # the writer's output is not always readable (C09's business)
    except Exception:
        return None
    return {"schema": "nexml", "text": text, "blocks": [len(tl) for tl in ds.tree_lists if len(tl)],
            "features": ["chars-via-writer"] + d["features"], "matrices": [cm.data_type for cm in ds.char_matrices]}


def run_case(case, ctx):
    rng = random.Random("%s/%s" % (case["seed"], sorted(case.items())))
    kind = case["kind"]
    if kind == "directed":
        d = [x for x in DIRECTED if x[0] == case["name"]][0]
        doc = {"schema": d[1], "text": d[2], "blocks": d[3], "matrices": d[4], "features": ["directed:" + d[0]]}
        if d[1] == "nexml-via-writer":
            import dendropy
            doc["schema"] = "nexml"
            doc["text"] = dendropy.DataSet.get(data=d[2], schema="nexus").as_string(schema="nexml")
        run_document(ctx, doc, d[5], d[6], rng, sample=True)
        return
    if kind == "newline-probe":
        newline_probe(ctx)
        return
    nl = rng.choice(["\n", "\n", "\n", "\r\n", "\r"])
    nsmode = rng.choice(["fresh", "fresh", "shared-empty", "shared-empty", "shared-prepopulated", "shared-unrelated"])
    hostile = rng.random() < 0.8
    if kind == "doc":
        schema = rng.choice(["newick", "newick", "nexus", "nexus", "nexus", "nexml", "nexml"])
        options, force = make_options(rng, schema)
        if schema == "newick":
            doc = U.newick_doc(rng, hostile, nl, force)
        elif schema == "nexus":
            doc = U.nexus_doc(rng, hostile, nl, force)
        else:
            doc = U.nexml_doc(rng, hostile, nl)
    else:
        schema = rng.choice(["nexus", "nexus", "nexus", "nexml"])
        options, force = make_options(rng, schema)
        for k in ("edge_length_type", "suppress_edge_lengths"):
            options.pop(k, None)
        if schema == "nexus":
            doc = U.nexus_doc(rng, hostile, nl, force, with_chars=True)
        else:
            doc = nexml_chars_document(rng, nl)
            if doc is None:
                ctx.note("nexml-chars-document-not-producible")
                return
    if options.get("case_sensitive_taxon_labels") and nsmode == "fresh" and rng.random() < 0.8:
        nsmode = "shared-empty"      # the fresh / case-sensitive combination is a directed case
    run_document(ctx, doc, options, nsmode, rng, sample=(case["i"] < 4))
