"""C19  Character-matrix row/column operations select exactly what they name; terminate.

Monitor: a lock-step matrix model (rows {taxon label: [symbols]}, the character type of every cell, the named column
subsets, the matrix label; _c19_model.py) for EVERY watched matrix: the pool over one namespace AND the matrices over other
namespaces that are offered as arguments.  Each operation is applied to the real matrix under a JUMP step budget
(non-termination is a verdict, the wall-clock watchdog only inconclusive) and to the model as documented; afterwards every
watched matrix - receiver, arguments, bystanders - is compared with its model: rows, cell types, subsets, label, and the
well-formedness of the row map (so an argument that was changed in any of these, also by a call that refused it, or a row
aliased between two matrices and mutated later, is seen).
  concatenate       per taxon the concatenation in argument order; one subset per source matrix covering exactly its columns
                    (a subset named after a uniquely labelled source must cover THAT source); refusal (ValueError/TypeError)
                    when a documented precondition is violated (another namespace, missing taxa, unequal lengths) - the
                    defective matrix at any position, lacking the first / last / some / all taxa; parts fresh or from the
                    pool (with history); through the class, an instance, the base class, and from streams / paths
  export            export_character_indices / export_character_subset: the selected columns (value AND character type)
                    ascending for every taxon; index containers list/tuple/set/range/iterator; subsets new, recorded
                    earlier (also by concatenate), or the subset object of another matrix
  fill / pack       rows shorter than the target padded to exactly the target, existing cells (value and type) unchanged,
                    append or prepend; all equally long when the target is >= the longest row; fill_taxa adds empty rows
  row algebra       add_/replace_/update_/extend_(is_add_new)/extend_matrix/remove_/discard_/keep_sequences change exactly
                    the documented rows; taxa containers list/tuple/set/iterator, duplicates, Taxon objects of another
                    namespace carrying the same labels (they name no row)
  namespace         a matrix over another namespace OBJECT is refused whatever its taxa (same labels, the very same Taxon
                    objects, sub-/superset, empty; all / some / no rows), receiver and refused matrix unchanged
Soundness limits: concatenate's exactness clause only when its documented preconditions hold; concatenate([]) is not
driven (no namespace to return); after the documented KeyError of remove_sequences any subset of the named rows may be
gone (the documentation does not say whether it validates first); with a duplicated taxon remove_sequences may raise or
not; out-of-range export indices select nothing, an IndexError/ValueError for them is accepted; negative indices are not
driven (undefined); the character types of cells that an operation copies or creates are recorded, not judged; "equally
long" is not demanded of fill/pack with a size below the longest row; the refusal may be any ValueError/TypeError."""
import io
import os
import random
import re
import shutil
import tempfile

from .. import core
from ..mon.budget import budget, StepBudgetExceeded
from ._c19_model import TYPES, WILD, Model, Pool, snapshot, types_agree, as_container

PROP = "C19"
LEVEL_TEXT = ('A lock-step model (rows, cell character types, column subsets, label) of every matrix in a pool - and of the matrices over other '
              'namespaces offered to it - is advanced with each operation of random histories and compared with all live matrices afterwards '
              '(receiver, arguments, bystanders); every operation runs under a JUMP step budget (non-termination is a verdict).')
LEVEL_NOTE = 'Trusted: the dictionary model in vf/props/_c19_model.py; cells read from the raw taxon->sequence map and the parallel value/type/annotation lists.'
LEVEL = "exploration"
TECHNIQUE = ("runtime monitoring: lock-step matrix model (rows, cell types, subsets, label) for a pool of matrices + watched foreign matrices; "
             "JUMP step budget per operation (termination)")
RULE = ("random histories (length 25) of row/column operations over a pool of 3-4 matrices of one data type sharing a namespace, built through "
        "new_sequence(str) / from_dict / coerce_values / typed cell-wise append in random taxon order, + up to 3 matrices over other namespaces "
        "(same labels, shared Taxon objects, sub-/superset, empty; full/partial/empty); dimensions 0-8 x 0-12 (quick) up to 60 x 400; concatenate with "
        "labels None / repeated / shared objects, parts fresh or from the pool, the defective part at any position (first/last/some/all taxa missing), "
        "through class / instance / base class / streams / paths; index sets empty / all / duplicated / out of range / unordered in list, tuple, set, "
        "range, iterator; taxa arguments with duplicates and same-label strangers; fill/pack sizes None / longest / above / below / 0 in keyword, "
        "default and positional form; non-trivial = operation changed or selected at least one cell; distinct = (operation, shape of operands, "
        "index-set class)")
REACH = ["charmatrixmodel:CharacterMatrix.concatenate", "charmatrixmodel:CharacterMatrix.extend_matrix",
         "charmatrixmodel:CharacterMatrix.new_character_subset", "charmatrixmodel:CharacterMatrix.export_character_indices",
         "charmatrixmodel:CharacterMatrix.export_character_subset", "charmatrixmodel:CharacterMatrix.fill",
         "charmatrixmodel:CharacterMatrix.fill_taxa", "charmatrixmodel:CharacterMatrix.pack",
         "charmatrixmodel:CharacterMatrix.add_sequences", "charmatrixmodel:CharacterMatrix.replace_sequences",
         "charmatrixmodel:CharacterMatrix.update_sequences", "charmatrixmodel:CharacterMatrix.extend_sequences",
         "charmatrixmodel:CharacterMatrix.remove_sequences", "charmatrixmodel:CharacterMatrix.discard_sequences",
         "charmatrixmodel:CharacterMatrix.keep_sequences", "charmatrixmodel:CharacterMatrix.concatenate_from_streams",
         "charmatrixmodel:CharacterMatrix.concatenate_from_paths", "charmatrixmodel:CharacterMatrix.from_dict",
         "charmatrixmodel:CharacterDataSequence.__delitem__", "charmatrixmodel:CharacterDataSequence.insert"]
MIN_EVENTS = {"op-applied": (8000, 200000), "pool-compared-with-model": (8000, 200000), "concatenate-judged": (400, 8000),
              "concatenate-same-label": (50, 1000), "export-judged": (500, 10000), "foreign-namespace-refused": (200, 4000),
              "concatenate-refusal-judged": (1800, 5300), "concatenate-of-pool-matrices-judged": (1000, 2800),
              "concatenate-subset-association-judged": (3200, 8600), "concatenate-io-judged": (130, 500),
              "export-of-recorded-subset": (200, 600), "export-of-typed-cells-judged": (600, 2400), "fill-size-below-longest-row": (900, 2900),
              "foreign-namespace-refused:same-labels": (700, 2000), "foreign-namespace-refused:shared-taxa": (700, 2000),
              "foreign-namespace-refused:subset-shared": (700, 2000), "foreign-namespace-refused:superset-shared": (700, 2000),
              "foreign-namespace-refused:empty": (700, 2000), "remove-refusal-judged": (1500, 4800),
              "taxa-argument:duplicates": (2200, 6200), "taxa-argument:strangers": (2200, 6200),
              "matrix-built:typed": (10000, 27600), "matrix-built:dict": (5000, 13800), "matrix-built:setitem-coerced": (5000, 13800)}
ASSUMPTIONS = ["cells are compared by symbol (discrete) or value (continuous) and by the label of their CharacterType, read from the raw "
               "taxon->sequence map (matrix[taxon] itself creates rows)",
               "the character types of cells that an operation copies into another matrix or creates are not determined by the statement (recorded only)"]
CASE_TIMEOUT = 120

REFUSAL = (ValueError, TypeError)     # TaxonNamespaceIdentityError is a ValueError


def run_budgeted(ctx, op, limit, fn, det, allowed=()):
    """returns (status, value): status in ok / documented / unexpected / nonterminating"""
    try:
        with budget(limit):
            return "ok", fn()
    except core.CaseTimeout:
        raise
    except StepBudgetExceeded as e:
        ctx.violation("%s|does-not-terminate|%s" % (op, e.where.rsplit(":", 1)[0]),
                      "exceeded the step budget of %d backward jumps at %s" % (limit, e.where), det)
        return "nonterminating", None
    except Exception as e:
        if allowed and isinstance(e, allowed):
            ctx.ev("documented-error:%s" % type(e).__name__)
            return "documented", e
        ctx.unexpected(op, e, det)
        return "unexpected", e


def cases(tier, seed):
    yield {"kind": "directed-same-label", "seed": seed}
    yield {"kind": "directed-typed-row-copy", "seed": seed}
    for i in range(6000 if tier == "quick" else 18000):
        yield {"kind": "history", "i": i, "seed": seed}
    for i in range(2800 if tier == "quick" else 9000):
        yield {"kind": "concat", "i": i, "seed": seed}
    for i in range(300 if tier == "quick" else 1200):
        yield {"kind": "concat-io", "i": i, "seed": seed}


def ncells(pool):
    return (sum(len(v) for mo in pool.models for v in mo.rows.values()) + sum(len(v) for e in pool.foreign for v in e[1].rows.values())
            + 10 * (len(pool.labels) + 2))


COLLIDING = re.compile(r"^locus\d+$|_\d{3,}$", re.I)


def judge_concat_result(ctx, opname, res, part_models, part_labels, labels, det, pool=None):
    """the exactness clauses of concatenate; returns the snapshot of the result"""
    got, problems = snapshot(res)
    for p in sorted(set(problems)):
        ctx.violation("%s|result-malformed|%s" % (opname, p), "the concatenated matrix is malformed: %s" % p, det)
        if pool is not None:
            pool.malformed.add((id(res), p))
    want = dict((lbl, []) for lbl in labels)
    ranges = []
    pos = 0
    for mo in part_models:
        width = len(next(iter(mo.rows.values()))) if mo.rows else 0
        for lbl in labels:
            want[lbl] += mo.rows[lbl]
        ranges.append(list(range(pos, pos + width)))
        pos += width
    if got.rows != want:
        ctx.violation("%s|rows-are-not-the-concatenation-in-argument-order" % opname, "result differs from per-taxon concatenation", det)
    got_ranges = sorted(got.subsets.values())
    if len(got.subsets) != len(part_models) or got_ranges != sorted(ranges):
        ctx.violation("%s|character-subsets-do-not-cover-the-source-matrices" % opname,
                      "subsets %s, expected one per source covering %s" % (got.subsets, ranges), det)
    else:
        # which subset belongs to which source: decidable through the name when a source's label is unique and cannot collide
        # with a generated name
        lowered = [None if l is None else str(l).lower() for l in part_labels]
        by_lower = dict((k.lower(), v) for k, v in got.subsets.items())
        for j, l in enumerate(lowered):
            if l is None or lowered.count(l) != 1 or COLLIDING.search(l):
                continue
            if l in by_lower:
                ctx.ev("concatenate-subset-association-judged")
                if by_lower[l] != ranges[j]:
                    ctx.violation("%s|subset-named-after-a-source-covers-other-columns" % opname,
                                  "subset %r covers %s, its source occupies %s" % (l, by_lower[l][:6], ranges[j][:6]), det)
            else:
                ctx.note("concatenate-subset-not-named-after-its-source")
    return got, want, pos


def do_concat(ctx, pool, rng, directed=None):
    """one concatenate call with its oracle."""
    from dendropy.datamodel.charmatrixmodel import CharacterMatrix
    k = rng.randint(1, 5)
    scenario = directed or rng.choice(["ok", "ok", "ok", "same-label", "same-object", "none-labels", "foreign", "missing-taxa", "ragged",
                                       "from-pool", "from-pool"])
    if scenario == "missing-taxa" and pool.ntax == 0:
        scenario = "ok"
    if scenario == "foreign" and k < 2:
        k = 2
    d = rng.randrange(k)        # position of the defective matrix
    parts, models = [], []
    missing_mode = None
    for j in range(k):
        if scenario == "same-label":
            lbl = "locus" if j != 1 else rng.choice(["locus", "LOCUS"])
        elif scenario == "none-labels":
            lbl = None
        else:
            lbl = "auto"
        if scenario == "from-pool" and pool.mats:
            cand = [i for i, mo in enumerate(pool.models) if mo.complete(pool.labels) and mo.equal_lengths()]
            i = rng.choice(cand) if cand and rng.random() < 0.75 else rng.randrange(len(pool.mats))
            parts.append(pool.mats[i])
            models.append(pool.models[i])
            continue
        if scenario == "foreign" and j == d:
            entry = pool.foreign_matrix()
            parts.append(entry[0])
            models.append(entry[1])
            continue
        taxa = list(pool.ns)
        if scenario == "missing-taxa" and j == d:
            missing_mode = rng.choice(["first", "last", "all", "some"])
            if missing_mode == "first":
                taxa = taxa[1:]
            elif missing_mode == "last":
                taxa = taxa[:-1]
            elif missing_mode == "all":
                taxa = []
            else:
                drop = rng.randrange(len(taxa))
                taxa = [t for c, t in enumerate(taxa) if c != drop and rng.random() < 0.7]
        m, model = pool.new_matrix(taxa=taxa, label=lbl, ragged=(scenario == "ragged" and j == d))
        parts.append(m)
        models.append(model)
    if scenario == "same-object" and k >= 2:
        a, b = rng.sample(range(k), 2)
        parts[b] = parts[a]
        models[b] = models[a]
    if scenario == "same-label" and k < 2:
        parts.append(parts[0])
        models.append(models[0])
    roles, froles = {}, {}
    for m, mo in zip(parts, models):
        if m.taxon_namespace is pool.ns:
            i = pool.index_of(m)
            if i is None:
                i = pool.add(m, mo)
            roles[i] = "argument"
        else:
            for fi, e in enumerate(pool.foreign):
                if e[0] is m:
                    froles[fi] = "argument"
    route = rng.choice(["class", "class", "class", "instance", "base"])
    det = {"op": "concatenate", "scenario": scenario, "labels": [m.label for m in parts], "route": route, "defective_position": d,
           "missing": missing_mode, "dims": [(len(mo.rows), [len(v) for v in mo.rows.values()][:3]) for mo in models], "dtype": pool.dtype,
           "roles": roles, "foreign_roles": froles}
    # preconditions as documented
    pre_ok = True
    why = None
    ns0 = parts[0].taxon_namespace
    if any(m.taxon_namespace is not ns0 for m in parts):
        pre_ok, why = False, "foreign namespace"
    elif any(not mo.complete(pool.labels) for mo in models):
        pre_ok, why = False, "not all taxa in all matrices"
    elif any(not mo.equal_lengths() for mo in models):
        pre_ok, why = False, "unequal sequence lengths"
    limit = 20000 + 300 * (ncells(pool) + 1)
    ctx.ev("op-applied")
    if route == "class":
        thunk = lambda: pool.cls.concatenate(parts)
    elif route == "instance":
        thunk = lambda: parts[rng.randrange(len(parts))].concatenate(parts)
    else:
        thunk = lambda: CharacterMatrix.concatenate(parts)
    # (an empty FIRST namespace has a mechanism of its own - the row accessor by position - and gets its own operation name)
    opname = "concatenate" if len(ns0) else "concatenate-over-empty-namespace"
    status, res = run_budgeted(ctx, opname, limit, thunk, det, allowed=REFUSAL)
    if scenario in ("same-label", "same-object"):
        ctx.ev("concatenate-same-label")
    if status in ("nonterminating", "unexpected"):
        pool.compare_all("concatenate", det)
        return
    if not pre_ok:
        if status == "ok":
            if why == "foreign namespace":
                ctx.violation("concatenate|foreign-namespace-accepted", "matrices over different namespaces were concatenated", det)
            else:
                ctx.note("concatenate-accepted-violated-precondition(%s)" % why.replace(" ", "-"))
        else:
            if why == "foreign namespace":
                ctx.ev("foreign-namespace-refused")
            ctx.ev("concatenate-refusal-judged")
        pool.compare_all("concatenate", det)
        return
    if status == "documented":
        ctx.violation("concatenate|refuses-admissible-matrices", "%s although all documented preconditions hold" % core.exc_brief(res), det)
        pool.compare_all("concatenate", det)
        return
    ctx.ev("concatenate-judged")
    if scenario == "from-pool":
        ctx.ev("concatenate-of-pool-matrices-judged")
    got, want, pos = judge_concat_result(ctx, "concatenate", res, models, [m.label for m in parts], pool.labels, det, pool)
    if res.taxon_namespace is not pool.ns:
        ctx.violation("concatenate|result-in-other-namespace", "", det)
    pool.compare_all("concatenate", det)
    if route != "base" and res.taxon_namespace is pool.ns:
        pool.add(res, got)
    if pos and len(parts) > 1:
        ctx.nontrivial(("concat", scenario, route, len(parts), pos, tuple(str(m.label) for m in parts)))


def do_concat_io(ctx, case, rng):
    """concatenate_from_streams / concatenate_from_paths: the same exactness clauses, the sources being FASTA documents."""
    import dendropy
    dtype = rng.choice([t for t in TYPES if TYPES[t][1] is not None])
    pool = Pool(ctx, rng, dtype)
    alpha = [ch for ch in pool.alphabet() if ch not in "-?"] or list(pool.alphabet())
    ntax = rng.choice([1, 2, 3, 5])
    labels = ["t%d" % i for i in range(ntax)]
    k = rng.randint(1, 4)
    models, docs = [], []
    for j in range(k):
        width = rng.randint(1, 8)
        rows = dict((l, [rng.choice(alpha) for _ in range(width)]) for l in labels)
        order = list(labels)
        if j:
            rng.shuffle(order)
        docs.append("".join(">%s\n%s\n" % (l, "".join(rows[l])) for l in order))
        models.append(Model(rows))
    route = rng.choice(["streams", "streams", "paths"])
    kwargs = {}
    given_ns = None
    if rng.random() < 0.5:
        given_ns = kwargs["taxon_namespace"] = dendropy.TaxonNamespace()
    det = {"op": "concatenate_from_" + route, "dtype": dtype, "ntax": ntax, "widths": [mo.width() for mo in models], "documents": docs[:3]}
    limit = 200000 + 3000 * sum(len(x) for x in docs)
    ctx.ev("op-applied")
    tmp = None
    try:
        if route == "streams":
            streams = [io.StringIO(x) for x in docs]
            status, res = run_budgeted(ctx, "concatenate_from_streams", limit,
                                       lambda: pool.cls.concatenate_from_streams(streams, "fasta", **kwargs), det)
        else:
            tmp = tempfile.mkdtemp(prefix="vf-c19-")
            paths = []
            for j, x in enumerate(docs):
                p = os.path.join(tmp, "part%d.fasta" % j)
                with open(p, "w") as f:
                    f.write(x)
                paths.append(p)
            status, res = run_budgeted(ctx, "concatenate_from_paths", limit,
                                       lambda: pool.cls.concatenate_from_paths(paths, "fasta", **kwargs), det)
    finally:
        if tmp:
            shutil.rmtree(tmp, ignore_errors=True)
    if status != "ok":
        return
    ctx.ev("concatenate-io-judged")
    opname = "concatenate_from_" + route
    got_labels = sorted(t.label for t in res.taxon_namespace)
    if got_labels != sorted(labels):
        ctx.violation("%s|result-namespace-is-not-the-taxa-of-the-sources" % opname, "taxa %s, expected %s" % (got_labels, labels), det)
        return
    if given_ns is not None and res.taxon_namespace is not given_ns:
        ctx.violation("%s|result-in-other-namespace" % opname, "the given taxon_namespace was not used", det)
    judge_concat_result(ctx, opname, res, models, [None] * k, labels, det)
    ctx.nontrivial(("concat-io", route, dtype, ntax, k, tuple(mo.width() for mo in models)))


def history(ctx, case, rng):
    import dendropy
    dtype = rng.choice(list(TYPES))
    pool = Pool(ctx, rng, dtype)
    for _ in range(rng.randint(2, 4)):
        pool.add(*pool.new_matrix(ragged=rng.random() < 0.5))
    twin_ns = dendropy.TaxonNamespace(pool.labels)      # strangers carrying our labels (taxa arguments)
    ops = ["concat", "export_idx", "export_subset", "fill", "fill_taxa", "pack", "add", "replace", "update", "extend", "extend_new",
           "extend_matrix", "remove", "discard", "keep", "foreign", "new_sequence", "setitem"]
    log = []
    for step in range(25):
        op = rng.choice(ops)
        i = rng.randrange(len(pool.mats))
        j = rng.randrange(len(pool.mats))
        m, model = pool.mats[i], pool.models[i]
        o, omodel = pool.mats[j], pool.models[j]
        rows, orows = model.rows, omodel.rows
        det = {"op": op, "dtype": dtype, "receiver_rows": dict((k, len(v)) for k, v in list(rows.items())[:6]),
               "argument_rows": dict((k, len(v)) for k, v in list(orows.items())[:6]), "history": log[-6:], "roles": {i: "receiver"}}
        log.append(op)
        limit = 20000 + 300 * (ncells(pool) + 1)
        if op == "concat":
            do_concat(ctx, pool, rng)
            continue
        if not (op == "new_sequence" and len(rows) == pool.ntax) and not (op == "setitem" and not pool.ntax):
            ctx.ev("op-applied")
        if op == "foreign":
            entry = pool.foreign_matrix()
            fi = [x for x, e in enumerate(pool.foreign) if e is entry][0]
            det["foreign_roles"] = {fi: "argument"}
            det["foreign"] = (entry[2], entry[3])
            meth = rng.choice(["add_sequences", "replace_sequences", "update_sequences", "extend_sequences", "extend_matrix"])
            status, res = run_budgeted(ctx, meth, limit, lambda: getattr(m, meth)(entry[0]), det, allowed=REFUSAL)
            ctx.ev("foreign-namespace-offered")
            if status == "ok":
                ctx.violation("%s|foreign-namespace-accepted|%s" % (meth, entry[2]),
                              "a matrix over another namespace (%s) was accepted" % entry[2], det)
            elif status == "documented":
                ctx.ev("foreign-namespace-refused")
                ctx.ev("foreign-namespace-refused:%s" % entry[2])
            pool.compare_all(meth, det)
            continue
        if op in ("export_idx", "export_subset"):
            width = model.width()
            kind = rng.choice(["empty", "all", "some", "dups", "out-of-range", "unordered"])
            if kind == "empty":
                idx = []
            elif kind == "all":
                idx = list(range(width))
            else:
                idx = [rng.randrange(width) for _ in range(rng.randint(1, width))] if width else []
                if kind == "dups":
                    idx = idx + idx
                if kind == "out-of-range":
                    idx = idx + [width, width + 3, width + 10]
                if kind == "unordered":
                    rng.shuffle(idx)
            ckind, arg, watched = as_container(rng, idx, allow_range=(kind == "all"))
            before = list(watched) if watched is not None else None
            allowed = (IndexError, ValueError) if kind == "out-of-range" else ()
            if op == "export_idx":
                name = "export_character_indices"
                sel = sorted(set(idx))
                status, res = run_budgeted(ctx, name, limit, lambda: m.export_character_indices(arg), det, allowed=allowed)
            else:
                name = "export_character_subset"
                how = rng.choice(["new-by-name", "new-by-object", "recorded", "recorded", "of-another-matrix"])
                if how == "recorded" and not model.subsets:
                    how = "new-by-name"
                if how == "of-another-matrix" and (not omodel.subsets or i == j):
                    how = "new-by-object"
                if how.startswith("new"):
                    sname = "cs%d" % step
                    m.new_character_subset(label=sname, character_indices=arg)
                    sel = sorted(set(idx))
                    model.subsets[sname] = sel
                    target = sname if how == "new-by-name" else m.character_subsets[sname]
                elif how == "recorded":
                    sname = rng.choice(sorted(model.subsets))
                    sel = list(model.subsets[sname])
                    target = sname if rng.random() < 0.5 else m.character_subsets[sname]
                    kind, watched = "recorded", None
                    ctx.ev("export-of-recorded-subset")
                else:
                    sname = rng.choice(sorted(omodel.subsets))
                    sel = list(omodel.subsets[sname])
                    target = o.character_subsets[sname]
                    det["roles"][j] = "argument"
                    kind, watched = "of-another-matrix", None
                if any(c >= width for c in sel):
                    allowed = (IndexError, ValueError)
                det["subset"] = how
                status, res = run_budgeted(ctx, name, limit, lambda: m.export_character_subset(target), det, allowed=allowed)
            det["indices"], det["container"] = idx[:20], ckind
            if watched is not None and watched != before:
                ctx.violation("%s|callers-index-list-changed" % name, "the list passed by the caller was modified", det)
            if status == "documented":
                ctx.note("export-refused-out-of-range-index")
            if status == "ok":
                ctx.ev("export-judged")
                got, problems = snapshot(res)
                for p in sorted(set(problems)):
                    ctx.violation("%s|result-malformed|%s" % (name, p), "the exported matrix is malformed: %s" % p, det)
                    pool.malformed.add((id(res), p))
                want = dict((k, [v[c] for c in sel if c < len(v)]) for k, v in rows.items())
                wtypes = dict((k, [v[c] for c in sel if c < len(v)]) for k, v in model.types.items())
                if got.rows != want:
                    ctx.violation("%s|not-the-selected-columns-ascending|%s" % (name, kind),
                                  "exported matrix differs from the selected columns", det)
                elif not problems and not types_agree(wtypes, got.types):
                    ctx.violation("%s|selected-columns-carry-other-character-types|%s" % (name, kind),
                                  "exported cells have the character types %s, the selected columns %s"
                                  % (str(sorted(got.types.items())[:2])[:120], str(sorted(wtypes.items())[:2])[:120]), det)
                if any(t is not None for v in wtypes.values() for t in v):
                    ctx.ev("export-of-typed-cells-judged")
                if res.taxon_namespace is not m.taxon_namespace:
                    ctx.violation("export|result-in-other-namespace", "", det)
                pool.compare_all("export", det)
                pool.add(res, got)
                if sel and rows:
                    ctx.nontrivial(("export", kind, ckind, len(rows), width, len(sel)))
            else:
                pool.compare_all("export", det)
            continue
        # ---------------- in-place operations: compute the model result first
        new = dict((k, list(v)) for k, v in rows.items())
        newt = dict((k, list(v)) for k, v in model.types.items())
        allowed = ()
        partial_ok = None       # remove_sequences: labels that may or may not be gone after the documented KeyError
        must_raise = False
        watched = before = None
        if op == "fill" or op == "pack":
            if op == "pack":
                for lbl in pool.labels:
                    new.setdefault(lbl, [])
                    newt.setdefault(lbl, [])
            mx = max([len(v) for v in new.values()] or [0])
            size = rng.choice([None, None, None, mx, mx + 2, rng.randrange(mx) if mx else 0, 0])
            append = rng.random() < 0.6
            tgt = mx if size is None else size
            form = rng.choice(["keywords", "keywords", "positional", "defaults"])
            if form == "defaults":
                size, append, tgt = None, True, mx
            no_value = (op == "pack" and form == "defaults" and rng.random() < 0.4)
            val = pool.values(1)[0]
            sval = None if no_value else (val.upper() if isinstance(val, str) else val)
            for k in new:
                short = tgt - len(new[k])
                if short > 0:
                    new[k] = new[k] + [sval] * short if append else [sval] * short + new[k]
                    newt[k] = newt[k] + [WILD] * short if append else [WILD] * short + newt[k]
            if TYPES[dtype][1] is None:
                arg = val
            else:
                arg = m.default_state_alphabet[val]
            f = m.fill if op == "fill" else m.pack
            if form == "keywords":
                thunk = lambda: f(arg, size=size, append=append)
            elif form == "positional":
                thunk = lambda: f(arg, size, append)
            elif no_value:
                thunk = lambda: f()
            else:
                thunk = lambda: f(arg)
            name = op
            det["size"], det["append"], det["form"], det["longest"] = size, append, form, mx
            if size is not None and size < mx:
                ctx.ev("fill-size-below-longest-row")
        elif op == "fill_taxa":
            for lbl in pool.labels:
                new.setdefault(lbl, [])
                newt.setdefault(lbl, [])
            thunk, name = (lambda: m.fill_taxa()), "fill_taxa"
        elif op in ("add", "replace", "update", "extend", "extend_new", "extend_matrix"):
            # (i == j: the matrix is its own argument - a repeated object; extending then doubles every row)
            if i != j:
                det["roles"][j] = "argument"
            for k, v in orows.items():
                wild = [WILD] * len(v)
                if op == "add" and k not in new:
                    new[k], newt[k] = list(v), wild
                elif op == "replace" and k in new:
                    new[k], newt[k] = list(v), wild
                elif op == "update":
                    new[k], newt[k] = list(v), wild
                elif op == "extend" and k in new:
                    new[k], newt[k] = new[k] + list(v), newt[k] + wild
                elif op in ("extend_new", "extend_matrix"):
                    new[k], newt[k] = new.get(k, []) + list(v), newt.get(k, []) + wild
            name = {"add": "add_sequences", "replace": "replace_sequences", "update": "update_sequences", "extend": "extend_sequences",
                    "extend_new": "extend_sequences", "extend_matrix": "extend_matrix"}[op]
            if op == "extend_new":
                thunk = (lambda: m.extend_sequences(o, is_add_new_sequences=True)) if rng.random() < 0.5 else (lambda: m.extend_sequences(o, True))
            elif op == "extend":
                thunk = rng.choice([lambda: m.extend_sequences(o), lambda: m.extend_sequences(o, False),
                                    lambda: m.extend_sequences(o, is_add_new_sequences=False)])
            else:
                thunk = lambda: getattr(m, name)(o)
        elif op in ("remove", "discard", "keep"):
            taxa = [t for t in pool.ns if rng.random() < 0.4]
            variant = rng.choice(["plain", "plain", "plain", "duplicates", "strangers"])
            if variant == "duplicates" and taxa:
                taxa = taxa + [rng.choice(taxa)]
            strangers = []
            if variant == "strangers" and pool.ntax:
                strangers = rng.sample(list(twin_ns), rng.randint(1, min(2, pool.ntax)))
            items = taxa + strangers
            rng.shuffle(items)
            ckind, arg, watched = as_container(rng, items)
            before = list(watched) if watched is not None else None
            effective = list(set(items)) if ckind == "set" else items
            lbls = [t.label for t in effective if not any(t is s for s in strangers)]       # strangers name no row
            name = {"remove": "remove_sequences", "discard": "discard_sequences", "keep": "keep_sequences"}[op]
            if op == "remove":
                nameless = bool(strangers) or any(l not in new for l in lbls)
                repeated = len(lbls) != len(set(lbls))
                if nameless or repeated:
                    # documented KeyError for a taxon without sequence (demanded); a taxon named twice has no sequence the second
                    # time (accepted, not demanded).  Whether the other named rows are removed before the error is not documented.
                    allowed = (KeyError,)
                    must_raise = nameless
                    partial_ok = set(lbls)
                for l in set(lbls):
                    new.pop(l, None)
                    newt.pop(l, None)
            elif op == "discard":
                for l in lbls:
                    new.pop(l, None)
                    newt.pop(l, None)
            else:
                new = dict((k, v) for k, v in new.items() if k in lbls)
                newt = dict((k, v) for k, v in newt.items() if k in lbls)
            thunk = lambda: getattr(m, name)(arg)
            det["taxa"], det["variant"], det["container"], det["strangers"] = lbls, variant, ckind, [t.label for t in strangers]
            ctx.ev("taxa-argument:%s" % variant)
        elif op == "new_sequence":
            free = [t for t in pool.ns if t.label not in new]
            if not free:
                ctx.note("step-skipped:new_sequence-without-free-taxon")
                continue
            t = rng.choice(free)
            vals = pool.values(rng.randint(0, 4))
            new[t.label] = [v.upper() if isinstance(v, str) else v for v in vals]
            newt[t.label] = [WILD] * len(vals)
            thunk = lambda: m.new_sequence(t, pool.raw(vals))
            name = "new_sequence"
        elif op == "setitem":
            if not pool.ntax:
                ctx.note("step-skipped:setitem-over-empty-namespace")
                continue
            t = rng.choice(list(pool.ns))
            vals = pool.values(rng.randint(0, 4))
            new[t.label] = [v.upper() if isinstance(v, str) else v for v in vals]
            newt[t.label] = [WILD] * len(vals)
            key = rng.choice([t, t.label, pool.labels.index(t.label)])

            def thunk():
                m[key] = pool.raw(vals)
            name = "__setitem__"
        else:
            continue
        status, res = run_budgeted(ctx, name, limit, thunk, det, allowed=allowed)
        if watched is not None and watched != before:
            ctx.violation("%s|callers-taxa-list-changed" % name, "the list passed by the caller was modified", det)
        if status == "ok":
            if must_raise:
                ctx.violation("%s|documented-error-not-raised" % name, "KeyError expected for a taxon without sequence", det)
            model.rows, model.types = new, newt
            if new != rows:
                ctx.nontrivial((name, len(rows), len(orows), sorted(len(v) for v in new.values())[:4]))
            if op in ("fill", "pack") and (det["size"] is None or det["size"] >= det["longest"]):
                lens = set(len(seq) for seq in m._taxon_sequence_map.values())
                if len(lens) > 1:
                    ctx.violation("%s|sequences-not-equally-long" % name, "lengths %s" % sorted(lens), det)
        elif status == "documented":
            # remove_sequences refused: nothing but (some of) the named rows may be gone
            ctx.ev("remove-refusal-judged")
            alive = set(t.label for t in m._taxon_sequence_map)
            if not (set(rows) - partial_ok <= alive <= set(rows)):
                ctx.violation("remove_sequences|rows-other-than-the-named-ones-changed-when-refusing",
                              "rows %s before, %s after the KeyError; named %s" % (sorted(rows), sorted(alive), sorted(partial_ok)), det)
            model.rows = dict((k, v) for k, v in rows.items() if k in alive or k not in partial_ok)
            model.types = dict((k, v) for k, v in model.types.items() if k in model.rows)
            ctx.note("remove-refused:%s" % ("nothing-removed" if alive == set(rows) else "named-rows-partly-removed"))
        else:
            got, _ = snapshot(m)
            model.rows, model.types = got.rows, got.types
        pool.compare_all(name, det)
    if case["i"] < 3:
        ctx.sample({"kind": "history", "dtype": dtype, "ntax": pool.ntax, "ops": log, "matrices_in_pool": len(pool.mats),
                    "foreign": [(e[2], e[3]) for e in pool.foreign]})


def typed_row_copy(ctx, rng):
    """recorded, not judged: what the row-copying operations do with the character types of the copied cells."""
    pool = Pool(ctx, rng, "dna")
    while pool.ntax == 0:
        pool = Pool(ctx, rng, "dna")
    src, smodel = pool.new_matrix(taxa=list(pool.ns), length=3, route="typed")
    for meth in ("add_sequences", "update_sequences", "extend_matrix"):
        dst = pool.cls(taxon_namespace=pool.ns)
        getattr(dst, meth)(src)
        got, problems = snapshot(dst)
        kept = got.types == smodel.types
        ctx.note("%s-%s-character-types-of-copied-cells" % (meth, "keeps" if kept else "drops"))
    ctx.sample({"kind": "directed", "what": "row copies of a matrix whose cells carry CharacterType objects (recorded, not judged)"})


def run_case(case, ctx):
    rng = random.Random("%s/%s" % (case["seed"], sorted((k, str(v)) for k, v in case.items())))
    if case["kind"] == "history":
        history(ctx, case, rng)
    elif case["kind"] == "concat":
        pool = Pool(ctx, rng, rng.choice(list(TYPES)))
        for _ in range(3):
            do_concat(ctx, pool, rng)
    elif case["kind"] == "concat-io":
        do_concat_io(ctx, case, rng)
    elif case["kind"] == "directed-typed-row-copy":
        typed_row_copy(ctx, rng)
    else:
        # canonical witness: two matrices carrying the same label
        pool = Pool(ctx, rng, "dna")
        do_concat(ctx, pool, rng, directed="same-label")
        do_concat(ctx, pool, rng, directed="same-object")
        ctx.sample({"kind": "directed", "what": "concatenate([a, b]) with a.label == b.label; concatenate([a, a])"})
