"""C19  Character-matrix row/column operations select exactly what they name; terminate.

Monitor: a lock-step matrix model ({taxon label: [symbols]} + named column subsets) for EVERY live matrix of a pool over
one namespace.  Each operation is applied to the real matrix under a JUMP step budget (non-termination is a verdict,
the wall-clock watchdog only inconclusive) and to the model as documented; afterwards every matrix of the pool -
receiver, arguments and bystanders - is compared with its model (so an argument that was changed, or a row aliased
between two matrices and mutated later, is seen).
  concatenate       per taxon the concatenation in argument order; one subset per source matrix covering exactly its columns;
                    documented ValueError when a precondition is violated (foreign namespace, missing taxa, unequal lengths)
  export            export_character_indices / export_character_subset: the selected columns ascending for every taxon
  fill / pack       afterwards all sequences equally long, existing cells unchanged (append or prepend); fill_taxa adds empty rows
  row algebra       add_/replace_/update_/extend_(is_add_new)/extend_matrix/remove_/discard_/keep_sequences change exactly the documented rows
  namespace         a matrix over another namespace is refused (TaxonNamespaceIdentityError; ValueError for concatenate)
Soundness limits: concatenate's exactness clause only when its documented preconditions hold; fill with an explicit size is
only called with size >= the longest sequence (otherwise "equally long" is not achievable by padding)."""
import random

from .. import core
from ..mon.budget import budget, StepBudgetExceeded

PROP = "C19"
LEVEL_TEXT = 'A lock-step model of every matrix in a pool is advanced with each operation of random histories and compared with all live matrices afterwards (receiver, arguments, bystanders); every operation runs under a JUMP step budget (non-termination is a verdict).'
LEVEL_NOTE = 'Trusted: the dictionary model in the module; symbols read from the raw taxon->sequence map.'
LEVEL = "exploration"
TECHNIQUE = "runtime monitoring: lock-step matrix model for a pool of matrices + JUMP step budget per operation (termination)"
RULE = ("random histories (length 25) of row/column operations over a pool of 3-4 matrices of one data type sharing a namespace (+ one foreign), "
        "dimensions 0-8 x 0-12 (quick) up to 60 x 400, labels None / repeated / shared objects for concatenate, index sets empty / all / duplicated / "
        "out of range; non-trivial = operation changed or selected at least one cell; distinct = (operation, shape of operands, index-set class)")
REACH = ["charmatrixmodel:CharacterMatrix.concatenate", "charmatrixmodel:CharacterMatrix.extend_matrix",
         "charmatrixmodel:CharacterMatrix.new_character_subset", "charmatrixmodel:CharacterMatrix.export_character_indices",
         "charmatrixmodel:CharacterMatrix.export_character_subset", "charmatrixmodel:CharacterMatrix.fill",
         "charmatrixmodel:CharacterMatrix.fill_taxa", "charmatrixmodel:CharacterMatrix.pack",
         "charmatrixmodel:CharacterMatrix.add_sequences", "charmatrixmodel:CharacterMatrix.replace_sequences",
         "charmatrixmodel:CharacterMatrix.update_sequences", "charmatrixmodel:CharacterMatrix.extend_sequences",
         "charmatrixmodel:CharacterMatrix.remove_sequences", "charmatrixmodel:CharacterMatrix.discard_sequences",
         "charmatrixmodel:CharacterMatrix.keep_sequences"]
MIN_EVENTS = {"op-applied": (8000, 200000), "pool-compared-with-model": (8000, 200000), "concatenate-judged": (400, 8000),
              "concatenate-same-label": (50, 1000), "export-judged": (500, 10000), "foreign-namespace-refused": (200, 4000)}
ASSUMPTIONS = ["cells are compared by symbol (discrete) or value (continuous), read from the raw taxon->sequence map (matrix[taxon] itself creates rows)"]
CASE_TIMEOUT = 120

TYPES = {"dna": ("DnaCharacterMatrix", "ACGTRYN-?"), "protein": ("ProteinCharacterMatrix", "ACDEFGHIKLMNPQRSTVWYX-?"),
         "standard": ("StandardCharacterMatrix", "0123456789-?"), "rna": ("RnaCharacterMatrix", "ACGUN-"),
         "continuous": ("ContinuousCharacterMatrix", None), "restriction": ("RestrictionSitesCharacterMatrix", "01-?"),
         "infinite": ("InfiniteSitesCharacterMatrix", "01")}


def cell(v):
    return getattr(v, "symbol", v)


def snapshot(m):
    """model of a live matrix, read without side effects."""
    rows = {}
    for taxon, seq in m._taxon_sequence_map.items():
        rows[taxon.label] = [cell(v) for v in seq.values()]
    subsets = dict((str(k), sorted(cs.character_indices)) for k, cs in m.character_subsets.items())
    return rows, subsets


class Pool(object):
    def __init__(self, ctx, rng, dtype):
        import dendropy
        self.ctx, self.rng, self.dtype = ctx, rng, dtype
        self.cls = getattr(dendropy, TYPES[dtype][0])
        quick = ctx.tier == "quick"
        self.ntax = rng.choice([1, 2, 3, 5, 8]) if quick else rng.choice([1, 2, 4, 8, 20, 60])
        self.labels = ["t%d" % i for i in range(self.ntax)]
        self.ns = dendropy.TaxonNamespace(self.labels)
        self.foreign_ns = dendropy.TaxonNamespace(self.labels)
        self.mats = []      # live matrices
        self.models = []    # [rows dict, subsets dict]
        self.maxlen = rng.choice([0, 1, 3, 6, 12]) if quick else rng.choice([0, 1, 5, 20, 100, 400])

    def values(self, n):
        rng = self.rng
        alpha = TYPES[self.dtype][1]
        if alpha is not None:
            if not hasattr(self, "_alpha"):
                probe = self.cls(taxon_namespace=self.ns)
                sa = probe.default_state_alphabet
                ok = []
                for ch in alpha:
                    try:
                        sa[ch]
                        ok.append(ch)
                    except KeyError:
                        pass
                self._alpha = "".join(ok)
            alpha = self._alpha
        if alpha is None:
            return [rng.choice([0.0, 1.5, -2.25, 1e-3, 7.0]) for _ in range(n)]
        return [rng.choice(alpha) for _ in range(n)]

    def new_matrix(self, ns=None, taxa=None, length=None, label="auto", ragged=False):
        rng = self.rng
        ns = ns or self.ns
        if taxa is None:
            taxa = [t for t in ns if rng.random() < 0.8]
        if length is None:
            length = rng.randint(0, self.maxlen)
        m = self.cls(taxon_namespace=ns)
        if label == "auto":
            label = rng.choice([None, None, "locus", "a", "A", "x y", "locus000"])
        m.label = label
        rows = {}
        for t in taxa:
            n = length if not ragged else rng.randint(0, length)
            vals = self.values(n)
            m.new_sequence(t, vals if TYPES[self.dtype][1] is None else "".join(vals))
            rows[t.label] = [v.upper() if isinstance(v, str) else v for v in vals]
        return m, [rows, {}]

    def add(self, m, model):
        self.mats.append(m)
        self.models.append(model)
        return len(self.mats) - 1

    def compare_all(self, where, det):
        ctx = self.ctx
        ok = True
        for i, (m, (rows, subsets)) in enumerate(zip(self.mats, self.models)):
            ctx.ev("pool-compared-with-model")
            got_rows, got_subsets = snapshot(m)
            if got_rows != rows:
                role = det.get("roles", {}).get(i, "bystander")
                if set(got_rows) != set(rows):
                    what = "rows %s, model %s" % (sorted(got_rows), sorted(rows))
                    clause = "row-set"
                else:
                    bad = [k for k in rows if rows[k] != got_rows[k]][0]
                    what = "row %s is %s, model %s" % (bad, "".join(map(str, got_rows[bad]))[:60], "".join(map(str, rows[bad]))[:60])
                    clause = "cells"
                ctx.violation("%s|%s-matrix-differs-from-model|%s" % (where, role, clause), what, det)
                ok = False
                # resynchronise so that one defect is reported once
                self.models[i][0] = got_rows
        return ok


def run_budgeted(ctx, op, limit, fn, det, allowed=()):
    """returns (status, value): status in ok / documented / unexpected / nonterminating"""
    try:
        with budget(limit):
            return "ok", fn()
    except core.CaseTimeout:
        raise
    except StepBudgetExceeded as e:
        ctx.violation("%s|does-not-terminate|%s" % (op, e.where.rsplit(":", 1)[0]),
                      "exceeded the step budget of %d backward jumps at %s" % (limit, e.where), det)
        return "nonterminating", None
    except Exception as e:
        if allowed and isinstance(e, allowed):
            ctx.ev("documented-error:%s" % type(e).__name__)
            return "documented", e
        ctx.unexpected(op, e, det)
        return "unexpected", e


def cases(tier, seed):
    yield {"kind": "directed-same-label", "seed": seed}
    for i in range(8000 if tier == "quick" else 40000):
        yield {"kind": "history", "i": i, "seed": seed}
    for i in range(3000 if tier == "quick" else 15000):
        yield {"kind": "concat", "i": i, "seed": seed}


def ncells(pool):
    return sum(len(v) for rows, _ in pool.models for v in rows.values()) + 10 * len(pool.labels)


def do_concat(ctx, pool, rng, directed=None):
    """one concatenate call with its oracle."""
    from dendropy.utility import error
    k = rng.randint(1, 5)
    length_mode = "equal"
    parts, models = [], []
    scenario = directed or rng.choice(["ok", "ok", "ok", "same-label", "same-object", "none-labels", "foreign", "missing-taxa", "ragged"])
    for j in range(k):
        if scenario == "same-label":
            lbl = "locus" if j != 1 else rng.choice(["locus", "LOCUS"])
        elif scenario == "none-labels":
            lbl = None
        else:
            lbl = "auto"
        taxa = list(pool.ns)
        if scenario == "missing-taxa" and j == k - 1 and len(taxa) > 1:
            taxa = taxa[:-1]
        ns = pool.foreign_ns if (scenario == "foreign" and j == k - 1 and k > 1) else pool.ns
        if ns is pool.foreign_ns:
            taxa = list(ns)
        m, model = pool.new_matrix(ns=ns, taxa=taxa, label=lbl, ragged=(scenario == "ragged" and j == k - 1))
        parts.append(m)
        models.append(model)
    if scenario == "same-object" and k >= 2:
        parts[-1] = parts[0]
        models[-1] = models[0]
    if scenario == "same-label" and k < 2:
        parts.append(parts[0])
        models.append(models[0])
    idxs = [pool.add(m, mo) for m, mo in zip(parts, models)] if False else None
    base = len(pool.mats)
    for m, mo in zip(parts, models):
        if m.taxon_namespace is pool.ns and not any(m is x for x in pool.mats):
            pool.add(m, mo)
    det = {"op": "concatenate", "scenario": scenario, "labels": [m.label for m in parts],
           "dims": [(len(mo[0]), [len(v) for v in mo[0].values()][:3]) for mo in models], "dtype": pool.dtype}
    # preconditions as documented
    pre_ok = True
    why = None
    if any(m.taxon_namespace is not pool.ns for m in parts):
        pre_ok, why = False, "foreign namespace"
    elif any(len(mo[0]) != len(pool.labels) for mo in models):
        pre_ok, why = False, "not all taxa in all matrices"
    elif any(len(set(len(v) for v in mo[0].values())) > 1 for mo in models):
        pre_ok, why = False, "unequal sequence lengths"
    limit = 20000 + 300 * (ncells(pool) + 1)
    ctx.ev("op-applied")
    status, res = run_budgeted(ctx, "concatenate", limit, lambda: pool.cls.concatenate(parts), det, allowed=(ValueError,))
    if scenario in ("same-label", "same-object"):
        ctx.ev("concatenate-same-label")
    if status in ("nonterminating", "unexpected"):
        return
    if not pre_ok:
        if why == "foreign namespace":
            ctx.ev("foreign-namespace-refused")
        if status == "ok":
            if why == "foreign namespace":
                ctx.violation("concatenate|foreign-namespace-accepted", "matrices over different namespaces were concatenated", det)
            else:
                ctx.note("concatenate-accepted-violated-precondition(%s)" % why.replace(" ", "-"))
        pool.compare_all("concatenate", det)
        return
    if status == "documented":
        ctx.violation("concatenate|refuses-admissible-matrices", "ValueError although all documented preconditions hold: %s" % core.exc_brief(res), det)
        return
    ctx.ev("concatenate-judged")
    rows, subsets = snapshot(res)
    want = dict((lbl, []) for lbl in pool.labels)
    ranges = []
    pos = 0
    for mo in models:
        width = len(next(iter(mo[0].values()))) if mo[0] else 0
        for lbl in pool.labels:
            want[lbl] += mo[0][lbl]
        ranges.append(list(range(pos, pos + width)))
        pos += width
    if rows != want:
        ctx.violation("concatenate|rows-are-not-the-concatenation-in-argument-order", "result differs from per-taxon concatenation", det)
    got_ranges = sorted(subsets.values())
    if len(subsets) != len(parts) or got_ranges != sorted(ranges):
        ctx.violation("concatenate|character-subsets-do-not-cover-the-source-matrices",
                      "subsets %s, expected one per source covering %s" % (subsets, ranges), det)
    if res.taxon_namespace is not pool.ns:
        ctx.violation("concatenate|result-in-other-namespace", "", det)
    pool.compare_all("concatenate", det)
    pool.add(res, [want, dict(subsets)])
    if pos and len(parts) > 1:
        ctx.nontrivial(("concat", scenario, len(parts), pos, tuple(str(m.label) for m in parts)))


def history(ctx, case, rng):
    from dendropy.utility import error
    dtype = rng.choice(list(TYPES))
    pool = Pool(ctx, rng, dtype)
    for _ in range(rng.randint(2, 4)):
        pool.add(*pool.new_matrix(ragged=rng.random() < 0.5))
    foreign, fmodel = pool.new_matrix(ns=pool.foreign_ns, taxa=list(pool.foreign_ns))
    ops = ["concat", "export_idx", "export_subset", "fill", "fill_taxa", "pack", "add", "replace", "update", "extend", "extend_new",
           "extend_matrix", "remove", "discard", "keep", "foreign", "new_sequence", "setitem"]
    log = []
    for step in range(25):
        op = rng.choice(ops)
        i = rng.randrange(len(pool.mats))
        j = rng.randrange(len(pool.mats))
        m, (rows, subsets) = pool.mats[i], pool.models[i]
        o, (orows, osubsets) = pool.mats[j], pool.models[j]
        det = {"op": op, "dtype": dtype, "receiver_rows": dict((k, len(v)) for k, v in list(rows.items())[:6]),
               "argument_rows": dict((k, len(v)) for k, v in list(orows.items())[:6]), "history": log[-6:], "roles": {i: "receiver", j: "argument"}}
        if i == j:
            det["roles"] = {i: "receiver"}
        log.append(op)
        limit = 20000 + 300 * (ncells(pool) + 1)
        ctx.ev("op-applied")
        TNIE = error.TaxonNamespaceIdentityError
        if op == "concat":
            do_concat(ctx, pool, rng)
            continue
        if op == "foreign":
            meth = rng.choice(["add_sequences", "replace_sequences", "update_sequences", "extend_sequences", "extend_matrix"])
            status, res = run_budgeted(ctx, meth, limit, lambda: getattr(m, meth)(foreign), det, allowed=(TNIE,))
            ctx.ev("foreign-namespace-refused")
            if status == "ok":
                ctx.violation("%s|foreign-namespace-accepted" % meth, "a matrix over another namespace was accepted", det)
                pool.models[i][0] = snapshot(m)[0]
            pool.compare_all(meth, det)
            continue
        if op in ("export_idx", "export_subset"):
            width = max([len(v) for v in rows.values()] or [0])
            kind = rng.choice(["empty", "all", "some", "dups", "out-of-range", "unordered"])
            if kind == "empty":
                idx = []
            elif kind == "all":
                idx = list(range(width))
            else:
                idx = [rng.randrange(width) for _ in range(rng.randint(1, width))] if width else []
                if kind == "dups":
                    idx = idx + idx
                if kind == "out-of-range":
                    idx = idx + [width + 3, width + 10]
                if kind == "unordered":
                    rng.shuffle(idx)
            sel = sorted(set(idx))
            if op == "export_idx":
                status, res = run_budgeted(ctx, "export_character_indices", limit, lambda: m.export_character_indices(idx), det)
            else:
                name = "cs%d" % step
                byname = rng.random() < 0.5
                m.new_character_subset(label=name, character_indices=idx)
                pool.models[i][1][name] = sel
                cs = m.character_subsets[name]
                status, res = run_budgeted(ctx, "export_character_subset", limit,
                                           lambda: m.export_character_subset(name if byname else cs), det)
            if status == "ok":
                ctx.ev("export-judged")
                got = snapshot(res)[0]
                want = dict((k, [v[c] for c in sel if c < len(v)]) for k, v in rows.items())
                if got != want:
                    ctx.violation("%s|not-the-selected-columns-ascending|%s" % ("export_character_indices" if op == "export_idx" else "export_character_subset", kind),
                                  "exported matrix differs from the selected columns", dict(det, indices=idx[:20]))
                if res.taxon_namespace is not m.taxon_namespace:
                    ctx.violation("export|result-in-other-namespace", "", det)
                pool.compare_all("export", det)
                pool.add(res, [want, {}])
                if sel and rows:
                    ctx.nontrivial(("export", kind, len(rows), width, len(sel)))
            continue
        # ---------------- in-place operations: compute the model result first
        new = dict((k, list(v)) for k, v in rows.items())
        allowed = ()
        if op == "fill" or op == "pack":
            if op == "pack":
                for lbl in pool.labels:
                    new.setdefault(lbl, [])
            mx = max([len(v) for v in new.values()] or [0])
            size = rng.choice([None, None, mx, mx + 2])
            append = rng.random() < 0.6
            tgt = mx if size is None else size
            val = pool.values(1)[0]
            sval = val.upper() if isinstance(val, str) else val
            for k in new:
                pad = [sval] * (tgt - len(new[k]))
                new[k] = new[k] + pad if append else pad + new[k]
            if TYPES[dtype][1] is None:
                arg = val
            else:
                arg = m.default_state_alphabet[val] if hasattr(m, "default_state_alphabet") else val
            if op == "fill":
                thunk = lambda: m.fill(arg, size=size, append=append)
            else:
                thunk = lambda: m.pack(arg, size=size, append=append)
            name = op
            det["size"], det["append"] = size, append
        elif op == "fill_taxa":
            for lbl in pool.labels:
                new.setdefault(lbl, [])
            thunk, name = (lambda: m.fill_taxa()), "fill_taxa"
        elif op in ("add", "replace", "update", "extend", "extend_new", "extend_matrix"):
            # (i == j: the matrix is its own argument - a repeated object; extending then doubles every row)
            for k, v in orows.items():
                if op == "add" and k not in new:
                    new[k] = list(v)
                elif op == "replace" and k in new:
                    new[k] = list(v)
                elif op == "update":
                    new[k] = list(v)
                elif op == "extend" and k in new:
                    new[k] = new[k] + list(v)
                elif op in ("extend_new", "extend_matrix"):
                    new[k] = new.get(k, []) + list(v)
            name = {"add": "add_sequences", "replace": "replace_sequences", "update": "update_sequences", "extend": "extend_sequences",
                    "extend_new": "extend_sequences", "extend_matrix": "extend_matrix"}[op]
            if op == "extend_new":
                thunk = lambda: m.extend_sequences(o, is_add_new_sequences=True)
            elif op == "extend":
                thunk = lambda: m.extend_sequences(o)
            else:
                thunk = lambda: getattr(m, name)(o)
        elif op in ("remove", "discard", "keep"):
            taxa = [t for t in pool.ns if rng.random() < 0.4]
            lbls = [t.label for t in taxa]
            name = {"remove": "remove_sequences", "discard": "discard_sequences", "keep": "keep_sequences"}[op]
            if op == "remove":
                if any(l not in new for l in lbls):
                    allowed = (KeyError,)
                    # documented KeyError; rows before the missing one are already gone: model follows the documented order
                    for l in lbls:
                        if l not in new:
                            break
                        del new[l]
                else:
                    for l in lbls:
                        del new[l]
            elif op == "discard":
                for l in lbls:
                    new.pop(l, None)
            else:
                new = dict((k, v) for k, v in new.items() if k in lbls)
            thunk = lambda: getattr(m, name)(taxa)
            det["taxa"] = lbls
        elif op == "new_sequence":
            free = [t for t in pool.ns if t.label not in new]
            if not free:
                continue
            t = rng.choice(free)
            vals = pool.values(rng.randint(0, 4))
            new[t.label] = [v.upper() if isinstance(v, str) else v for v in vals]
            thunk = lambda: m.new_sequence(t, vals if TYPES[dtype][1] is None else "".join(vals))
            name = "new_sequence"
        elif op == "setitem":
            t = rng.choice(list(pool.ns))
            vals = pool.values(rng.randint(0, 4))
            new[t.label] = [v.upper() if isinstance(v, str) else v for v in vals]
            key = rng.choice([t, t.label])

            def thunk():
                m[key] = vals if TYPES[dtype][1] is None else "".join(vals)
            name = "__setitem__"
        else:
            continue
        status, res = run_budgeted(ctx, name, limit, thunk, det, allowed=allowed)
        if status in ("ok", "documented"):
            if status == "ok" and allowed:
                ctx.violation("%s|documented-error-not-raised" % name, "KeyError expected for a taxon without sequence", det)
            pool.models[i][0] = new
            if new != rows:
                ctx.nontrivial((name, len(rows), len(orows), sorted(len(v) for v in new.values())[:4]))
            if op in ("fill", "pack") and status == "ok":
                lens = set(len(seq) for seq in m._taxon_sequence_map.values())
                if len(lens) > 1:
                    ctx.violation("%s|sequences-not-equally-long" % name, "lengths %s" % sorted(lens), det)
        else:
            pool.models[i][0] = snapshot(m)[0]
        pool.compare_all(name, det)
    if case["i"] < 3:
        ctx.sample({"kind": "history", "dtype": dtype, "ntax": pool.ntax, "ops": log, "matrices_in_pool": len(pool.mats)})


def run_case(case, ctx):
    rng = random.Random("%s/%s" % (case["seed"], sorted((k, str(v)) for k, v in case.items())))
    if case["kind"] == "history":
        history(ctx, case, rng)
    elif case["kind"] == "concat":
        pool = Pool(ctx, rng, rng.choice(list(TYPES)))
        for _ in range(3):
            do_concat(ctx, pool, rng)
    else:
        # canonical witness: two matrices carrying the same label
        pool = Pool(ctx, rng, "dna")
        do_concat(ctx, pool, rng, directed="same-label")
        do_concat(ctx, pool, rng, directed="same-object")
        ctx.sample({"kind": "directed", "what": "concatenate([a, b]) with a.label == b.label; concatenate([a, a])"})
