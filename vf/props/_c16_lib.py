"""C16 helpers: library-independent symbol tables ("kinds"), the Sankoff / brute-force oracle, matrix generators.

A *kind* describes one alphabet the way the oracle sees it:
    name            discriminator used in violation keys
    table           cell token -> frozenset of fundamental state names (never the gap); tokens are what the generator puts into a
                    cell: a symbol (upper or lower case), a NEXUS multistate token such as "{AG}" / "(CT)", or "@3" for a state
                    without a symbol
    fund            the non-gap fundamental state names
    gap / missing   the gap and the missing-data token (None when the alphabet has none)
The tables are written here by hand (IUPAC etc.) or, for generated alphabets, kept while the alphabet is being built (the set of a
multistate is the union of the sets of the members it was declared with) - they are never read back from the library."""
import itertools

from .. import ref, core

GAP = "<gap>"


class Kind(object):
    def __init__(self, name, table, fund, gap="-", missing="?", clsname=None, builder=None, note=None):
        self.name = name
        self.table = table
        self.fund = tuple(fund)
        self.gap = gap
        self.missing = missing
        self.clsname = clsname
        self.builder = builder          # callable(kind, rows, order, ns) -> library matrix  (None: from_dict of the fixed class)
        self.note = note
        self.lib_state = None           # token -> library state object / symbol (generated alphabets)
        self.alphabet = None
        self._all = frozenset(self.fund)
        self._allgap = frozenset(self.fund + (GAP,))

    def state_set(self, token, gaps_as_missing):
        if token == self.gap and self.gap is not None:
            return self._all if gaps_as_missing else frozenset([GAP])
        if token == self.missing and self.missing is not None:
            return self._all if gaps_as_missing else self._allgap
        return self.table[token]

    def plain_tokens(self):
        """tokens that stand for exactly one fundamental state, canonical spelling first."""
        return [t for t in self.table if len(self.table[t]) == 1]


def _with_lower(table, skip=()):
    out = dict(table)
    for k, v in table.items():
        lk = k.lower()
        if lk != k and lk not in skip:
            out[lk] = v
    return out


def _fs(table):
    return dict((k, frozenset(v)) for k, v in table.items())


_DNA = {"A": "A", "C": "C", "G": "G", "T": "T", "R": "AG", "Y": "CT", "M": "AC", "K": "GT", "S": "CG", "W": "AT",
        "H": "ACT", "B": "CGT", "V": "ACG", "D": "AGT", "N": "ACGT", "X": "ACGT"}
_RNA = dict((k.replace("T", "U"), v.replace("T", "U")) for k, v in _DNA.items())
# the 5-state "nucleotide" alphabet: T and U are different states, every code that contains T also contains U
_NUC = {"A": "A", "C": "C", "G": "G", "T": "T", "U": "U", "R": "AG", "Y": "CTU", "M": "AC", "K": "GTU", "S": "CG", "W": "ATU",
        "H": "ACTU", "B": "CGTU", "V": "ACG", "D": "AGTU", "N": "ACGTU", "X": "ACGTU"}
AA = "ACDEFGHIKLMNPQRSTVWY"
_PROT = dict((a, a) for a in AA)
_PROT.update({"B": "DN", "Z": "EQ", "X": AA})
_STD = dict((d, d) for d in "0123456789")
_BIN = {"0": "0", "1": "1"}

# lower-case 'x' is a registered spelling only where X is a state of its own (protein); for DNA/RNA/nucleotide X is a synonym of N
# that has no lower-case variant, so 'x' is not a symbol of those types and is not generated
FIXED = {
    "dna": Kind("dna", _fs(_with_lower(_DNA, skip=("x",))), "ACGT", clsname="DnaCharacterMatrix"),
    "rna": Kind("rna", _fs(_with_lower(_RNA, skip=("x",))), "ACGU", clsname="RnaCharacterMatrix"),
    "nucleotide": Kind("nucleotide", _fs(_with_lower(_NUC, skip=("x",))), "ACGTU", clsname="NucleotideCharacterMatrix"),
    "protein": Kind("protein", _fs(_with_lower(_PROT)), AA, clsname="ProteinCharacterMatrix"),
    "standard": Kind("standard", _fs(_STD), "0123456789", clsname="StandardCharacterMatrix"),
    # the two binary types: alphabet "10" and, as shipped, neither a gap nor a missing-data symbol
    "restriction": Kind("restriction", _fs(_BIN), "01", gap=None, missing=None, clsname="RestrictionSitesCharacterMatrix"),
    "infinite": Kind("infinite", _fs(_BIN), "01", gap=None, missing=None, clsname="InfiniteSitesCharacterMatrix"),
}


# ------------------------------------------------------------------------------------------------ oracle

def sankoff(spec, leafsets):
    """min number of changes for one character; leafsets: taxon label -> frozenset of states."""
    states = sorted(set().union(*leafsets.values()), key=str)
    INF = float("inf")
    ns = len(states)
    rng_ns = range(ns)
    memo = {}
    for n in ref.postorder(spec):
        if not n[3]:
            ss = leafsets[n[0]]
            memo[id(n)] = [0 if s in ss else INF for s in states]
        else:
            cost = [0] * ns
            for c in n[3]:
                cc = memo[id(c)]
                m = min(cc)
                for i in rng_ns:
                    v = cc[i]
                    cost[i] += v if v <= m + 1 else m + 1      # min_j cc[j] + [i != j]
            memo[id(n)] = cost
    return min(memo[id(spec)])


def sankoff_plain(spec, leafsets):
    """the textbook double loop (kept apart from the faster form above; both are compared with brute force)."""
    states = sorted(set().union(*leafsets.values()), key=str)
    INF = float("inf")
    memo = {}
    for n in ref.postorder(spec):
        if not n[3]:
            ss = leafsets[n[0]]
            memo[id(n)] = [0 if s in ss else INF for s in states]
        else:
            cost = []
            for i, s in enumerate(states):
                tot = 0
                for c in n[3]:
                    cc = memo[id(c)]
                    tot += min(cc[j] + (0 if j == i else 1) for j in range(len(states)))
                cost.append(tot)
            memo[id(n)] = cost
    return min(memo[id(spec)])


def brute(spec, leafsets):
    states = sorted(set().union(*leafsets.values()), key=str)
    nodes = list(ref.preorder(spec))
    pm = ref.parent_map(spec)
    choices = []
    for n in nodes:
        if n[3]:
            choices.append(states)
        else:
            choices.append(sorted(leafsets[n[0]], key=str))
    best = None
    idx = dict((id(n), i) for i, n in enumerate(nodes))
    par = [idx[id(pm[id(n)])] if pm[id(n)] is not None else None for n in nodes]
    for assign in itertools.product(*choices):
        ch = 0
        for i, p in enumerate(par):
            if p is not None and assign[p] != assign[i]:
                ch += 1
        if best is None or ch < best:
            best = ch
    return best


def oracle_scores(spec, rows, kind, gaps_as_missing, ctx=None, crosscheck=False):
    """per-character minimum number of changes on spec; only the rows of the leaves of spec are looked at."""
    leaves = sorted(ref.leaf_taxa(spec))
    if not leaves:
        raise core.HarnessBug("spec without leaf taxa")
    ncol = len(rows[leaves[0]])
    out = []
    seen = {}
    cache = {}
    nchecked = 0
    for c in range(ncol):
        pat = tuple(rows[lbl][c] for lbl in leaves)
        v = seen.get(pat)
        if v is None:
            ls = {}
            for lbl, tok in zip(leaves, pat):
                s = cache.get(tok)
                if s is None:
                    s = cache[tok] = kind.state_set(tok, gaps_as_missing)
                ls[lbl] = s
            v = sankoff(spec, ls)
            if crosscheck and nchecked < 30 and len(ls) <= 5 and len(set().union(*ls.values())) <= 4:
                nchecked += 1
                b = brute(spec, ls)
                p = sankoff_plain(spec, ls)
                ctx.ev("bruteforce-crosscheck")
                if b != v or p != v:
                    raise core.HarnessBug("Sankoff oracle %r / %r != brute force %r" % (v, p, b))
            seen[pat] = v
        out.append(v)
    return out


# ------------------------------------------------------------------------------------------------ generated alphabets

def custom_kind(rng, serial):
    """StandardCharacterMatrix over a generated alphabet: k fundamental symbols ('-' gap, '?' missing), then a random number of
    ambiguous / polymorphic states declared by member symbols or by member state objects, members drawn from the fundamental states
    AND from multistates declared earlier (nesting), with or without a symbol of their own; case sensitive or not."""
    from dendropy.datamodel import charstatemodel
    case_sensitive = rng.random() < 0.35
    if case_sensitive:
        pool = list("aAbBcC01")
        multi_pool = list("pPqQrRzZ")
    elif rng.random() < 0.5:
        pool = list("0123456789")
        multi_pool = list("ABCDEFGH")
    else:
        pool = list("ABCDEFGH")
        multi_pool = list("PQRSVWYZ")
    rng.shuffle(pool)
    k = rng.choice([2, 3, 4, 6])
    syms = pool[:k]
    sa = charstatemodel.new_standard_state_alphabet(fundamental_state_symbols="".join(syms) if rng.random() < 0.5 else list(syms),
                                                    case_sensitive=case_sensitive)
    table = {}
    lib = {}
    spell = {}          # token -> symbol spellings usable in member_state_symbols

    def register(token, symbol, members, obj):
        table[token] = frozenset(members)
        lib[token] = obj
        if symbol is not None:
            spell[token] = symbol
            if not case_sensitive:
                for v in (symbol.upper(), symbol.lower()):
                    if v != symbol:
                        table[v] = frozenset(members)
                        lib[v] = v          # reachable by symbol only
                        spell[v] = v
    for s in syms:
        register(s, s, [s], sa[s])
    rng.shuffle(multi_pool)
    nmulti = rng.choice([0, 1, 2, 3, 5])
    declared = []
    nested = 0
    for i in range(nmulti):
        cands = list(syms) + declared
        size = rng.randint(2, min(4, len(cands)))
        members = rng.sample(cands, size)
        if declared and rng.random() < 0.6 and not any(mm in declared for mm in members):
            members[0] = rng.choice(declared)
        symbol = multi_pool.pop() if (multi_pool and rng.random() < 0.7) else None
        token = symbol if symbol is not None else "@%d" % i
        maker = sa.new_ambiguous_state if rng.random() < 0.5 else sa.new_polymorphic_state
        by_symbols = all(mm in spell for mm in members) and rng.random() < 0.5
        if by_symbols:
            ms = [spell[mm] for mm in members]
            obj = maker(symbol=symbol, member_state_symbols="".join(ms) if rng.random() < 0.5 else ms)
        else:
            obj = maker(symbol=symbol, member_states=[(lib[mm] if not isinstance(lib[mm], str) else sa[lib[mm]]) for mm in members])
            if any(mm in declared for mm in members):
                nested += 1
        register(token, symbol, set().union(*[table[mm] for mm in members]), obj)
        declared.append(token)
    kind = Kind("custom", table, syms, builder=_build_custom)
    kind.alphabet = sa
    kind.lib_state = lib
    kind.nested = nested
    kind.case_sensitive = case_sensitive
    kind.serial = serial
    return kind


def _build_custom(kind, rows, order, ns, rng):
    import dendropy
    m = dendropy.StandardCharacterMatrix(taxon_namespace=ns, default_state_alphabet=kind.alphabet)
    src = {}
    for lbl in order:
        vals = []
        for tok in rows[lbl]:
            if tok in (kind.gap, kind.missing):
                vals.append(tok)
                continue
            obj = kind.lib_state[tok]
            if isinstance(obj, str) or (not tok.startswith("@") and rng.random() < 0.5):
                vals.append(tok)                # by symbol
            else:
                vals.append(obj)                # by state object (the only way for states without a symbol)
        src[lbl] = vals
    return dendropy.StandardCharacterMatrix.from_dict(src, char_matrix=m)


def binary_kind(rng):
    """a BinaryStateAlphabet built WITH gap and missing symbols, with the missing symbol only, or with the gap symbol only (an alphabet
    that has a gap but no missing-data state: a gap treated as missing data then stands for every non-gap state), in a standard matrix."""
    from dendropy.datamodel import charstatemodel
    gaps, missing = rng.choice([(True, True), (True, True), (False, True), (True, False)])
    sa = charstatemodel.BinaryStateAlphabet(allow_gaps=gaps, allow_missing=missing)
    name = {(True, True): "binary+gap+missing", (False, True): "binary+missing", (True, False): "binary+gap-without-missing"}[(gaps, missing)]
    kind = Kind(name, _fs(_BIN), "01", gap="-" if gaps else None, missing="?" if missing else None, builder=_build_with_alphabet)
    kind.alphabet = sa
    return kind


def _build_with_alphabet(kind, rows, order, ns, rng):
    import dendropy
    m = dendropy.StandardCharacterMatrix(taxon_namespace=ns, default_state_alphabet=kind.alphabet)
    return dendropy.StandardCharacterMatrix.from_dict(dict((lbl, list(rows[lbl])) for lbl in order), char_matrix=m)


# ------------------------------------------------------------------------------------------------ matrices parsed from NEXUS text

def nexus_kind(rng):
    """DNA or STANDARD matrix whose cells may be {..} (ambiguous) and (..) (polymorphic) tokens; the set of such a token is the union
    of the sets of the listed symbols."""
    if rng.random() < 0.5:
        base = FIXED["dna"]
        inner = list("ACGTRYMKSWN")
        fmt = "DATATYPE=DNA GAP=- MISSING=?"
        name, fund, cls = "dna-nexus", "ACGT", "DnaCharacterMatrix"
        table = dict(base.table)
    else:
        k = rng.choice([2, 3, 4, 5])
        fund = "0123456789"[:k]
        inner = list(fund)
        fmt = 'DATATYPE=STANDARD SYMBOLS="%s" GAP=- MISSING=?' % (fund if rng.random() < 0.5 else " ".join(fund))
        name, cls = "standard-nexus", "StandardCharacterMatrix"
        table = dict((d, frozenset(d)) for d in fund)
    for _ in range(rng.choice([1, 2, 4])):
        size = rng.randint(2, min(3, len(inner)))
        ms = rng.sample(inner, size)
        op, cl = rng.choice(["{}", "()"])
        tok = op + (" ".join(ms) if rng.random() < 0.3 else "".join(ms)) + cl
        table[tok] = frozenset().union(*[table[x] for x in ms])
    kind = Kind(name, table, fund, clsname=cls, builder=_build_nexus)
    kind.fmt = fmt
    return kind


def _build_nexus(kind, rows, order, ns, rng):
    import dendropy
    ncol = len(rows[order[0]]) if order else 0
    lines = ["#NEXUS", "BEGIN TAXA;", "  DIMENSIONS NTAX=%d;" % len(order), "  TAXLABELS %s;" % " ".join(order), "END;",
             "BEGIN CHARACTERS;", "  DIMENSIONS NCHAR=%d;" % ncol, "  FORMAT %s;" % kind.fmt, "  MATRIX"]
    for lbl in order:
        lines.append("    %s  %s" % (lbl, "".join(rows[lbl])))
    lines += ["  ;", "END;"]
    cls = getattr(dendropy, kind.clsname)
    return cls.get(data="\n".join(lines) + "\n", schema="nexus", taxon_namespace=ns)


# ------------------------------------------------------------------------------------------------ matrix generation

def draw_kind(rng, serial):
    r = rng.random()
    if r < 0.52:
        return FIXED[rng.choice(["dna", "dna", "protein", "standard", "rna", "nucleotide", "nucleotide", "restriction", "infinite"])]
    if r < 0.80:
        return custom_kind(rng, serial)
    if r < 0.86:
        return binary_kind(rng)
    return nexus_kind(rng)


def make_rows(rng, kind, labels, ncol, style):
    """label -> list of cell tokens."""
    plain = kind.plain_tokens()
    canon = [t for t in plain if t in kind.fund] or plain
    everything = list(kind.table.keys())
    special = [t for t in (kind.gap, kind.missing) if t is not None]
    rows = {}
    base = [rng.choice(canon) for _ in range(ncol)]
    for lbl in labels:
        seq = []
        for c in range(ncol):
            r = rng.random()
            if style == "constant":
                s = base[c]
            elif style == "clean":
                s = base[c] if r < 0.6 else rng.choice(plain)
            elif style == "ambiguous":
                s = base[c] if r < 0.4 else (rng.choice(everything) if (r < 0.85 or not special) else rng.choice(special))
            else:
                s = rng.choice(everything + special)
            seq.append(s)
        rows[lbl] = seq
    return rows


def build_matrix(rng, kind, rows, order, ns):
    import dendropy
    if kind.builder is not None:
        return kind.builder(kind, rows, order, ns, rng)
    cls = getattr(dendropy, kind.clsname)
    return cls.from_dict(dict((lbl, "".join(rows[lbl])) for lbl in order), taxon_namespace=ns)


def library_state(kind, m, token):
    """the library's state object for a token (for in-place edits of a cell)."""
    if kind.lib_state is not None and token in kind.lib_state and not isinstance(kind.lib_state[token], str):
        return kind.lib_state[token]
    return m.default_state_alphabet[token]


def library_state_sets_differ(kind, m, rows, gaps_as_missing, labels):
    """DIAGNOSIS ONLY (names the failed clause of an established violation): does the library's taxon -> state-set map disagree with the
    oracle's tables for some cell?  Index -> symbol goes through the library's alphabet; the protein stop symbol is ignored."""
    try:
        sa = m.default_state_alphabet
        tssm = m.taxon_state_sets_map(gaps_as_missing=gaps_as_missing)
        for t, sets in tssm.items():
            if t.label not in labels:
                continue
            for tok, idxs in zip(rows[t.label], sets):
                got = set()
                for i in idxs:
                    sym = sa[i].symbol
                    got.add(GAP if (kind.gap is not None and sym == kind.gap) else sym)
                got.discard("*")
                if got != set(kind.state_set(tok, gaps_as_missing)):
                    return "%s -> %s, by definition %s" % (tok, sorted(got), sorted(kind.state_set(tok, gaps_as_missing)))
    except Exception as e:     # diagnosis must never decide anything
        return None
    return None
