"""C11 driver, part 3: CharacterMatrix, DataSet and TreeArray operations."""
import io

from . import _c11_util as U
from . import _c11_docs as DOCS
from ._c11_util import Expect
from ._c11_drv_base import Stop, pick, MATRIX_CLASS, dtype_of


MAPPING_DTYPES = ("dna", "protein", "continuous")


def matrix_class(dtype):
    import dendropy
    return getattr(dendropy, MATRIX_CLASS[dtype])


class MatrixOps(object):
    def op_mk_matrix(self, d):
        cls = matrix_class(d.get("dtype", "dna"))
        ns = self.NS(d["ns"])
        E = Expect("CharacterMatrix.__init__", "empty")
        E.newmat = "self"
        self.call(E, lambda: cls(taxon_namespace=ns))

    def M(self, d, key="m"):
        if not self.w.mats:
            raise Stop()
        return self.w.mats[pick(d, key, lambda: self.rng.randrange(len(self.w.mats))) % len(self.w.mats)]

    def _key(self, d, m):
        """a row key for an assignment: member Taxon / foreign Taxon / label / index."""
        import dendropy
        rng = self.rng
        ns = m.taxon_namespace
        kind = pick(d, "key", lambda: rng.choice(["taxon", "taxon", "label", "label", "index", "foreign", "newlabel"]))
        members = list(ns)
        if kind in ("taxon", "index") and not members:
            kind = d["key"] = "newlabel"
        if kind == "taxon":
            return kind, members[pick(d, "k", lambda: rng.randrange(len(members))) % len(members)]
        if kind == "index":
            return kind, pick(d, "k", lambda: rng.randrange(-len(members), len(members))) % len(members)
        if kind == "foreign":
            others = [x for x in self.w.namespaces if x is not ns and len(x)]
            if others:
                o = others[pick(d, "k", lambda: rng.randrange(len(others))) % len(others)]
                mem = set(id(t) for t in ns)
                cand = [t for t in o if id(t) not in mem]
                if cand:
                    return kind, cand[0]
            return kind, dendropy.Taxon(label=pick(d, "label", lambda: rng.choice(self.uni)))
        return kind, pick(d, "label", lambda: rng.choice(self.uni))

    def op_m_assign(self, d):
        m = self.M(d)
        ns = m.taxon_namespace
        via = pick(d, "via", lambda: self.rng.choice(["setitem", "setitem", "new_sequence", "getitem"]))
        kind, key = self._key(d, m)
        sq = self.next_seq(dtype_of(m))
        sg = DOCS.sig_of(sq)
        E = Expect("CharacterMatrix.%s" % {"setitem": "__setitem__", "getitem": "__getitem__"}.get(via, via), kind)
        # documented refusals, predicted from the key: a label without member -> KeyError; a Taxon that is not a member ->
        # ValueError; new_sequence for a taxon that has a sequence -> ValueError
        tx = None
        if kind in ("label", "newlabel"):
            if self.lacking(ns, [key]):
                E.allowed = (KeyError,)
        elif kind == "foreign":
            E.allowed = (ValueError,)
        if via == "getitem":
            E.assign = (m, [])
            self.call(E, lambda: m[key])
            return
        if kind == "index":
            tx = list(ns)[key]
            E.assign = (m, [(tx, sg)])
        else:
            E.assign = (m, [(key, sg)])
        if via == "new_sequence":
            if kind in ("label", "newlabel", "index"):
                key = tx if kind == "index" else (ns.get_taxon(key) or key)
                if isinstance(key, str):
                    return
                E.assign = (m, [(key, sg)])
                E.allowed = ()
            if any(key is t for t in m._taxon_sequence_map):
                E.allowed = (ValueError,)
            self.call(E, lambda: m.new_sequence(key, sq))
        else:
            def f():
                m[key] = sq
            self.call(E, f)

    def _dict_source(self, d, dtype):
        import dendropy
        rng = self.rng
        labels = U.canon_distinct(pick(d, "labels", lambda: rng.sample(self.uni, rng.randint(1, min(4, len(self.uni))))))
        src = {}
        assigned = []
        for l in labels:
            sq = self.next_seq(dtype)
            src[l] = sq
            assigned.append((l, DOCS.sig_of(sq)))
        tx = None
        if pick(d, "taxon_key", lambda: rng.random() < 0.3):
            tx = dendropy.Taxon(label=pick(d, "tlabel", lambda: rng.choice(self.uni)))
            sq = self.next_seq(dtype)
            src[tx] = sq
            assigned.append((tx, DOCS.sig_of(sq)))
        return labels, src, assigned, tx

    def op_m_from_dict(self, d):
        rng = self.rng
        into = pick(d, "into", lambda: rng.choice(["matrix", "matrix", "new"]))
        if into == "matrix" and not self.w.mats:
            into = d["into"] = "new"
        if into == "matrix":
            m = self.M(d)
            ns, cls = m.taxon_namespace, type(m)
        else:
            m = None
            ns = self.any_ns(d)
            cls = matrix_class(pick(d, "dtype", lambda: rng.choice(DOCS.DTYPES)))
        labels, src, assigned, tx = self._dict_source(d, dtype_of(m) if m is not None else d["dtype"])
        E = Expect("CharacterMatrix.from_dict", "into-matrix" if m is not None else "new-matrix")
        E.assign = (m, assigned)
        self.imm_labels(E, ns, labels)
        if tx is not None and not ns.is_mutable:
            self.allow_imm(E)
        self.sig(E.op, "unify", ns, labels)
        cs = bool(ns.is_case_sensitive)
        if m is not None:
            self.call(E, lambda: cls.from_dict(src, char_matrix=m, case_sensitive_taxon_labels=cs))
        else:
            E.newmat = "result"
            self.call(E, lambda: cls.from_dict(src, case_sensitive_taxon_labels=cs, taxon_namespace=ns))
            self.trim()

    def _collision(self, rows_labels, ns):
        cf = U.canon_fn(bool(ns.is_case_sensitive))
        c = [cf(x) for x in rows_labels]
        return len(set(c)) != len(c)

    def op_m_migrate(self, d):
        from dendropy.utility import error
        m = self.M(d)
        if not self.movable(m):
            return
        how = pick(d, "how", lambda: self.rng.choice(["migrate", "migrate", "reconstruct", "update"]))
        ns = self.other_ns(d, m.taxon_namespace, same_p=0.1 if how == "migrate" else 0.3)
        unify = pick(d, "unify", lambda: self.rng.random() > 0.3)
        taxa = list(m._taxon_sequence_map)
        labels = [t.label for t in taxa]
        mem = set(id(t) for t in ns)
        if how == "update":
            E = Expect("CharacterMatrix.update_taxon_namespace")
            E.mats = [(m, "add", None)]
            if not ns.is_mutable and any(id(t) not in mem for t in taxa):
                self.ctx.note("update-into-immutable-namespace-not-generated")
                return
            self.sig(E.op, "add", ns, labels)
            m.taxon_namespace = ns
            self.call(E, lambda: m.update_taxon_namespace())
            return
        E = Expect("CharacterMatrix.%s_taxon_namespace" % how, "unify" if unify else "no-unify")
        memo, want = self._memo(d, taxa, ns)
        mode = "unify" if unify else "distinct"
        E.mats = [(m, mode, want)]
        if unify and self._collision(labels, ns):
            E.collision = True
        if memo is not None:
            # a mapping target whose label another row carries too (or that is a row taxon itself) makes two rows meet
            q = list(memo.values())[0]
            cf = U.canon_fn(bool(ns.is_case_sensitive))
            if any(cf(l) == cf(q.label) for l in labels) or any(q is t for t in taxa):
                E.collision = True
        if E.collision:
            E.allowed = (error.TaxonNamespaceReconstructionError,)
        # immutable target
        if not ns.is_mutable:
            for t in taxa:
                hit = [v for k, v in (memo or {}).items() if k is t]
                if hit and (unify or id(t) not in mem):
                    need = id(hit[0]) not in mem
                elif unify:
                    need = bool(self.lacking(ns, [t.label]))
                else:
                    need = id(t) not in mem
                if need:
                    self.allow_imm(E)
                    break
        self.sig(E.op, mode, ns, labels)
        if how == "reconstruct" and (E.collision or E.allowed) and ns is not m.taxon_namespace:
            # (assign + rebuild by hand: a refusal cannot restore what the caller's assignment broke)
            how = d["how"] = "migrate"
            E.op = "CharacterMatrix.migrate_taxon_namespace"
        kw = {"taxon_mapping_memo": memo} if memo is not None else {}
        if how == "migrate":
            self.call(E, lambda: m.migrate_taxon_namespace(ns, unify_taxa_by_label=unify, **kw))
        else:
            m.taxon_namespace = ns
            self.call(E, lambda: m.reconstruct_taxon_namespace(unify_taxa_by_label=unify, **kw))

    def op_m_get(self, d):
        """<Type>CharacterMatrix.get(..., taxon_namespace=ns): the new matrix must live in ns."""
        rng = self.rng
        ns = self.any_ns(d, prefer_empty=0.3)
        dtype = pick(d, "dtype", lambda: rng.choice(["dna", "dna", "protein", "standard", "continuous"]))
        doc = self.draw_doc(d, "chars", dtype=dtype)
        dtype = d["dtype"] = doc["mats"][0]["dtype"]
        R = self.render(doc)
        nm = len(R.mats)
        off = pick(d, "moff", lambda: rng.choice([None] * 5 + [0, nm - 1, -1, nm]))
        E = Expect("CharacterMatrix.get", R.schema + ("/matrix_offset" if off is not None else ""))
        E.newmat = "result"
        kw = dict(R.kw)
        kw.pop("data_type", None)
        if off is not None:
            kw["matrix_offset"] = off
        if off is not None and not -nm <= off < nm:
            E.allowed = (IndexError,)
            E.reads = None
        else:
            E.reads = {"mats": [R.mats[off or 0]], "ns": ns, "trees": None}
            self.sig("get/" + R.schema, "unify", ns, R.mats[off or 0])
        self.reader_refusals(E, R, ns)
        if R.schema in ("nexus", "nexml"):
            kw["case_sensitive_taxon_labels"] = bool(ns.is_case_sensitive)
        kw["taxon_namespace"] = ns
        src = self.source_kw(d, R.text)
        self.call(E, lambda: matrix_class(dtype).get(schema=R.schema, **dict(src, **kw)))
        self.trim()

    def op_m_ctor(self, d):
        """<Type>CharacterMatrix(other matrix | mapping, taxon_namespace=ns) called directly."""
        rng = self.rng
        kind = pick(d, "src", lambda: rng.choice(["matrix", "matrix", "dict"]))
        if kind == "matrix" and not self.w.mats:
            kind = d["src"] = "dict"
        ns = self.any_ns(d)
        nskw = "taxon_set" if pick(d, "legacy_kw", lambda: rng.random() < 0.1) else "taxon_namespace"
        E = Expect("CharacterMatrix.__init__", kind)
        E.newmat = "self"
        if kind == "matrix":
            o = self.M(d)
            use_kw = pick(d, "use_kw", lambda: rng.random() < 0.8)
            tgt = ns if use_kw else o.taxon_namespace
            mode = "same" if o.taxon_namespace is tgt else "unify"
            E.disc = "matrix/" + mode
            E.matclone = (o, mode)
            labels = [t.label for t in o._taxon_sequence_map]
            E.collision = self._collision(labels, tgt) and mode == "unify"
            self.imm_clone(E, tgt, o.taxon_namespace)
            self.sig(E.op, mode, tgt, labels)
            kw = {nskw: ns} if use_kw else {}
            self.call(E, lambda: type(o)(o, **kw))
        else:
            dtype = pick(d, "dtype", lambda: rng.choice(MAPPING_DTYPES))
            labels = U.canon_distinct(pick(d, "labels", lambda: rng.sample(self.uni, rng.randint(1, min(4, len(self.uni))))))
            src = [(l, self.next_seq(dtype)) for l in labels]
            E.newrows, E.newrows_ci = labels, True     # the constructor matches keys case-insensitively (from_dict default)
            self.imm_labels(E, ns, labels, cs=False)
            self.sig(E.op, "unify", ns, labels)
            self.call(E, lambda: matrix_class(dtype)(src, **{nskw: ns}))
        self.trim()


class DataSetOps(object):
    def op_mk_dataset(self, d):
        import dendropy
        E = Expect("DataSet.__init__", "empty")
        E.newds = "self"
        ds, exc = self.call(E, lambda: dendropy.DataSet())
        if d.get("attach") is not None:
            ns = self.NS(d["attach"])
            E = Expect("DataSet.attach_taxon_namespace")
            self.call(E, lambda: ds.attach_taxon_namespace(ns))

    def D(self, d):
        if not self.w.datasets:
            raise Stop()
        return self.w.datasets[pick(d, "d", lambda: self.rng.randrange(len(self.w.datasets))) % len(self.w.datasets)]

    def op_d_new_tree_list(self, d):
        ds = self.D(d)
        rng = self.rng
        att = ds.attached_taxon_namespace
        kind = pick(d, "src", lambda: rng.choice(["empty", "list", "list", "iter", "tl", "tl", "foreign_kw"]))
        E = Expect("DataSet.new_tree_list", kind)
        if kind == "tl" and not self.w.lists:
            kind = d["src"] = "empty"
        if kind == "empty":
            E.newlist = ("result", [])
            self.call(E, lambda: ds.new_tree_list())
        elif kind == "foreign_kw":
            ns = self.other_ns(d, att, same_p=0.2) if att is not None else self.any_ns(d)
            if att is not None and ns is not att:
                E.allowed = (TypeError,)
            E.newlist = ("result", [])
            self.call(E, lambda: ds.new_tree_list(taxon_namespace=ns))
        elif kind == "tl":
            o = self.L(d)
            tgt = att if att is not None else o.taxon_namespace
            mode = "same" if o.taxon_namespace is tgt else "unify"
            E.disc = "tl/" + mode
            E.newlist = ("result", [("clone", t, mode) for t in self.model(o)])
            for t in self.model(o):
                self.sig(E.op, mode, tgt, self.labels_of(t))
            self.imm_clone(E, tgt, o.taxon_namespace)
            self.call(E, lambda: ds.new_tree_list(o))
        else:
            if att is None:
                tgt = self.any_ns(d)
                kw = {"taxon_namespace": tgt}
            else:
                tgt, kw = att, {}
            trees = [self.build(td) for td in pick(d, "ts", lambda: [self.rand_td(tgt) for _ in range(rng.randint(1, 3))])]
            E.inplace = [(t, self.mode(t, tgt), None) for t in trees]
            E.consumed = list(trees)
            E.newlist = ("result", self.objs(trees))
            self.imm_trees(E, tgt, [(t, self.mode(t, tgt)) for t in trees])
            for t in trees:
                self.sig(E.op, self.mode(t, tgt), tgt, self.labels_of(t))
            self.call(E, lambda: ds.new_tree_list(iter(trees) if kind == "iter" else trees, **kw))
        self.trim()

    def op_d_new_char_matrix(self, d):
        ds = self.D(d)
        rng = self.rng
        att = ds.attached_taxon_namespace
        kind = pick(d, "src", lambda: rng.choice(["empty", "dict", "dict", "matrix", "matrix", "foreign_kw"]))
        if kind == "matrix" and not self.w.mats:
            kind = d["src"] = "dict"
        E = Expect("DataSet.new_char_matrix", kind)
        E.newmat = "result"
        dtype = pick(d, "dtype", lambda: rng.choice(DOCS.DTYPES))
        typ = pick(d, "type", lambda: rng.choice(["name", "class"]))
        # (data type name, positional source) is refused by the library for a reason unrelated to namespaces
        # (new_char_matrix() got multiple values for 'data_type'): the class form is used with a source
        if typ == "name" and kind not in ("empty", "foreign_kw"):
            self.ctx.note("new_char_matrix(type name, source)-not-driven")
            typ = "class"
        kw = {}
        if att is None:
            kw["taxon_namespace"] = self.any_ns(d)
        tgt = att if att is not None else kw["taxon_namespace"]
        T = dtype if typ == "name" else matrix_class(dtype)
        if kind == "empty":
            self.call(E, lambda: ds.new_char_matrix(T, **kw))
        elif kind == "foreign_kw":
            ns = self.other_ns(d, tgt, "kwns", same_p=0.2)
            if att is not None and ns is not att:
                E.allowed = (TypeError,)
            self.call(E, lambda: ds.new_char_matrix(T, taxon_namespace=ns))
        elif kind == "dict":
            if dtype == "standard":
                # StandardCharacterMatrix(mapping) fails before any taxon is touched (its state alphabet does not exist yet
                # when the base constructor fills the rows): unrelated to namespaces, not driven
                self.ctx.note("StandardCharacterMatrix(mapping)-not-driven")
                dtype = d["dtype"] = "dna"
                T = dtype if typ == "name" else matrix_class(dtype)
            labels = U.canon_distinct(pick(d, "labels", lambda: rng.sample(self.uni, rng.randint(1, min(4, len(self.uni))))))
            src = [(l, self.next_seq(dtype)) for l in labels]
            # the constructor's from_dict matches keys case-insensitively by default: row labels are compared up to case,
            # the taxa under the target's own rule
            E.newrows, E.newrows_ci = labels, True
            self.imm_labels(E, tgt, labels, cs=False)
            self.sig(E.op, "unify", tgt, labels)
            self.call(E, lambda: ds.new_char_matrix(T, src, **kw))
        else:
            o = self.M(d)
            mode = "same" if o.taxon_namespace is tgt else "unify"
            E.disc = "matrix/" + mode
            E.matclone = (o, mode)
            labels = [t.label for t in o._taxon_sequence_map]
            # the copy maps EVERY member of the source namespace by label first: collisions among them merge rows
            E.collision = self._collision(labels, tgt) and mode == "unify"
            self.imm_clone(E, tgt, o.taxon_namespace)
            self.sig(E.op, mode, tgt, labels)
            self.call(E, lambda: ds.new_char_matrix(type(o), o, **kw))
        self.trim()

    def _free_components(self, att):
        w = self.w
        return [x for x in w.lists + w.mats if w.dataset_of(x) is None and (att is None or x.taxon_namespace is att)]

    def op_d_add(self, d):
        """add an existing free-standing list / matrix: any for a plain data set, same-namespace only in attached mode."""
        ds = self.D(d)
        cands = self._free_components(ds.attached_taxon_namespace)
        if not cands:
            return
        x = cands[pick(d, "k", lambda: self.rng.randrange(len(cands))) % len(cands)]
        E = Expect("DataSet.add", type(x).__name__)
        self.call(E, lambda: ds.add(x))

    def op_d_ctor(self, d):
        """DataSet(iterable of lists / matrices / namespaces)."""
        import dendropy
        if len(self.w.datasets) >= 3:
            return
        cands = self._free_components(None)
        k = pick(d, "n", lambda: self.rng.randint(0, min(2, len(cands))))
        items = list(cands[:k])
        if pick(d, "with_ns", lambda: self.rng.random() < 0.4):
            items.append(self.any_ns(d))
        E = Expect("DataSet.__init__", "iterable")
        E.newds = "self"
        self.call(E, lambda: dendropy.DataSet(items))

    def op_d_attach(self, d):
        """attach a namespace to a data set whose components (if any) all refer to it already."""
        ds = self.D(d)
        comps = list(ds.tree_lists) + list(ds.char_matrices)
        if ds.attached_taxon_namespace is not None:
            return
        if comps:
            ns = comps[0].taxon_namespace
            if any(c.taxon_namespace is not ns for c in comps):
                self.ctx.note("attach-over-foreign-components-not-generated")
                return
        else:
            ns = self.any_ns(d)
        E = Expect("DataSet.attach_taxon_namespace")
        self.call(E, lambda: ds.attach_taxon_namespace(ns))

    def op_d_detach(self, d):
        ds = self.D(d)
        att = ds.attached_taxon_namespace
        E = Expect("DataSet.detach_taxon_namespace")
        res, exc = self.call(E, lambda: ds.detach_taxon_namespace())
        if exc is None and (res is not att or ds.attached_taxon_namespace is not None):
            self.mon.viol(E, "detach-left-attached", "detach_taxon_namespace() did not return / clear the attached namespace")
            raise Stop()

    def _doc_expect(self, d, R, kw):
        trees = [t for c in R.colls for t in c]
        mats = list(R.mats)
        if kw.get("exclude_trees"):
            trees = []
        if kw.get("exclude_chars"):
            mats = []
        return trees, mats

    def _doc_kw(self, d, R, ns_rule):
        kw = dict(R.kw)
        if R.schema == "fasta":
            kw["data_type"] = R.dtypes[0]
        if R.schema in ("newick", "nexus", "nexml") and ns_rule is not None:
            kw["case_sensitive_taxon_labels"] = bool(ns_rule.is_case_sensitive)
        ex = pick(d, "exclude", lambda: self.rng.choice([None] * 6 + ["trees", "chars"]))
        if ex is not None and R.schema in ("nexus", "nexml"):
            kw["exclude_" + ex] = True
        return kw

    def op_d_read(self, d):
        ds = self.D(d)
        att = ds.attached_taxon_namespace
        # a detached data set may be told which namespace to read into (seeded change C11c: an EMPTY one was ignored)
        kwns = None
        if att is None and pick(d, "into_ns", lambda: self.rng.random() < 0.45):
            kwns = self.any_ns(d, "into_which", prefer_empty=0.5)
        tgt = att if att is not None else kwns
        doc = self.draw_doc(d, "any")
        R = self.render(doc)
        E = Expect("DataSet.read", R.schema + ("/attached" if att is not None else ("/detached-into-given-namespace" if kwns is not None else "/detached")))
        kw = self._doc_kw(d, R, tgt)
        trees, mats = self._doc_expect(d, R, kw)
        E.reads = {"trees": trees, "mats": mats, "dataset": ds, "ns": tgt}
        self.reader_refusals(E, R, tgt, single=False)
        for lab in trees + mats:
            self.sig("read/" + R.schema, "unify", tgt, lab)
        if kwns is not None:
            kw["taxon_namespace"] = kwns
        if att is not None and pick(d, "foreign_kw", lambda: self.rng.random() < 0.08):
            kw["taxon_namespace"] = self.other_ns(d, att, "kwns", same_p=0.3)
            if kw["taxon_namespace"] is not att:
                E.allowed = (ValueError,)
                E.reads = None
        src = self.source_kw(d, R.text)
        res, exc = self.call(E, lambda: ds.read(schema=R.schema, **dict(src, **kw)))
        self.note_refusal(exc)
        self.trim()

    def op_d_get(self, d):
        import dendropy
        ns = self.any_ns(d, prefer_empty=0.3)
        if len(self.w.datasets) >= 3:
            return
        doc = self.draw_doc(d, "any")
        R = self.render(doc)
        E = Expect("DataSet.get", R.schema)
        E.newds = "result"
        kw = self._doc_kw(d, R, ns)
        trees, mats = self._doc_expect(d, R, kw)
        kw["taxon_namespace"] = ns
        E.reads = {"trees": trees, "mats": mats, "dataset": None, "ns": ns}     # the monitor fills in the data set it gets back
        self.reader_refusals(E, R, ns, single=False)
        src = self.source_kw(d, R.text)
        res, exc = self.call(E, lambda: dendropy.DataSet.get(schema=R.schema, **dict(src, **kw)))
        if res is not None and res.attached_taxon_namespace is not ns:
            self.mon.viol(E, "new-dataset-not-attached-to-given-namespace", "DataSet.get(taxon_namespace=ns) is not attached to ns")
            raise Stop()
        self.trim()

    def op_d_unify(self, d):
        from dendropy.utility import error
        rng = self.rng
        ds = self.D(d)
        comps = list(ds.tree_lists) + list(ds.char_matrices)
        given = pick(d, "given", lambda: rng.random() < 0.5)
        tgt = self.any_ns(d) if given else None
        via = pick(d, "via", lambda: rng.choice(["unify"] * 7 + ["legacy"]))
        # attach_taxon_namespace: default (True) | True | False;  the legacy alias unify_taxa(taxon_set, bind) passes bind=None
        attach = pick(d, "attach", lambda: rng.choice(["default"] * 3 + ["yes", "yes", "no"]) if via == "unify" else rng.choice(["default", "yes", "yes", "no"]))
        attaching = attach == "yes" or (attach == "default" and via == "unify")
        E = Expect("DataSet.unify_taxon_namespaces", ("given-namespace" if given else "new-namespace") + ("" if attaching else "/not-attaching"))
        nothing = not comps and not len(ds.taxon_namespaces)
        if nothing and tgt is None and attaching:
            E.allowed = (TypeError,)
        E.unify = (ds, tgt)
        E.inplace = [(t, "unify", None) for l in ds.tree_lists for t in self.model(l)]
        for l in ds.tree_lists:
            E.lists[id(l)] = (l, self.objs(self.model(l)))
        E.mats = [(m, "unify", None) for m in ds.char_matrices]
        # rows of ONE matrix with equal labels under the target's rule cannot be unified: refusal is legitimate
        cs = bool(tgt.is_case_sensitive) if tgt is not None else False
        cf = U.canon_fn(cs)
        for m in ds.char_matrices:
            c = [cf(t.label) for t in m._taxon_sequence_map]
            if len(set(c)) != len(c):
                E.collision = True
                E.allowed = tuple(E.allowed) + (error.TaxonNamespaceReconstructionError,)
        if tgt is not None:
            self.imm_trees(E, tgt, [(t, "unify") for t, _, _ in E.inplace if t.taxon_namespace is not None])
            self.imm_labels(E, tgt, [t.label for m in ds.char_matrices for t in m._taxon_sequence_map])
        for t, _, _ in E.inplace:
            self.sig(E.op, "unify", tgt, self.labels_of(t))
        if via == "unify":
            kw = {"taxon_namespace": tgt} if tgt is not None else {}
            if attach != "default":
                kw["attach_taxon_namespace"] = attach == "yes"
            if pick(d, "cslm", lambda: rng.random() < 0.2):
                kw["case_sensitive_label_mapping"] = False
            self.call(E, lambda: ds.unify_taxon_namespaces(**kw))
        else:
            kw = {}
            if tgt is not None:
                kw["taxon_set"] = tgt
            if attach != "default":
                kw["bind"] = attach == "yes"
            self.call(E, lambda: ds.unify_taxa(**kw))


class ArrayOps(object):
    def op_mk_array(self, d):
        import dendropy
        a = dendropy.TreeArray(taxon_namespace=self.NS(d["ns"]), is_rooted_trees=True)
        self.w.arrays.append([a, []])

    def A(self, d, key="a"):
        if not self.w.arrays:
            raise Stop()
        return self.w.arrays[pick(d, key, lambda: self.rng.randrange(len(self.w.arrays))) % len(self.w.arrays)]

    def amodel(self, a):
        return [list(x) for x in self.w.array_entry(a)[1]]

    def op_a_add_tree(self, d):
        from dendropy.utility import error
        a = self.A(d)[0]
        ns = a.taxon_namespace
        m = self.amodel(a)
        via = pick(d, "via", lambda: self.rng.choice(["add_tree", "add_tree", "append", "insert", "insert", "add_trees", "add_trees"]))
        n = 1 if via != "add_trees" else None
        tds = pick(d, "ts", lambda: [self.rand_td(ns, same_p=0.8, distinct=True, leaves_only=True, nmin=2)
                                     for _ in range(n or self.rng.randint(0, 3))])
        trees = [self.build(td) for td in tds]
        foreign = [t.taxon_namespace is not ns for t in trees]
        E = Expect("TreeArray.%s" % via, "foreign-namespace" if any(foreign) else "same-namespace")
        good = []
        for t, f in zip(trees, foreign):
            if f:
                break
            good.append(self.labels_of(t))
        if any(foreign):
            E.allowed = (error.TaxonNamespaceIdentityError,)
        E.consumed = list(trees)
        if via == "insert":
            i = pick(d, "i", lambda: self.rng.randint(-len(m) - 1, len(m) + 1))
            want = list(m)
            if not any(foreign):
                want.insert(i, good[0])
            E.array = {"a": a, "model": want, "args": trees}
            self.call(E, lambda: a.insert(i, trees[0]))
            return
        E.array = {"a": a, "model": m + good, "args": trees, "partial": [m + good[:k] for k in range(len(good) + 1)]}
        if via == "add_tree":
            self.call(E, lambda: a.add_tree(trees[0]))
        elif via == "append":
            self.call(E, lambda: a.append(trees[0]))
        else:
            it = pick(d, "iter", lambda: self.rng.random() < 0.3)
            self.call(E, lambda: a.add_trees(iter(trees) if it else trees))

    def op_a_read(self, d):
        a = self.A(d)[0]
        ns = a.taxon_namespace
        m = self.amodel(a)
        rng = self.rng
        via = pick(d, "via", lambda: rng.choice(["read", "read", "files"]))
        nfiles = pick(d, "nfiles", lambda: rng.choice([1, 1, 2])) if via == "files" else 1
        def draw():
            out = [self.draw_doc({}, "array")]
            while len(out) < nfiles:       # every file of one call has the schema of the first
                x = self.draw_doc({}, "array")
                if x["schema"] == out[0]["schema"]:
                    out.append(x)
            return out
        docs = pick(d, "docs", draw)
        Rs = [self.render(x) for x in docs]
        schema = Rs[0].schema
        multi = any(len(R.colls) > 1 for R in Rs)
        toff = pick(d, "toff", lambda: None if multi else rng.choice([None] * 4 + [0, 1, 2, 5]))
        E = Expect("TreeArray.%s" % ("read" if via == "read" else "read_from_files"), schema + ("/tree_offset" if toff else ""))
        new = []
        prior = 0
        for R in Rs:
            flat = [t for c in R.colls for t in c]
            new += flat[(toff or 0):]
            self.reader_refusals(E, R, ns, prior_ntax=prior)
            prior += R.ntax_decls
        E.array = {"a": a, "model": m + new, "args": [], "reads": True, "partial": [m + new[:k] for k in range(len(new) + 1)]}
        kw = {"rooting": "force-rooted", "case_sensitive_taxon_labels": bool(ns.is_case_sensitive)}
        if toff is not None:
            kw["tree_offset"] = toff
        if pick(d, "ns_kw", lambda: rng.random() < 0.25):
            kw["taxon_namespace"] = self.other_ns(d, ns, "kwns", same_p=0.6)
            if kw["taxon_namespace"] is not ns:
                E.allowed = (ValueError,)
                E.array["model"] = m
        for lab in new:
            self.sig("array-read/" + schema, "unify", ns, lab)
        if via == "read":
            src = self.source_kw(d, Rs[0].text)
            self.call(E, lambda: a.read(schema=schema, **dict(src, **kw)))
        else:
            kinds = pick(d, "filekinds", lambda: [rng.choice(["file", "path"]) for _ in Rs])
            files = [io.StringIO(R.text) if k == "file" else self.tmpfile(R.text) for R, k in zip(Rs, kinds)]
            self.call(E, lambda: a.read_from_files(files=files, schema=schema, **kw))

    def _helper_array(self, ns, n):
        """an array built by the harness itself (not judged while it is built), then tracked like any other."""
        import dendropy
        o = dendropy.TreeArray(taxon_namespace=ns, is_rooted_trees=True)
        model = []
        for _ in range(n):
            td = self.rand_td(ns, same_p=1.0, distinct=True, leaves_only=True, nmin=2)
            td["ns"] = self.w.ns_index(ns)
            t = self.build(td)
            self.w.drop_free(t)
            o.add_tree(t)
            model.append(self.labels_of(t))
        self.w.arrays.append([o, model])
        return o

    def op_a_merge(self, d):
        """extend / += / + / update with another array over the same or over another namespace (or with itself)."""
        from dendropy.utility import error
        rng = self.rng
        a = self.A(d)[0]
        ns = a.taxon_namespace
        m = self.amodel(a)
        via = pick(d, "via", lambda: rng.choice(["extend", "iadd", "add", "update", "update"]))
        which = pick(d, "other", lambda: rng.choice(["same", "same", "foreign", "foreign", "self"]))
        if which == "self":
            o = a
        else:
            cands = [e[0] for e in self.w.arrays if e[0] is not a and (e[0].taxon_namespace is ns) == (which == "same")]
            if cands and pick(d, "reuse", lambda: rng.random() < 0.6):
                o = cands[pick(d, "k", lambda: rng.randrange(len(cands))) % len(cands)]
            else:
                d["reuse"] = False
                ons = ns if which == "same" else self.other_ns(d, ns, "ons", same_p=0.0)
                if ons is ns and which != "same":
                    which = d["other"] = "same"
                if not ons.is_mutable and len(U.canon_distinct([t.label for t in ons])) < 2:
                    return
                o = self._helper_array(ons, pick(d, "n", lambda: rng.randint(0, 2)))
        om = self.amodel(o)
        foreign = o.taxon_namespace is not ns
        E = Expect("TreeArray.%s" % {"extend": "extend", "iadd": "__iadd__", "add": "__add__", "update": "update"}[via],
                   "foreign-namespace" if foreign else ("itself" if o is a else "same-namespace"))
        if foreign:
            # another namespace: the stored bits mean other taxa there.  Documented guard of the sibling methods
            # (add_tree: TaxonNamespaceIdentityError; extend: assertion); if the data are taken nevertheless they must
            # mean the same labels afterwards (closure)
            E.allowed = (error.TaxonNamespaceIdentityError, AssertionError)
        if via == "add":
            E.array = {"a": None, "model": m + om, "args": []}

            def f():
                return a + o
        else:
            E.array = {"a": a, "model": m + om, "args": []}
            if via == "extend":
                f = lambda: a.extend(o)
            elif via == "update":
                f = lambda: a.update(o)
            else:
                def f():
                    x = a
                    x += o
                    return x
        res, exc = self.call(E, f)
        if exc is None and via in ("extend", "iadd") and res is not a:
            self.mon.viol(E, "iadd-returned-other-object", "extend / += did not return the array itself")
            raise Stop()
        self.trim()

    def op_a_from_list(self, d):
        """TreeArray.from_tree_list / TreeList.as_tree_array / TreeList.split_distribution: the product shares the list's namespace."""
        import dendropy
        rng = self.rng
        ok = []
        for i, lst in enumerate(self.w.lists):
            trees = self.model(lst)
            if trees and all(self._array_suitable(t, lst.taxon_namespace) for t in trees):
                ok.append(i)
        if not ok:
            self.ctx.note("no-list-suitable-for-a-tree-array")
            return
        L = self.w.lists[pick(d, "l", lambda: rng.choice(ok)) % len(self.w.lists)]
        via = pick(d, "via", lambda: rng.choice(["from_tree_list", "as_tree_array", "split_distribution"]))
        model = [self.labels_of(t) for t in self.model(L)]
        if via == "split_distribution":
            sd = L.split_distribution()
            self.ctx.ev("split-distribution-namespace-judged")
            if sd.taxon_namespace is not L.taxon_namespace:
                self.ctx.violation("TreeList.split_distribution|split-distribution-namespace-not-the-lists",
                                   "split_distribution() refers to another namespace than the list", self.mon._detail())
                raise Stop()
            return
        E = Expect("TreeArray.from_tree_list" if via == "from_tree_list" else "TreeList.as_tree_array")
        E.array = {"a": None, "model": model, "args": self.model(L)}
        E.lists[id(L)] = (L, self.objs(self.model(L)))
        if via == "from_tree_list":
            self.call(E, lambda: dendropy.TreeArray.from_tree_list(trees=L, is_rooted_trees=True))
        else:
            self.call(E, lambda: L.as_tree_array(is_rooted_trees=True))
        self.trim()

    def _array_suitable(self, t, ns):
        """rooted, >= 2 tips, every tip and only tips carry a taxon, tip labels distinct under the namespace's rule."""
        if t.is_rooted is not True:
            return False
        nodes = U.walk(t)
        tips = [x for x in nodes if x[3]]
        if len(tips) < 2 or any(x[1] is None for x in tips) or any(x[1] is not None for x in nodes if not x[3]):
            return False
        cf = U.canon_fn(bool(ns.is_case_sensitive))
        c = [cf(x[2]) for x in tips]
        return len(set(c)) == len(c) and len(set(id(x[1]) for x in tips)) == len(tips)
