"""Helpers of C15: index model of a live tree with ITERATIVE reference traversals (no recursion, so that trees
deeper than the interpreter's recursion limit can be judged), filter predicate classes, deep directed shapes and
library edits that give a tree an object history.  Nothing here decides a verdict on its own."""
import copy as _copy
import os
import random as _random

from .. import ref, gen, bridge, core
from ..mon import budget as _budget


# ---------------------------------------------------------------------------------------------------
# recursive DEFINITIONS (kept only to cross-check the iterative references on small trees, see selftest)
def r_pre(s):
    out = [s]
    for c in s[3]:
        out += r_pre(c)
    return out


def r_post(s):
    out = []
    for c in s[3]:
        out += r_post(c)
    return out + [s]


def r_in(s):
    if not s[3]:
        return [s]
    if len(s[3]) != 2:
        raise TypeError
    return r_in(s[3][0]) + [s] + r_in(s[3][1])


def r_apply(s):
    if not s[3]:
        return [("l", id(s))]
    out = [("b", id(s))]
    for c in s[3]:
        out += r_apply(c)
    return out + [("a", id(s))]


class Model(object):
    """Nodes of a live tree numbered 0..n-1 in pre-order, read from the raw child lists (bridge.extract).
    Every reference sequence is a list of these indices."""

    def __init__(self, tree):
        self.spec, pairs = bridge.extract(tree, with_nodes=True)
        s2n = dict((id(s), nd) for s, nd in pairs)
        specs = []
        stack = [self.spec]
        while stack:                                   # pre-order: parent first, children left to right
            s = stack.pop()
            specs.append(s)
            stack.extend(reversed(s[3]))
        self.specs = specs
        self.n = n = len(specs)
        idx = dict((id(s), i) for i, s in enumerate(specs))
        self.nodes = [s2n[id(s)] for s in specs]
        self.kids = kids = [[idx[id(c)] for c in s[3]] for s in specs]
        self.par = par = [None] * n
        self.depth = depth = [0] * n
        for i in range(n):
            for c in kids[i]:
                par[c] = i
                depth[c] = depth[i] + 1
        self.size = size = [1] * n
        for i in range(n - 1, 0, -1):
            size[par[i]] += size[i]
        self.leaf = [not k for k in kids]
        self.nid = [id(nd) for nd in self.nodes]
        self.eid = [id(nd._edge) for nd in self.nodes]
        self.idx_of_nid = dict((x, i) for i, x in enumerate(self.nid))
        self.idx_of_eid = dict((x, i) for i, x in enumerate(self.eid))
        # post-order: children (left to right) before the parent
        post = []
        stack = [(0, False)]
        while stack:
            i, done = stack.pop()
            if done or not kids[i]:
                post.append(i)
            else:
                stack.append((i, True))
                stack.extend((c, False) for c in reversed(kids[i]))
        self.post = post
        self.postpos = pp = [0] * n
        for k, i in enumerate(post):
            pp[i] = k
        # is the subtree strictly bifurcating?
        self.binsub = b = [True] * n
        for i in range(n - 1, -1, -1):
            b[i] = len(kids[i]) in (0, 2) and all(b[c] for c in kids[i])
        self.max_depth = max(depth)

    # ---- reference sequences of the subtree of node i --------------------------------------------
    def pre(self, i=0):
        return range(i, i + self.size[i])

    def postorder(self, i=0):
        e = self.postpos[i] + 1
        return self.post[e - self.size[i]:e]

    def level(self, i=0):
        out = [i]
        j = 0
        kids = self.kids
        while j < len(out):
            out.extend(kids[out[j]])
            j += 1
        return out

    def inorder(self, i=0):
        """left subtree, node, right subtree; None when the subtree is not strictly bifurcating."""
        if not self.binsub[i]:
            return None
        out = []
        kids = self.kids
        stack = [(i, False)]
        while stack:
            j, mid = stack.pop()
            if mid or not kids[j]:
                out.append(j)
            else:
                stack.append((kids[j][1], False))
                stack.append((j, True))
                stack.append((kids[j][0], False))
        return out

    def apply_trace(self, i=0):
        """[(tag, index)]: 'b' before the children of an internal node, 'a' after them, 'l' for a leaf."""
        out = []
        kids = self.kids
        stack = [(i, False)]
        while stack:
            j, after = stack.pop()
            if after:
                out.append(("a", j))
            elif not kids[j]:
                out.append(("l", j))
            else:
                out.append(("b", j))
                stack.append((j, True))
                stack.extend((c, False) for c in reversed(kids[j]))
        return out

    def ancestors(self, i):
        out = []
        p = self.par[i]
        while p is not None:
            out.append(p)
            p = self.par[p]
        return out

    def heights(self):
        """height of every node from the edge lengths (leaf 0, parent = child height + child length) when every
        non-root edge has a length and the tree is exactly ultrametric, else None."""
        h = [0] * self.n
        for i in self.post:
            vals = []
            for c in self.kids[i]:
                ln = self.specs[c][2]
                if ln is None:
                    return None
                vals.append(h[c] + ln)
            if vals:
                if any(v != vals[0] for v in vals):
                    return None
                h[i] = vals[0]
        return h


_SELFTEST_DONE = []


def selftest(extra_specs=()):
    """the iterative references must agree with the recursive definitions on every shape with <= 5 leaves (with and
    without unary nodes).  Runs once per process; a disagreement is a harness bug, never a verdict."""
    if _SELFTEST_DONE:
        return
    import random
    rng = random.Random(15)
    specs = [ref.copy(s) for s in extra_specs]
    for n in range(1, 6):
        for sh in gen.all_shapes(n):
            s = gen.shape_to_spec(sh)
            specs.append(s)
            if n <= 4:
                specs.append(gen.insert_unary(s, rng, 0.4))

    class _N(object):
        __slots__ = ("taxon", "label", "_edge", "_child_nodes")

    def fake(s):
        nd = _N()
        nd.taxon = None
        nd.label = None
        nd._edge = None
        nd._child_nodes = [fake(c) for c in s[3]]
        return nd
    for s in specs:
        m = Model(fake(s))
        ix = dict((id(x), i) for i, x in enumerate(m.specs))
        for i, st in enumerate(m.specs):
            ok = (list(m.pre(i)) == [ix[id(x)] for x in r_pre(st)]
                  and list(m.postorder(i)) == [ix[id(x)] for x in r_post(st)]
                  and m.apply_trace(i) == [(k, ix[j]) for k, j in r_apply(st)])
            try:
                want = [ix[id(x)] for x in r_in(st)]
            except TypeError:
                want = None
            ok = ok and m.inorder(i) == want
            lv = m.level(i)
            ok = ok and sorted(lv) == list(m.pre(i)) and all(m.depth[a] <= m.depth[b] for a, b in zip(lv, lv[1:]))
            if not ok:
                raise core.HarnessBug("iterative reference traversal disagrees with its recursive definition")
    _SELFTEST_DONE.append(1)


# ---------------------------------------------------------------------------------------------------
class StepBudget(object):
    """One vf.mon.budget block kept open for a whole battery of traversals and re-armed before every single call
    (switching the monitoring tool on and off per call costs ~60 us, more than most of the calls themselves)."""

    def __init__(self):
        self.block = None

    def open(self):
        self.block = _budget.budget(1 << 60)
        self.block.__enter__()

    def arm(self, limit):
        st = _budget._S
        st.steps = 0
        st.tripped = None
        st.limit = limit

    def close(self):
        if self.block is not None:
            self.block.__exit__(None, None, None)
            self.block = None


def recursing_function(exc):
    """the library function that occurs most often in the traceback of a RecursionError (the innermost frame is
    wherever the stack happened to run out, which is not a stable mechanism name)."""
    counts = {}
    tb = exc.__traceback__
    prefix = os.path.abspath(core.REPO_SRC) + os.sep
    while tb is not None:
        code = tb.tb_frame.f_code
        if code.co_filename.startswith(prefix):
            q = getattr(code, "co_qualname", code.co_name)
            counts[q] = counts.get(q, 0) + 1
        tb = tb.tb_next
    if not counts:
        return "<outside-library>"
    return sorted(counts.items(), key=lambda kv: (-kv[1], kv[0]))[0][0]


# ---------------------------------------------------------------------------------------------------
# filter predicate classes
FILTERS = ("none", "bool", "truthy", "falsy", "falsy-callable")


class _FalsyBool(object):
    """a predicate object whose truth value is False"""

    def __init__(self, marks):
        self.marks = marks

    def __call__(self, x):
        return id(x) in self.marks

    def __bool__(self):
        return False


class _FalsyLen(list):
    """an (empty) collection that is also a predicate: len() == 0, so it is falsy"""
    marks = None

    def __call__(self, x):
        return id(x) in self.marks


def make_filter(kind, marks, rng):
    """marks: set of ids (of live objects) that pass.  All classes but 'none' accept exactly the marked objects."""
    if kind == "none":
        return None
    if kind == "bool":
        return lambda x: id(x) in marks
    if kind == "truthy":                      # truthy values that are not True
        return lambda x: ("yes", 1) if id(x) in marks else False
    if kind == "falsy":                       # falsy values that are not False
        vals = (0, "", None, [])
        sub = _random.Random(rng.getrandbits(32))      # own stream: the case stream must not depend on how often the library calls the filter
        return lambda x: 1 if id(x) in marks else vals[sub.randrange(4)]
    if kind == "falsy-callable":              # the predicate OBJECT is falsy (defines __bool__ / __len__)
        if rng.random() < 0.5:
            return _FalsyBool(marks)
        f = _FalsyLen()
        f.marks = marks
        return f
    raise ValueError(kind)


class FalsyCallback(object):
    """callback object for apply() whose truth value is False"""

    def __init__(self, tag, trace, guard):
        self.tag, self.trace, self.guard = tag, trace, guard

    def __call__(self, nd):
        self.guard()
        self.trace.append((self.tag, id(nd)))

    def __len__(self):
        return 0


# ---------------------------------------------------------------------------------------------------
# deep directed shapes (deeper than the recursion limit), built without recursion
DEEP_KINDS = ("caterpillar", "unary-chain", "polytomy-comb")


def deep_spec(kind, depth):
    k = 0
    if kind == "unary-chain":
        node = ref.S(None, [ref.S("A"), ref.S("B")])
    else:
        node = ref.S("Z")
    for d in range(depth):
        if kind == "caterpillar":
            node = ref.S(None, [ref.S("T%d" % k), node] if d % 5 else [node, ref.S("T%d" % k)])
            k += 1
        elif kind == "unary-chain":
            node = ref.S(None, [node])
        elif kind == "polytomy-comb":
            node = ref.S(None, [ref.S("T%d" % k), node, ref.S("T%d" % (k + 1))])
            k += 2
        else:
            raise ValueError(kind)
    return node


# ---------------------------------------------------------------------------------------------------
# object histories: edits through the library's own mutators
EDITS = ("add_child", "new_child", "insert_child", "insert_new_child", "move_child", "remove_child", "set_child_nodes",
         "seed_edge_replaced", "reseed_at", "reroot_at_node", "reroot_at_edge", "prune_subtree", "collapse_edge",
         "clone", "deepcopy", "copy_construct", "extract_subtree", "extract_tree", "newick_roundtrip", "ladderize",
         "randomly_rotate", "resolve_polytomies", "suppress_unifurcations")


def raw_nodes(tree):
    out = []
    stack = [tree._seed_node]
    while stack:
        nd = stack.pop()
        out.append(nd)
        stack.extend(reversed(nd._child_nodes))
    return out


def apply_edit(name, tree, rng, counter):
    """one library edit; returns the tree to be traversed afterwards (the same object or a new one)."""
    import dendropy
    nodes = raw_nodes(tree)
    internal = [nd for nd in nodes if nd._child_nodes]
    nonroot = nodes[1:]

    def fresh():
        counter[0] += 1
        return dendropy.Node(label="new%d" % counter[0])
    if name == "add_child":
        rng.choice(nodes).add_child(fresh())
    elif name == "new_child":
        counter[0] += 1
        rng.choice(nodes).new_child(label="new%d" % counter[0])
    elif name == "insert_child":
        nd = rng.choice(nodes)
        nd.insert_child(rng.randint(0, len(nd._child_nodes)), fresh())
    elif name == "insert_new_child":
        nd = rng.choice(nodes)
        counter[0] += 1
        nd.insert_new_child(rng.randint(0, len(nd._child_nodes)), label="new%d" % counter[0])
    elif name == "move_child":                       # insert_child of an existing child moves it
        cands = [nd for nd in internal if len(nd._child_nodes) >= 2]
        if not cands:
            return None
        nd = rng.choice(cands)
        ch = rng.choice(nd._child_nodes)
        nd.insert_child(rng.randrange(len(nd._child_nodes)), ch)
    elif name == "remove_child":
        if not nonroot:
            return None
        ch = rng.choice(nonroot)
        ch._parent_node.remove_child(ch, suppress_unifurcations=rng.random() < 0.5)
    elif name == "set_child_nodes":
        if not internal:
            return None
        nd = rng.choice(internal)
        kids = list(nd._child_nodes)
        rng.shuffle(kids)
        nd.set_child_nodes(kids)
    elif name == "seed_edge_replaced":
        tree.seed_node.edge = dendropy.Edge(length=rng.choice([None, 1.0]))
    elif name in ("reseed_at", "reroot_at_node"):
        cands = [nd for nd in internal if nd._parent_node is not None]
        if not cands:
            return None
        kw = {"suppress_unifurcations": rng.random() < 0.5, "collapse_unrooted_basal_bifurcation": rng.random() < 0.5}
        getattr(tree, name)(rng.choice(cands), **kw)
    elif name == "reroot_at_edge":
        cands = [nd for nd in nonroot]
        if not cands:
            return None
        tree.reroot_at_edge(rng.choice(cands)._edge, suppress_unifurcations=rng.random() < 0.5)
    elif name == "prune_subtree":
        if len(nonroot) < 2:
            return None
        tree.prune_subtree(rng.choice(nonroot), suppress_unifurcations=rng.random() < 0.5)
    elif name == "collapse_edge":
        cands = [nd for nd in internal if nd._parent_node is not None]
        if not cands:
            return None
        rng.choice(cands)._edge.collapse()
    elif name == "clone":
        return tree.clone(depth=rng.choice([1, 2]))
    elif name == "deepcopy":
        return _copy.deepcopy(tree)
    elif name == "copy_construct":
        return dendropy.Tree(tree)
    elif name == "extract_subtree":
        if not internal:
            return None
        nd = rng.choice(internal)
        # (extract_subtree from a unary start node with suppress_unifurcations raises a bare ValueError - a TODO in the library, not a traversal)
        sup = len(nd._child_nodes) != 1 and rng.random() < 0.5
        return dendropy.Tree(seed_node=nd.extract_subtree(suppress_unifurcations=sup), taxon_namespace=tree.taxon_namespace)
    elif name == "extract_tree":
        return tree.extract_tree()
    elif name == "newick_roundtrip":
        text = tree.as_string(schema="newick")
        return dendropy.Tree.get(data=text, schema="newick", taxon_namespace=tree.taxon_namespace,
                                 suppress_internal_node_taxa=rng.random() < 0.5)
    elif name == "ladderize":
        tree.ladderize(ascending=rng.random() < 0.5)
    elif name == "randomly_rotate":
        tree.randomly_rotate(rng=rng)
    elif name == "resolve_polytomies":
        tree.resolve_polytomies(rng=rng)
    elif name == "suppress_unifurcations":
        tree.suppress_unifurcations()
    else:
        raise ValueError(name)
    return tree
