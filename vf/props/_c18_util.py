"""Helpers of C18 (simulated trees): job descriptors -> fresh arguments -> one real simulator call,
flat tree encodings, the RNG tripwire, the restart-path counter, and the child-interpreter driver

    python -B -m vf.props._c18_util < jobs.json > encodings.json

which re-runs the same (simulator, parameters, seed) jobs in another interpreter (other PYTHONHASHSEED,
other heap addresses) and prints the flat encoding of every returned tree.

A *job* is a small JSON-able dict; every argument object (namespaces, species tree, gene-to-species map,
pop sizes, the generator) is rebuilt from it for every run, so two runs never share a library object --
except in the *re-use* step of a job flagged "reuse", where the very same argument objects are handed to
the simulator a second time (Call.invoke called again, see Call.reuse_setup)."""
import json
import os
import random
import re
import sys
import warnings

from .. import ref, gen, bridge

SIMS = ("birth_death_tree", "fast_birth_death_tree", "uniform_pure_birth_tree", "pure_kingman_tree",
        "mean_kingman_tree", "constrained_kingman_tree", "contained_coalescent_tree", "containing_tree_kingman",
        "coalesce_nodes")
BD_SIMS = ("birth_death_tree", "fast_birth_death_tree", "uniform_pure_birth_tree")
KINGMAN_SIMS = ("pure_kingman_tree", "mean_kingman_tree")
GENE_SIMS = ("constrained_kingman_tree", "contained_coalescent_tree", "containing_tree_kingman")
# the first six are the historical configurations (directed jobs index them), the others are label classes:
#  tlower    lower-case look-alikes of the generated "T<k>" labels in a (default) case-insensitive namespace
#  tmixed    mixed-case look-alikes
#  sensitive the same labels in a case-SENSITIVE namespace (there "t1" and "T1" are different labels)
#  blanks    look-alikes with blanks / underscores around or inside
#  random    labels drawn from gen.random_label (special characters, non-ASCII), any count
#  dups      a supplied namespace in which two taxa share a label (legal in DendroPy)
#  selfcase  labels that differ only in case among themselves
NS_CFGS = ("none", "empty", "fewer", "exact", "more", "tlabels",
           "tlower", "tmixed", "sensitive", "blanks", "random", "dups", "selfcase")
STRATEGIES = ("random_uniform", "fixed_per_population", "node_attribute")
MAPPINGS = ("create", "dict", "dict-own-ns", "fn", "attr")
LEGACY = {"birth_death_tree": "birth_death", "uniform_pure_birth_tree": "uniform_pure_birth",
          "pure_kingman_tree": "pure_kingman", "mean_kingman_tree": "mean_kingman",
          "constrained_kingman_tree": "constrained_kingman", "contained_coalescent_tree": "contained_coalescent"}


def name(job):
    """the simulator name used in violation keys / events."""
    if job["sim"] == "containing_tree_kingman":
        return "ContainingTree.%s_contained_kingman" % job.get("method", "simulate")
    return job["sim"]


# ------------------------------------------------------------------------------------------
# job generation (pure Python, no library objects)
def _pick_n(rng, tier, lo=2):
    if tier == "quick":
        return rng.choice([lo, lo, 2, 3, 4, 5, 6, 8, 10, 13, 17, 24, 32, 40])
    r = rng.random()
    if r < 0.55:
        return rng.randint(lo, 20)
    if r < 0.9:
        return rng.randint(20, 80)
    return rng.randint(80, 300)


def _pick_rates(rng):
    birth = rng.choice([0.1, 0.5, 1.0, 1.0, 2.0, 7.5, rng.uniform(0.05, 5.0), 1, 2, 1e-6, 1e6])
    frac = rng.choice([0.0, 0.0, 0.1, 0.5, 0.5, 0.8, 0.9, 0.9, rng.uniform(0.0, 0.9), 0, 0.99])
    if isinstance(birth, int):
        death = birth // 2 if frac else 0          # integer rates: (1, 0), (2, 1), (2, 0)
    else:
        death = birth * frac
    return birth, death


def _ultra(spec, r, steps):
    memo = {}
    for n in ref.postorder(spec):
        if not n[3]:
            memo[id(n)] = 0
        else:
            memo[id(n)] = max(memo[id(c)] for c in n[3]) + r.choice(steps)
    for n in ref.preorder(spec):
        for c in n[3]:
            c[2] = memo[id(n)] - memo[id(c)]


def species_spec(job):
    """the species / population tree of a gene-tree job, with per-edge pop sizes; returns
    (spec, {id(spec node): pop size or None}).  job["lens"]: "ultra" (ultrametric, dyadic, every edge > 0),
    "ultra0" (ultrametric, zero-length edges allowed), "int" (ultrametric, integer lengths), "nonultra"
    (any dyadic lengths incl. 0: tips at different depths).  job["rootlen"]: length of the ROOT edge
    (None / 0.0 / > 0).  job["inttaxa"]: some internal species nodes carry a taxon ("I<k>", never given
    genes).  All lengths are dyadic or integral, so the divergence times of the oracle are exact."""
    r = random.Random("species/%s" % job["tseed"])
    s = job["nsp"]
    names = ["S%d" % i for i in range(s)]
    spec = gen.random_spec(r, s, p_poly=job.get("ppoly", 0.0), p_unary=job.get("punary", 0.0), names=names)
    lens = job.get("lens", "ultra")
    if lens == "ultra":
        gen.ultrametric_lengths(spec, r, dyadic=True)
    elif lens == "ultra0":
        _ultra(spec, r, [0.0, 0.0, 0.125, 0.5, 1.0, 2.0])
    elif lens == "int":
        _ultra(spec, r, [1, 1, 2, 3])
    elif lens == "nonultra":
        for n in ref.preorder(spec):
            n[2] = r.choice([0.0, r.randint(1, 64) / 8.0, r.randint(1, 64) / 8.0, r.randint(1, 4)])
    else:
        raise ValueError(lens)
    spec[2] = job.get("rootlen")
    if job.get("inttaxa"):
        k = 0
        for n in ref.preorder(spec):
            if n[3]:
                if r.random() < 0.6:
                    n[0] = "I%d" % k
                k += 1
    scale = job.get("scale", 1)
    pops = {}
    for n in ref.preorder(spec):
        if n[2] is not None:
            n[2] = n[2] * scale
        mode = job.get("pop", "default")
        if mode == "default":
            pops[id(n)] = None
        elif mode == "const":
            pops[id(n)] = job["popsize"]
        else:
            pops[id(n)] = r.choice([1, 2, 10, 100, 2500.5, 10000, r.randint(1, 10000), None])
    return spec, pops


def species_labels(spec):
    """(leaf species labels in spec order, labels of internal nodes carrying a taxon)"""
    leaves, inner = [], []
    for n in ref.preorder(spec):
        if not n[3]:
            leaves.append(n[0])
        elif n[0] is not None:
            inner.append(n[0])
    return leaves, inner


def genes_per_species(job):
    r = random.Random("genes/%s" % job["tseed"])
    if job.get("genes_fixed"):
        return dict(("S%d" % i, job["genes_fixed"]) for i in range(job["nsp"]))
    gps = dict(("S%d" % i, r.randint(1, job.get("gmax", 5))) for i in range(job["nsp"]))
    if job.get("gzero") and job["nsp"] > 1:       # some (never all) species without genes
        for i in range(1, job["nsp"]):
            if r.random() < 0.4:
                gps["S%d" % i] = 0
    return gps


def _species_fields(job, rng, tier):
    smax = 8 if tier == "quick" else 30
    job["nsp"] = rng.choice([1, 2, 2, 3, 4, 5, 6, smax, rng.randint(2, smax)])
    job["tseed"] = rng.randrange(10 ** 6)
    job["ppoly"] = rng.choice([0.0, 0.0, 0.3])
    job["punary"] = rng.choice([0.0, 0.0, 0.15])
    job["scale"] = rng.choice([1, 1, 64, 1024])
    job["pop"] = rng.choice(["default", "const", "random", "random"])
    if job["pop"] == "const":
        job["popsize"] = rng.choice([1, 2.0, 50, 1000, 10000, 0])
    job["lens"] = rng.choice(["ultra", "ultra", "ultra0", "int", "nonultra"])
    job["rootlen"] = rng.choice([None, None, 0.0, 0.5, 3])
    job["inttaxa"] = rng.random() < 0.25


def make_job(rng, tier, sim=None):
    sim = sim or rng.choice(SIMS[:8] * 3 + SIMS[8:])
    job = {"sim": sim, "seed": rng.randrange(20000 if tier != "quick" else 200)}
    job["rngform"] = rng.choice(["fresh", "fresh", "used", "state"])
    if sim in ("birth_death_tree", "fast_birth_death_tree"):
        job["n"] = _pick_n(rng, tier, lo=1)
        job["birth"], job["death"] = _pick_rates(rng)
        if sim == "birth_death_tree" and job["n"] > 120 and job["death"] > 0.6 * job["birth"]:
            job["n"] = rng.randint(60, 120)      # quadratic simulator: keep the heavy corner bounded
        if job["death"] > 0.95 * job["birth"]:
            job["n"] = min(job["n"], 8)          # death/birth = 0.99: many restarts per success
        job["ns"] = rng.choice(NS_CFGS)
        job["attr"] = rng.random() < 0.8
        if sim == "birth_death_tree" and rng.random() < 0.2 and isinstance(job["birth"], float) \
                and job["death"] <= 0.9 * job["birth"]:
            job["bsd"] = 0.02 * job["birth"]
            if job["death"] >= 0.3 * job["birth"]:
                job["dsd"] = 0.02 * job["birth"]
        r = rng.random()
        if r < 0.15:
            job["alias"] = rng.choice(["ntax", "ntax+assign"])
        if sim == "birth_death_tree" and rng.random() < 0.1:
            job["legacy"] = True
        if rng.random() < 0.15:
            job["extattr"] = "gone"
        if rng.random() < 0.1:
            job["norepeat"] = True
        if rng.random() < 0.25:
            job["reuse"] = True
            job["n2"] = job["n"] + rng.choice([0, 1, 4, job["n"]])
            if job["death"] > 0.95 * job["birth"]:
                job["n2"] = min(job["n2"], 8)
    elif sim == "uniform_pure_birth_tree":
        job["n"] = _pick_n(rng, tier, lo=1)
        job["birth"] = rng.choice([1.0, 0.1, 3.0, rng.uniform(0.05, 5.0), 1, 1e-6, 1e6])
        job["nslabels"] = rng.choice(["a", "a", "random", "selfcase"])
    elif sim in KINGMAN_SIMS:
        job["n"] = _pick_n(rng, tier, lo=1)
        job["pop"] = rng.choice([1, 1, 2, 1.0, 0.5, 37.5, 100, 10000, rng.randint(1, 10000), None, 0, 1e-6, 1e9])
        job["nslabels"] = rng.choice(["a", "a", "random", "selfcase"])
    elif sim in GENE_SIMS:
        _species_fields(job, rng, tier)
        if sim == "contained_coalescent_tree":
            job["gmax"] = rng.choice([1, 2, 3, 5])
            job["mapping"] = rng.choice(MAPPINGS)
            job["defpop"] = rng.choice([1, 1, 5, 400])
            job["attrname"] = rng.choice(["pop_size", "pop_size", "ne", None])
        elif sim == "containing_tree_kingman":
            job["gmax"] = rng.choice([1, 2, 3, 5])
            job["mapping"] = rng.choice(MAPPINGS + ("rawdict",))
            job["defpop"] = rng.choice([1, 1, 5, 400])
            job["attrname"] = rng.choice(["pop_size", "pop_size", "ne"])
            job["method"] = rng.choice(["simulate", "simulate", "embed"])
            job["expected"] = rng.random() < 0.2
            job["fit"] = rng.random() < 0.3
        else:
            job["strategy"] = rng.choice(STRATEGIES)
            job["ngenes"] = rng.choice([None, 1, 2, 3, 5, rng.randint(1, 3 * job["nsp"])])
            if job["strategy"] == "fixed_per_population" and job["ngenes"] is None:
                job["ngenes"] = 2
            if job["strategy"] == "fixed_per_population":
                job["ngenes"] = min(job["ngenes"], 5)
            job["gmax"] = 5
            job["decorate"] = rng.random() < 0.3
            job["treelist"] = rng.random() < 0.3
            job["labelfn"] = rng.choice(["own", "own", "default"])
            job["gzero"] = job["strategy"] == "node_attribute" and rng.random() < 0.3
            job["ngattr"] = rng.choice(["num_genes", "num_genes", "k"])
            job["psattr"] = rng.choice(["pop_size", "pop_size", "ne"])
    elif sim == "coalesce_nodes":
        job["n"] = _pick_n(rng, tier, lo=1)
        job["pop"] = rng.choice([None, 1, 2.5, 100, 10000, 0])
        job["period"] = rng.choice([None, None, 0.0, 0.125, 1.0, 40.0, 1e6, 2])
        job["expected"] = rng.random() < 0.25
    if sim not in ("birth_death_tree", "fast_birth_death_tree"):
        if rng.random() < 0.25:
            job["rngpass"] = "pos"
        if sim in LEGACY and rng.random() < 0.08:
            job["legacy"] = True
        if sim != "coalesce_nodes" and rng.random() < 0.25:
            job["reuse"] = True
    return job


# ------------------------------------------------------------------------------------------
# the generator handed to a simulator
def make_rng(job):
    """a generator in the state the job describes: "fresh" = random.Random(seed); "used" = seeded and then
    drawn from (gauss() leaves a cached second variate in the state); "state" = a differently seeded
    generator whose state was set from a used one with getstate()/setstate().  Equal jobs give equal states."""
    form = job.get("rngform", "fresh")
    r = random.Random(job["seed"])
    if form == "fresh":
        return r
    r.gauss(0, 1)
    r.random()
    r.randint(0, 9)
    if form == "used":
        return r
    if form == "state":
        other = random.Random(job["seed"] + 977)
        other.setstate(r.getstate())
        return other
    raise ValueError(form)


# ------------------------------------------------------------------------------------------
# fresh arguments + the real call
def _lookalikes(n, labels):
    return labels[:max(1, min(len(labels), n - 1))]


def _labels(kind, n, key):
    if kind == "a":
        return ["a%d" % i for i in range(n)]
    if kind == "random":
        r = random.Random("labels/%s" % key)
        return [gen.random_label(r) for _ in range(n)]
    if kind == "selfcase":
        out = []
        for i in range(n):
            out.append(("ab%d" if i % 2 == 0 else "AB%d") % (i // 2))
        return out
    raise ValueError(kind)


def _bd_namespace(job):
    import dendropy
    cfg, n = job["ns"], job["n"]
    if cfg == "none":
        return None
    if cfg == "empty":
        return dendropy.TaxonNamespace()
    if cfg == "fewer":
        return dendropy.TaxonNamespace(["a%d" % i for i in range(n // 2)])
    if cfg == "exact":
        return dendropy.TaxonNamespace(["a%d" % i for i in range(n)])
    if cfg == "more":
        return dendropy.TaxonNamespace(["a%d" % i for i in range(n + 3)])
    if cfg == "tlabels":       # labels that collide with the generated "T<k>" labels
        return dendropy.TaxonNamespace(["T2", "x y", "T1", "T%d" % (n + 1), "T5"][:max(1, min(5, n - 1))])
    if cfg == "tlower":
        return dendropy.TaxonNamespace(_lookalikes(n, ["t2", "x y", "t1", "t%d" % (n + 1), "t5", "t3"]))
    if cfg == "tmixed":
        return dendropy.TaxonNamespace(_lookalikes(n, ["t1", "T3", "t4", "T2", "t%d" % n]))
    if cfg == "sensitive":
        return dendropy.TaxonNamespace(_lookalikes(n, ["t1", "T2", "t3", "T1", "t2"]), is_case_sensitive=True)
    if cfg == "blanks":
        return dendropy.TaxonNamespace(_lookalikes(n, [" T1", "T2 ", "T_3", "T 4", "_T5", "T1_"]))
    if cfg == "random":
        r = random.Random("nslabels/%s/%s" % (n, job["seed"]))
        k = r.choice([max(1, n // 2), n, n + 2])
        return dendropy.TaxonNamespace([gen.random_label(r) for _ in range(k)])
    if cfg == "dups":
        return dendropy.TaxonNamespace(_lookalikes(n, ["a", "a", "b", "T1", "T1", "b"]))
    if cfg == "selfcase":
        return dendropy.TaxonNamespace(_lookalikes(n, ["a1", "A1", "t2", "T2", "b", "B"]))
    raise ValueError(cfg)


class Call(object):
    """one prepared simulator call: .owner/.name (looked up at call time so that hooks are hit),
    .args/.kwargs (without rng), what the oracle needs (.aux), and how the generator is handed over:
    ``pos_order`` = [(keyword, default)] of the parameters that precede ``rng`` in the signature after
    ``args`` (None when the simulator only takes the generator by keyword).

    invoke(rng)                 rng given -> passed by keyword, or positionally when the job says so
    invoke(None)                the ``rng`` argument is omitted
    invoke(None, spell_none=1)  ``rng=None`` is passed explicitly"""

    def __init__(self, owner, name, args, kwargs, aux, pos_order=None, positional=False, before=None,
                 quiet=False):
        self.owner, self.name, self.args, self.kwargs, self.aux = owner, name, args, kwargs, aux
        self.pos_order, self.positional, self.before, self.quiet = pos_order, positional, before, quiet

    def invoke(self, rng, spell_none=False):
        kw = dict(self.kwargs)
        args = list(self.args)
        if self.before is not None:
            self.before()
        if rng is not None or spell_none:
            if self.positional and self.pos_order is not None:
                for key, default in self.pos_order:
                    args.append(kw.pop(key, default))
                args.append(rng)
            else:
                kw["rng"] = rng
        fn = getattr(self.owner, self.name)
        if not self.quiet:
            return fn(*args, **kw)
        from dendropy.utility import deprecate
        with warnings.catch_warnings():
            deprecate._initialize_deprecation_warnings()     # it inserts its own filter on first use
            warnings.simplefilter("ignore")
            return fn(*args, **kw)

    def reuse_setup(self, job):
        """called before the SAME argument objects are handed to the simulator a second time."""
        if "n2" in job and job["sim"] in ("birth_death_tree", "fast_birth_death_tree"):
            key = "ntax" if job.get("alias") else "num_extant_tips"
            self.kwargs[key] = job["n2"]


def _owner(job, default_owner):
    """(owner module, attribute name, quiet): the legacy pass-through wrapper when the job asks for it."""
    sim = job["sim"]
    if job.get("legacy") and sim in LEGACY:
        from dendropy.legacy import treesim as legacy_treesim
        return legacy_treesim, LEGACY[sim], True
    return default_owner, sim, bool(job.get("alias"))


def _gene_mapping(job, sns, leaf_species, aux):
    """the gene -> species TaxonNamespaceMapping (or raw dict) of a job; fills aux["g2s"]; returns
    (mapping argument, domain namespace or None)."""
    import dendropy
    gps = genes_per_species(job)
    by_label = dict((t.label, t) for t in sns)
    g2s = {}
    kind = job["mapping"]
    if kind == "create":
        counts = [gps.get(t.label, 0) for t in sns]      # taxa of internal species nodes get no genes
        m = dendropy.TaxonNamespaceMapping.create_contained_taxon_mapping(
            sns, counts, contained_taxon_label_separator="_")
        for t in sns:
            for k in range(gps.get(t.label, 0)):
                g2s["%s_%d" % (t.label, k + 1)] = t.label
        aux["g2s"] = g2s
        return m, m.domain_taxon_namespace
    md = {}
    order = [(by_label[lbl], k) for lbl in leaf_species for k in range(gps[lbl])]
    random.Random("gorder/%s" % job["tseed"]).shuffle(order)
    gl = []
    for t, k in order:
        gt = dendropy.Taxon(label="g%s.%d" % (t.label, k))
        md[gt] = t
        gl.append(gt)
        g2s[gt.label] = t.label
    aux["g2s"] = g2s
    if kind == "dict":
        m = dendropy.TaxonNamespaceMapping(mapping_dict=md)
        return m, m.domain_taxon_namespace
    dns = dendropy.TaxonNamespace(gl)
    if kind == "dict-own-ns":
        m = dendropy.TaxonNamespaceMapping(mapping_dict=md, domain_taxon_namespace=dns, range_taxon_namespace=sns)
    elif kind == "fn":
        m = dendropy.TaxonNamespaceMapping(mapping_fn=lambda x: md[x], domain_taxon_namespace=dns,
                                           range_taxon_namespace=sns)
    elif kind == "attr":
        for gt in gl:
            gt.species_taxon = md[gt]
        m = dendropy.TaxonNamespaceMapping(mapping_attr_name="species_taxon", domain_taxon_namespace=dns,
                                           range_taxon_namespace=sns)
    elif kind == "rawdict":
        return md, dns
    else:
        raise ValueError(kind)
    return m, dns


def expected_default_labels(job, leaf_species):
    """gene labels constrained_kingman_tree must hand out with its DEFAULT gene_node_label_fn
    ("<species>_<two-digit index>"), as {label: species}; None for random_uniform (species free)."""
    if job["strategy"] == "fixed_per_population":
        return dict(("%s_%02d" % (s, k + 1), s) for s in leaf_species for k in range(job["ngenes"]))
    if job["strategy"] == "node_attribute":
        gps = genes_per_species(job)
        return dict(("%s_%02d" % (s, k + 1), s) for s in leaf_species for k in range(gps[s]))
    return None


def prepare(job):
    import dendropy
    from dendropy.simulate import treesim
    from dendropy.model import birthdeath, coalescent, reconcile
    sim = job["sim"]
    positional = job.get("rngpass") == "pos"
    if sim == "rand_trees":
        return RandTreesCall(treesim, job)
    if sim in ("birth_death_tree", "fast_birth_death_tree"):
        kw = {("ntax" if job.get("alias") else "num_extant_tips"): job["n"]}
        if job.get("alias") == "ntax+assign":
            kw["assign_taxa"] = True
        ns = _bd_namespace(job)
        if ns is not None:
            kw["taxon_namespace"] = ns
        if not job.get("attr", True):
            kw["is_add_extinct_attr"] = False
        if job.get("extattr"):
            kw["extinct_attr_name"] = job["extattr"]
        if job.get("norepeat"):
            kw["repeat_until_success"] = False
        if sim == "birth_death_tree":
            if "bsd" in job:
                kw["birth_rate_sd"] = job["bsd"]
            if "dsd" in job:
                kw["death_rate_sd"] = job["dsd"]
            owner, attr, quiet = _owner(job, treesim)
        else:
            owner, attr, quiet = birthdeath, sim, bool(job.get("alias"))
        return Call(owner, attr, (job["birth"], job["death"]), kw, {"ns": ns}, quiet=quiet)
    if sim == "uniform_pure_birth_tree":
        ns = dendropy.TaxonNamespace(_labels(job.get("nslabels", "a"), job["n"], job["seed"]))
        owner, attr, quiet = _owner(job, treesim)
        return Call(owner, attr, (ns,), {"birth_rate": job["birth"]}, {"ns": ns},
                    pos_order=[("birth_rate", 1.0)], positional=positional, quiet=quiet)
    if sim in KINGMAN_SIMS:
        ns = dendropy.TaxonNamespace(_labels(job.get("nslabels", "a"), job["n"], job["seed"]))
        owner, attr, quiet = _owner(job, treesim)
        return Call(owner, attr, (ns,), {"pop_size": job["pop"]}, {"ns": ns},
                    pos_order=[("pop_size", 1)], positional=positional, quiet=quiet)
    if sim == "coalesce_nodes":
        nodes = [dendropy.Node(label="n%d" % i) for i in range(job["n"])]
        kw = {"pop_size": job["pop"], "period": job["period"], "use_expected_tmrca": job["expected"]}
        return Call(coalescent, sim, (), dict(kw, nodes=nodes), {"nodes": nodes},
                    pos_order=[("nodes", None), ("pop_size", None), ("period", None)], positional=positional)
    # gene tree inside a species tree
    spec, pops = species_spec(job)
    leaf_species, inner_species = species_labels(spec)
    sns = dendropy.TaxonNamespace(["S%d" % i for i in range(job["nsp"])] + inner_species)
    ptree = bridge.build_tree(spec, sns, True)
    if sim == "constrained_kingman_tree":
        attr = job.get("psattr", "pop_size")
    else:
        attr = job.get("attrname", "pop_size")
    nodes = []           # (own spec node, live node), walked in parallel (build_tree keeps the child order)
    stack = [(spec, ptree.seed_node)]
    while stack:
        s, nd = stack.pop()
        nodes.append((s, nd))
        stack.extend(zip(s[3], nd._child_nodes))
    for s, nd in nodes:
        if pops[id(s)] is not None and attr:
            setattr(nd._edge, attr, pops[id(s)])
    aux = {"species": spec, "ptree": ptree}
    if sim == "contained_coalescent_tree":
        m, dns = _gene_mapping(job, sns, leaf_species, aux)
        kw = {"default_pop_size": job.get("defpop", 1)}
        if job.get("attrname", "pop_size") != "pop_size":
            kw["edge_pop_size_attr"] = job.get("attrname")
        owner, fname, quiet = _owner(job, treesim)
        return Call(owner, fname, (ptree, m), kw, aux,
                    pos_order=[("edge_pop_size_attr", "pop_size"), ("default_pop_size", 1)],
                    positional=positional, quiet=quiet)
    if sim == "containing_tree_kingman":
        m, dns = _gene_mapping(job, sns, leaf_species, aux)
        ct = reconcile.ContainingTree(ptree, contained_taxon_namespace=dns, contained_to_containing_taxon_map=m,
                                      fit_containing_edge_lengths=bool(job.get("fit")))
        aux["ct"] = ct
        kw = {"default_pop_size": job.get("defpop", 1), "use_expected_tmrca": bool(job.get("expected"))}
        if job.get("attrname", "pop_size") != "pop_size":
            kw["edge_pop_size_attr"] = job.get("attrname")
        return Call(ct, "%s_contained_kingman" % job.get("method", "simulate"), (), kw, aux,
                    pos_order=[("edge_pop_size_attr", "pop_size"), ("default_pop_size", 1), ("label", None)],
                    positional=positional)
    # constrained_kingman_tree
    aux["g2s"] = {}
    aux["handed_out"] = []
    before = None
    kw = {"gene_sampling_strategy": job["strategy"], "decorate_original_tree": job["decorate"]}
    if job.get("labelfn", "own") == "own":
        def label_fn(sp_label, idx):
            lbl = "%s_%02d" % (sp_label, idx)
            aux["g2s"][lbl] = sp_label
            aux["handed_out"].append(lbl)
            return lbl

        def before():        # the labels handed out by THIS call are the genes of this call
            aux["g2s"] = {}
            aux["handed_out"] = []
        kw["gene_node_label_fn"] = label_fn
    else:
        aux["g2s"] = None
        aux["expected_labels"] = expected_default_labels(job, leaf_species)
    if job["ngenes"] is not None:
        kw["num_genes"] = job["ngenes"]
    aux["num_random"] = job["ngenes"] if job["ngenes"] is not None else len(leaf_species)
    if job["strategy"] == "node_attribute":
        gps = genes_per_species(job)
        gattr = job.get("ngattr", "num_genes")
        for s, nd in nodes:
            if not s[3]:
                setattr(nd, gattr, gps[s[0]])
        if gattr != "num_genes":
            kw["num_genes_attr"] = gattr
    if job.get("psattr", "pop_size") != "pop_size":
        kw["pop_size_attr"] = job["psattr"]
    if job["treelist"]:
        kw["gene_tree_list"] = dendropy.TreeList()
    owner, fname, quiet = _owner(job, treesim)
    return Call(owner, fname, (ptree,), kw, aux, pos_order=[("gene_tree_list", None)], positional=positional,
                before=before, quiet=quiet)


class RandTreesCall(object):
    """treesim.rand_trees (vectorising wrapper) with birth_death_tree as model function; it returns a
    generator, so the monitored window must span its consumption: ``mon`` (set by the property module) gets
    its pre/post pair applied here by hand instead of through vf.mon.hooks."""

    def __init__(self, treesim, job):
        self.treesim, self.job, self.aux, self.mon = treesim, job, {"ns": None}, None
        # the iterable-of-mappings form is a separate branch of rand_trees: own operation name in the keys
        self.opname = "rand_trees(iterable-of-mappings)" if job["form"].startswith("list") else "rand_trees"
        self.base = {"birth_rate": job["birth"], "death_rate": job["death"], "num_extant_tips": job["n"]}

    def reuse_setup(self, job):
        pass

    def invoke(self, rng, spell_none=False):
        mon = self.mon
        if mon is None:
            return self._invoke(rng)
        snap = mon.mk_pre(self.opname)(None, (rng,), {})
        mon.ctx.ev("hook:treesim.rand_trees:call")
        try:
            res = self._invoke(rng)
            mon.ctx.ev("hook:treesim.rand_trees:return")
            return res
        finally:
            if snap is not None:
                mon.finish(snap)

    def expected_count(self):
        form = self.job["form"]
        return self.job["reps"] * (2 if form.startswith("list") else 1)

    def _invoke(self, rng):
        form = self.job["form"]
        ts = self.treesim
        if form == "mapping":
            mk = dict(self.base)
        elif form == "mapping+rng":
            mk = dict(self.base, rng=rng)
        elif form == "list":             # iterable of mappings: n_replicates trees for each of them
            mk = [dict(self.base), dict(self.base, num_extant_tips=self.job["n"])]
        elif form == "list+rng":
            mk = [dict(self.base, rng=rng), dict(self.base, rng=rng)]
        else:
            base = self.base

            def mk(rep_idx, r):
                return dict(base, rng=r)
        return list(ts.rand_trees(rng, ts.birth_death_tree, mk, self.job["reps"]))


# ------------------------------------------------------------------------------------------
# flat, order-preserving encoding of what a simulator returned
def flat(spec):
    return [[n[0], n[1], n[2], len(n[3])] for n in ref.preorder(spec)]


def unflat(rows):
    """inverse of flat() (iterative, pre-order)."""
    pos = [0]

    def take():
        r = rows[pos[0]]
        pos[0] += 1
        return [r[0], r[1], r[2], []], r[3]
    root, k = take()
    stack = [(root, k)]
    while stack:
        node, need = stack[-1]
        if len(node[3]) == need:
            stack.pop()
            continue
        child, ck = take()
        node[3].append(child)
        stack.append((child, ck))
    return root


def encode_result(job, result):
    """flat encoding of the tree(s) a job returned: a list of flat trees (a forest for coalesce_nodes)."""
    sim = job["sim"]
    if sim == "coalesce_nodes":
        return [flat(bridge.extract(nd)) for nd in result]
    if sim == "rand_trees":
        return [flat(bridge.extract(t)) for t in result]
    if sim == "constrained_kingman_tree":
        result = result[0]
    return [flat(bridge.extract(result))]


def run_plain(job, mode="explicit"):
    """one run without monitors (child interpreters): returns (encoding, None) or (None, "ExcClass: msg")"""
    import dendropy.utility
    call = prepare(job)
    try:
        if mode == "explicit":
            res = call.invoke(make_rng(job))
        else:
            dendropy.utility.GLOBAL_RNG.setstate(make_rng(job).getstate())
            res = call.invoke(None)
        return encode_result(job, res), None
    except Exception as e:      # reported by the parent as a difference
        return None, "%s: %s" % (type(e).__name__, str(e)[:200])


# ------------------------------------------------------------------------------------------
# RNG tripwire
def _repo_prefix():
    from ..core import REPO_SRC
    return os.path.abspath(REPO_SRC) + os.sep


class Tripwire(object):
    """While armed, every public method of dendropy.utility.GLOBAL_RNG (instance attributes shadowing
    the class's methods, so every module that imported the object is covered) and every module-level
    function of ``random`` is a recorder that notes (which, innermost library function, stack) and then
    delegates to the original.  Generator states are compared as a second line (a reference bound
    before arming would bypass the recorders but not leave the state untouched)."""

    def __init__(self):
        self.hits = []
        self._undo = []
        self._depth = 0
        self._states = None
        self.armed = False

    def _recorder(self, which, orig):
        tw = self

        def recorder(*a, **kw):
            if tw._depth == 0 and tw.armed:
                tw._note(which)
            tw._depth += 1
            try:
                return orig(*a, **kw)
            finally:
                tw._depth -= 1
        recorder.__name__ = getattr(orig, "__name__", "recorder")
        return recorder

    def _note(self, which):
        prefix = _repo_prefix()
        f = sys._getframe(2)
        inner = None
        stack = []
        while f is not None and len(stack) < 12:
            code = f.f_code
            if code.co_filename.startswith(prefix):
                q = getattr(code, "co_qualname", code.co_name)
                if inner is None:
                    inner = q
                stack.append("%s:%s:%d" % (os.path.basename(code.co_filename), q, f.f_lineno))
            f = f.f_back
        if len(self.hits) < 50:
            self.hits.append((which, inner or "<outside-library>", stack))

    def arm(self, watch_global_rng=True):
        import dendropy.utility
        g = dendropy.utility.GLOBAL_RNG
        inst = random._inst
        self._states = (g.getstate(), inst.getstate())
        self._getstates = (g.getstate, inst.getstate)
        self.watch_global_rng = watch_global_rng
        if watch_global_rng:
            for name in dir(g):
                if name.startswith("_"):
                    continue
                orig = getattr(g, name)
                if not callable(orig):
                    continue
                had = name in g.__dict__
                old = g.__dict__.get(name)
                setattr(g, name, self._recorder("GLOBAL_RNG.%s" % name, orig))
                self._undo.append(("inst", g, name, had, old))
        for name in random.__all__:
            orig = getattr(random, name)
            if isinstance(orig, type) or not callable(orig):
                continue
            setattr(random, name, self._recorder("random.%s" % name, orig))
            self._undo.append(("mod", random, name, True, orig))
        self.armed = True

    def disarm(self):
        """restores everything; returns the list of state-level findings (strings)."""
        self.armed = False
        while self._undo:
            kind, owner, name, had, old = self._undo.pop()
            if kind == "inst" and not had:
                try:
                    delattr(owner, name)
                except AttributeError:
                    pass
            else:
                setattr(owner, name, old)
        changed = []
        if self._states is not None:
            g_get, i_get = self._getstates
            if self.watch_global_rng and g_get() != self._states[0]:
                changed.append("GLOBAL_RNG")
            if i_get() != self._states[1]:
                changed.append("random")
        self._states = None
        return changed


class RestartCounter(object):
    """counts executions of the restart-after-total-extinction branch: Node.clear_child_nodes called
    directly from a birth-death simulator's frame (its only call sites there are that branch and the
    general-sampling branch, which this check never enables)."""

    def __init__(self):
        self.count = 0
        self._orig = None

    def install(self):
        import dendropy
        counter = self
        orig = dendropy.Node.clear_child_nodes
        self._orig = orig

        def clear_child_nodes(self_node, *a, **kw):
            if sys._getframe(1).f_code.co_name in ("birth_death_tree", "fast_birth_death_tree"):
                counter.count += 1
            return orig(self_node, *a, **kw)
        dendropy.Node.clear_child_nodes = clear_child_nodes

    def uninstall(self):
        import dendropy
        if self._orig is not None:
            dendropy.Node.clear_child_nodes = self._orig
            self._orig = None


# ------------------------------------------------------------------------------------------
def main():
    from .. import core
    core.ensure_repo_on_path()
    sys.setrecursionlimit(20000)
    doc = json.load(sys.stdin)
    out = []
    for job in doc["jobs"]:
        enc, err = run_plain(job, "explicit")
        out.append({"enc": enc, "err": err})
    json.dump({"results": out, "hashseed": os.environ.get("PYTHONHASHSEED")}, sys.stdout)


if __name__ == "__main__":
    main()
